#!/usr/bin/env python3
"""tools/regen_docs.py: regenerates every generated part of the documentation: MANIFEST.json (harness/manifest_gen.py),
DESIGN.md §10 status table, §11 fix/finding tables, §13 seed table, THEOREMS.md."""
import os, subprocess, sys
V = os.path.dirname(os.path.dirname(os.path.abspath(__file__)))


def out(*cmd):
    return subprocess.run([sys.executable] + list(cmd), cwd=V, capture_output=True, text=True, check=True).stdout


def splice(s, name, body):
    a = s.index('<!-- %s-begin -->' % name) + len('<!-- %s-begin -->' % name)
    b = s.index('<!-- %s-end -->' % name)
    return s[:a] + '\n' + body.strip('\n') + '\n' + s[b:]


out('harness/manifest_gen.py')
out('tools/findings_table.py')
p = os.path.join(V, 'DESIGN.md')
s = open(p).read()
s = splice(s, 'status-table', out('tools/status_table.py'))
s = splice(s, 'seed-table', out('tools/seed_table.py'))
open(p, 'w').write(s)
t = os.path.join(V, 'THEOREMS.md')
head = open(t).read().split('\n**', 1)[0]
open(t, 'w').write(head.rstrip('\n') + '\n' + out('tools/theorem_index.py'))
print('regenerated')
