#!/usr/bin/env python3
"""tools/fold_findings.py old=new [old=new ...]: folds known_findings.d/*.json into known_findings.json,
rewriting fix-commit hashes (builder worktree hash -> hash on /repo main), then removes known_findings.d."""
import glob, json, os, shutil, sys
V = os.path.dirname(os.path.dirname(os.path.abspath(__file__)))
m = dict(a.split('=') for a in sys.argv[1:])
k = json.load(open(os.path.join(V, 'known_findings.json')))
k.setdefault('notes', [])
for fn in sorted(glob.glob(os.path.join(V, 'known_findings.d', '*.json'))):
    k2 = json.load(open(fn))
    for f in k2.get('findings', []):
        if f not in k['findings']:
            k['findings'].append(f)
    for f in k2.get('fixed', []):
        for a, b in m.items():
            f = f.replace(a, b)
        if f not in k['fixed']:
            k['fixed'].append(f)
    for n in k2.get('notes', []):
        if n not in k['notes']:
            k['notes'].append(n)
json.dump(k, open(os.path.join(V, 'known_findings.json'), 'w'), indent=1)
shutil.rmtree(os.path.join(V, 'known_findings.d'), ignore_errors=True)
print(len(k['findings']), 'findings', len(k['fixed']), 'fixed')
