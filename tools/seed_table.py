#!/usr/bin/env python3
"""Prints the markdown table of seeded changes (seeded/*/meta.json) for DESIGN.md §12."""
import glob, json, os
V = os.path.dirname(os.path.dirname(os.path.abspath(__file__)))
print('| seed | property | site | what it needs to manifest | caught by | how |')
print('|---|---|---|---|---|---|')
for d in sorted(glob.glob(os.path.join(V, 'seeded', '*'))):
    m = json.load(open(os.path.join(d, 'meta.json')))
    how = []
    for c, r in m.get('checks_run', {}).items():
        if r['rc'] != 0 and r['violation_lines']:
            how.append('%s: %s' % (c, 'no-failing-input-found (broken correspondence/obligation)' if r['no_failing_input_found'] else 'oracle, concrete input'))
        else:
            how.append('%s: MISSED' % c)
    def cell(x):
        return str(x).replace('|', '\\|').replace('\n', ' ')[:220]
    print('| %s | %s | %s | %s | %s | %s |' % (os.path.basename(d), m.get('property'), cell(m.get('site')), cell(m.get('needs')),
                                         ', '.join(m.get('caught_by', [])) or '—', '; '.join(how)))
