#!/usr/bin/env python3
"""tools/seed_try.py <seed-src-dir> <seed-id> <check-id>[,<check-id>...] [--tier quick]
Confirms a seeded change (patch.diff + demo.py + meta.json) in a scratch worktree of /repo:
 demo passes on the clean tree; patch applies; existing suite still passes; demo fails with the patch.
Then runs the named checks against the patched scratch worktree (VERIF_REPO) and records which caught it.
Stores everything under /verif/seeded/<seed-id>/ .  The scratch worktree is removed at the end."""
import json, os, shutil, subprocess, sys, time

VERIF = os.path.dirname(os.path.dirname(os.path.abspath(__file__)))


def sh(cmd, cwd=None, env=None, timeout=3600):
    p = subprocess.run(cmd, shell=True, cwd=cwd, env=env, stdout=subprocess.PIPE, stderr=subprocess.STDOUT, text=True, timeout=timeout)
    return p.returncode, p.stdout


def main():
    src, sid, checks = os.path.abspath(sys.argv[1]), sys.argv[2], sys.argv[3].split(',')
    tier = 'quick'
    if '--tier' in sys.argv:
        tier = sys.argv[sys.argv.index('--tier') + 1]
    wt = '/tmp/seedwt-%s' % sid
    sh('git -C /repo worktree remove --force %s' % wt)
    rc, out = sh('git -C /repo worktree add --detach %s HEAD' % wt)
    assert rc == 0, out
    ran = []
    env = dict(os.environ, PYTHONPATH=wt, PYTHONHASHSEED='0', PYTHONDONTWRITEBYTECODE='1')
    try:
        demo = os.path.join(src, 'demo.py')
        rc0, o0 = sh('/venv/bin/python %s' % demo, cwd=wt, env=env, timeout=1800)
        ran.append({'cmd': 'demo.py on clean tree', 'rc': rc0, 'tail': o0[-300:]})
        rc, o = sh('git apply %s' % os.path.join(src, 'patch.diff'), cwd=wt)
        ran.append({'cmd': 'git apply patch.diff', 'rc': rc, 'tail': o[-300:]})
        assert rc == 0, o
        rct, ot = sh('/venv/bin/python -m pytest -q -p no:cacheprovider 2>&1 | tail -2', cwd=wt, env=env)
        ran.append({'cmd': 'pytest (existing suite) with patch', 'rc': rct, 'tail': ot[-200:]})
        rc1, o1 = sh('/venv/bin/python %s' % demo, cwd=wt, env=env, timeout=1800)
        ran.append({'cmd': 'demo.py with patch', 'rc': rc1, 'tail': o1[-400:]})
        confirmed = rc0 == 0 and '141 passed' in ot and rc1 != 0
        results = {}
        if confirmed:
            for c in checks:
                t0 = time.time()
                rcc, oc = sh('./check %s --tier %s' % (c, tier), cwd=VERIF, env=dict(os.environ, VERIF_REPO=wt), timeout=7200)
                vio = [l for l in oc.split('\n') if l.startswith('VIOLATION')]
                rep = ''
                if vio:
                    path = vio[0].split('replay=')[1].split()[0]
                    try:
                        rep = json.dumps(json.load(open(path)).get('replay'))[:600]
                    except Exception as e:
                        rep = repr(e)
                results[c] = {'rc': rcc, 'violation_lines': vio[:3], 'replay_excerpt': rep, 'wall_s': round(time.time() - t0, 1),
                              'no_failing_input_found': any('no-failing-input-found' in v for v in vio)}
        dst = os.path.join(VERIF, 'seeded', sid)
        os.makedirs(dst, exist_ok=True)
        for f in ('patch.diff', 'demo.py'):
            if os.path.abspath(os.path.join(src, f)) != os.path.abspath(os.path.join(dst, f)):
                shutil.copy(os.path.join(src, f), os.path.join(dst, f))
        meta = {}
        try:
            meta = json.load(open(os.path.join(src, 'meta.json')))
        except Exception:
            pass
        meta['confirmed'] = confirmed
        meta['confirmation_runs'] = ran
        meta['checks_run'] = results
        meta['caught_by'] = [c for c, r in results.items() if r['rc'] != 0 and r['violation_lines']]
        json.dump(meta, open(os.path.join(dst, 'meta.json'), 'w'), indent=1)
        print(sid, 'confirmed' if confirmed else 'NOT CONFIRMED', 'caught_by', meta['caught_by'],
              {c: (r['rc'], r['violation_lines'][:1], r['wall_s']) for c, r in results.items()})
    finally:
        sh('git -C /repo worktree remove --force %s' % wt)
        # evidence files were rewritten by the seeded run: restore the committed ones
        sh('git checkout -- evidence', cwd=VERIF)


if __name__ == '__main__':
    main()
