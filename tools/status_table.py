#!/usr/bin/env python3
"""Prints the per-property status table for DESIGN.md §10 (from coq/props/*.v, evidence/*.json, known_findings.json)."""
import glob, json, os, re
V = os.path.dirname(os.path.dirname(os.path.abspath(__file__)))
kf = json.load(open(os.path.join(V, 'known_findings.json')))
ids = [json.loads(l)['id'] for l in open(os.path.join(V, 'properties.jsonl')) if l.strip()]
print('| id | property files | theorems (full) | `_partial` | `_refuted` | listed findings | fix commits | quick-tier evaluations |')
print('|---|---|---|---|---|---|---|---|')
for pid in ids:
    files = sorted(glob.glob(os.path.join(V, 'coq', 'props', pid + '*.v')))
    th, part, ref = [], [], []
    for f in files:
        src = open(f).read()
        src = re.sub(r'\(\*.*?\*\)', '', src, flags=re.S)
        for n in re.findall(r'^\s*Theorem\s+([\w\']+)', src, flags=re.M):
            (part if n.endswith('_partial') else ref if 'refuted' in n else th).append(n)
        for n in re.findall(r'^\s*Example\s+([\w\']+)', src, flags=re.M):
            if 'refuted' in n:
                ref.append(n)
    nf = len([x for x in kf['findings'] if x['property'] == pid])
    nx = len([x for x in kf['fixed'] if 'property=%s ' % pid in x])
    ev = {}
    try:
        ev = json.load(open(os.path.join(V, 'evidence', pid + '.json')))
    except Exception:
        pass
    print('| %s | %s | %d | %s | %s | %d | %d | %s |' % (
        pid, ', '.join(os.path.basename(f) for f in files), len(th),
        ', '.join(n.replace(pid + '_', '') for n in part) or '—', ', '.join(n.replace(pid + '_', '') for n in ref) or '—', nf, nx,
        ev.get('coverage', {}).get('evaluations', '?')))
