#!/venv/bin/python
"""tools/coverage_all.py [tier]: development aid (support, not proof).  Runs every check once with line coverage of
/repo/emmet collected in the main process AND the worker processes, combines the data and prints, per source file,
the lines no check executed -- the blind spots of the generators.  Evidence files are restored afterwards."""
import glob, json, os, shutil, subprocess, sys, tempfile
V = os.path.dirname(os.path.dirname(os.path.abspath(__file__)))
tier = sys.argv[1] if len(sys.argv) > 1 else 'quick'
ids = [json.loads(l)['id'] for l in open(os.path.join(V, 'properties.jsonl')) if l.strip()]
d = tempfile.mkdtemp(prefix='covall-')
bak = tempfile.mkdtemp(prefix='evbak-')
shutil.copytree(os.path.join(V, 'evidence'), os.path.join(bak, 'evidence'))
env = dict(os.environ, VERIF_COV_DIR=d, COVERAGE_CORE='sysmon')
try:
    procs = []
    for i in ids:
        procs.append((i, subprocess.Popen([os.path.join(V, 'check'), i, '--tier', tier], cwd=V, env=env,
                                          stdout=subprocess.PIPE, stderr=subprocess.STDOUT, text=True)))
        if len(procs) >= 4:
            i0, p0 = procs.pop(0)
            print(i0, p0.communicate()[0].strip().splitlines()[-1][:160], flush=True)
    for i0, p0 in procs:
        print(i0, p0.communicate()[0].strip().splitlines()[-1][:160], flush=True)
finally:
    shutil.rmtree(os.path.join(V, 'evidence'))
    shutil.copytree(os.path.join(bak, 'evidence'), os.path.join(V, 'evidence'))
    shutil.rmtree(bak)
sys.path.insert(0, os.path.join(V, 'harness'))
import coverage
repo = os.environ.get('VERIF_REPO', '/repo')
c = coverage.Coverage(data_file=os.path.join(d, '.coverage'), source=[os.path.join(repo, 'emmet')], config_file=False)
c.combine(glob.glob(os.path.join(d, '.coverage.*')))
tot = ex = 0
for root, _, fs in os.walk(os.path.join(repo, 'emmet')):
    for fn in sorted(fs):
        if fn.endswith('.py'):
            path = os.path.join(root, fn)
            try:
                _, stmts, _, missing, _ = c.analysis2(path)
            except Exception as e:
                print(path, 'no data', e)
                continue
            tot += len(stmts); ex += len(stmts) - len(missing)
            if missing:
                print('%s: %d/%d  missing %s' % (os.path.relpath(path, repo), len(stmts) - len(missing), len(stmts), missing))
print('total %d/%d statements' % (ex, tot))
shutil.rmtree(d)
