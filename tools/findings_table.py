#!/usr/bin/env python3
"""tools/findings_table.py: rewrites the two tables of DESIGN.md §11 (repaired defects, listed findings) from
known_findings.json, and the commit count in the section's first paragraph."""
import json, os, re, subprocess
V = os.path.dirname(os.path.dirname(os.path.abspath(__file__)))
k = json.load(open(os.path.join(V, 'known_findings.json')))


def esc(s, n=330):
    s = s.replace('|', '\\|').replace('\n', '\\n')
    return s if len(s) <= n else s[:n] + '…'


rows = []
for f in k['fixed']:
    m = re.match(r'fixed: property=(C\d+) ([0-9a-f]{7,}) (.*)', f, re.S)
    if m:
        rows.append((m.group(1), m.group(2), m.group(3)))
rows.sort(key=lambda r: r[0])
fixes = ['| property | commit | what failed |', '|---|---|---|'] + ['| %s | `%s` | %s |' % (p, c, esc(w)) for p, c, w in rows]
finds = ['| property | key | what fails |', '|---|---|---|'] + [
    '| %s | `%s` | %s |' % (f['property'], f['key'].replace('|', '\\|'), esc(f['what'], 260)) for f in k['findings']]
p = os.path.join(V, 'DESIGN.md')
s = open(p).read()
a = s.index('| property | commit | what failed |')
b = s.index('\n\n', a)
s = s[:a] + '\n'.join(fixes) + s[b:]
a = s.index('| property | key | what fails |')
b = s.index('\n\n', a)
s = s[:a] + '\n'.join(finds) + s[b:]
n = subprocess.run(['git', '-C', os.environ.get('VERIF_REPO', '/repo'), 'log', '--oneline', '--grep=^fix:'], capture_output=True, text=True).stdout.count('\n')
s = re.sub(r'\(\d+ commits on top of the pinned tree', '(%d commits on top of the pinned tree' % n, s)
open(p, 'w').write(s)
print(len(rows), 'fixes', len(k['findings']), 'findings', n, 'fix commits in repo')
