#!/usr/bin/env python3
"""Prints an index of every property theorem (coq/props/*.v) with the first sentence of the comment above it."""
import glob, os, re
V = os.path.dirname(os.path.dirname(os.path.abspath(__file__)))
for f in sorted(glob.glob(os.path.join(V, 'coq', 'props', '*.v'))):
    src = open(f).read()
    print('\n**%s**\n' % os.path.basename(f))
    for m in re.finditer(r'((?:\(\*(?:(?!\*\)).)*\*\)\s*)*)^\s*(Theorem|Example)\s+([\w\']+)', src, flags=re.S | re.M):
        com = m.group(1) or ''
        last = re.findall(r'\(\*((?:(?!\*\)).)*)\*\)', com, flags=re.S)
        text = ' '.join(last[-1].split()) if last else ''
        text = re.sub(r'^-+\s*', '', text)
        text = text[:230] + ('…' if len(text) > 230 else '')
        kind = 'ex.' if m.group(2) == 'Example' else ''
        print('* `%s` %s— %s' % (m.group(3), kind + ' ' if kind else '', text.replace('|', '\\|') or '(see file)'))
