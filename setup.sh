#!/bin/bash
# Build the whole framework from files on disk only (offline).
set -e
cd "$(dirname "$0")"
export PYTHONPATH="${VERIF_REPO:-/repo}" PYTHONHASHSEED=0
/venv/bin/python - <<'PY'
import sys
sys.path.insert(0, 'harness')
import common
ok, out = common.make([])
print(out[-3000:])
if not ok:
    print('setup: coq build failed (checks will report it)')
for name in common.MODELS:
    exe, err = common.build_model(name)
    print(name, exe or err[-2000:])
PY
