"""C08: equal mappings built in another key order (no dependencies: imported by the worker and by the generators).

Two Python dicts with the same keys and values are EQUAL (==) whatever order their keys were inserted in, so a
configuration, its `snippets` / `options` / `variables` / context attributes and the sections of a global
configuration are equal arguments of expand() in every key order.  `reorder(o, perm)` rebuilds every mapping inside
`o` (at every level of nesting) in another insertion order; lists keep their order (a list in another order is another
argument)."""
import hashlib


def _rank(perm, key):
    return hashlib.md5(('%d:%s' % (perm, key)).encode('utf-8', 'replace')).hexdigest()


def reorder(o, perm=0):
    """an object equal to `o` (plain JSON data) whose mappings were built in another key order:
    perm 0 = reversed insertion order, perm n > 0 = a fixed pseudo-random permutation number n of the keys"""
    if isinstance(o, dict):
        ks = list(o)
        if perm == 0:
            ks.reverse()
        else:
            ks.sort(key=lambda k: _rank(perm, str(k)))
        return {k: reorder(o[k], perm) for k in ks}
    if isinstance(o, list):
        return [reorder(x, perm) for x in o]
    return o
