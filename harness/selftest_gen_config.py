"""Self-test of the fail-closed AST reader in gen_config.py: source variants of emmet/config.py and
emmet/__init__.py that must be accepted (harmless rewrites) or rejected (anything not understood).
Run: VERIF_REPO=<repo> /venv/bin/python harness/selftest_gen_config.py   (prints **UNEXPECTED** on a wrong verdict)"""
import sys, ast, os
sys.path.insert(0, os.path.dirname(os.path.abspath(__file__)))
REPO = os.environ.setdefault('VERIF_REPO', '/repo')
import gen_tables, gen_config as g
src=open(os.path.join(REPO, 'emmet', 'config.py')).read()
isrc=open(os.path.join(REPO, 'emmet', '__init__.py')).read()
def t(name, s=None, i=None, expect_ok=True):
    try:
        tree=ast.parse(s or src)
        g._check_module_bindings(tree)
        st,_=g.parse_merged_data(tree); ci=g.parse_config_init(tree); g.parse_expand(ast.parse(i or isrc))
        res='OK %s' % ([x[0] for x in st],) if s else 'OK'
        ok=True
    except g.GenError as e:
        res='GenError: %s' % e; ok=False
    print('%-28s %s %s' % (name, 'as-expected' if ok==expect_ok else '**UNEXPECTED**', res[:150]))
def rep(a,b,s=src):
    assert a in s, a
    return s.replace(a,b,1)
t('baseline')
fetch="""    type_defaults = SYNTAX_CONFIG.get(syntax_type, empty)
    type_override = global_config.get(syntax_type, empty)
    syntax_defaults = SYNTAX_CONFIG.get(syntax, empty)
    syntax_override = global_config.get(syntax, empty)
"""
t('reorder fetch', rep(fetch, "    syntax_override = global_config.get(syntax, empty)\n    syntax_defaults = SYNTAX_CONFIG.get(syntax, empty)\n    type_override = global_config.get(syntax_type, empty)\n    type_defaults = SYNTAX_CONFIG.get(syntax_type, empty)\n"))
t('alias layer var', rep("    type_override = global_config", "    tdef = type_defaults\n    type_override = global_config"))
t('result before fetch', rep("    empty = {}\n", "    empty = {}\n    result = {}\n").replace("\n    result = {}\n    result.update(DEFAULT", "\n    result.update(DEFAULT",1))
t('annotated + dict()', rep("    result = {}\n", "    result: dict = dict()\n"))
t('fetches after first update', rep(fetch,"").replace("    if key in type_defaults:", fetch+"    if key in type_defaults:",1))
t('swap updates (semantic)', rep("    if key in syntax_defaults: result.update(syntax_defaults[key])\n    if key in type_override: result.update(type_override[key])","    if key in type_override: result.update(type_override[key])\n    if key in syntax_defaults: result.update(syntax_defaults[key])"))
t('alias empty as result', rep("    result = {}\n", "    result = empty\n"), expect_ok=False)
t('result as default', rep(fetch, fetch.replace("get(syntax, empty)","get(syntax, result)")).replace("    empty = {}\n","    empty = {}\n    result = {}\n",1).replace("\n    result = {}\n    result.update(DEFAULT", "\n    result.update(DEFAULT",1), expect_ok=False)
t('decorator', rep("def merged_data(", "import functools\n@functools.cache\ndef merged_data("), expect_ok=False)
t('non-empty default arg', rep("global_config: dict={}):\n    empty", "global_config: dict=SYNTAX_CONFIG):\n    empty"), expect_ok=False)
t('init default arg', rep("def __init__(self, user_config={}, global_config={})", "def __init__(self, user_config={}, global_config=SYNTAX_CONFIG)"), expect_ok=False)
t('rebinding merged_data', src+"\nmerged_data = lambda *a: {}\n", expect_ok=False)
t('module-level loop', src+"\nfor k in list(SYNTAX_CONFIG):\n    pass\n", expect_ok=False)
t('extra helper fn (harmless)', src+"\ndef helper():\n    return 1\n")
t('post-processing result', rep("    return result", "    result.pop('x', None)\n    return result"), expect_ok=False)
t('try in merged_data', rep("    result.update(user_config.get(key, empty))", "    try:\n        result.update(user_config.get(key, empty))\n    except Exception:\n        pass"), expect_ok=False)
t('guard mismatch', rep("if key in type_override: result.update(type_override[key])","if key in type_override: result.update(syntax_override[key])"), expect_ok=False)
t('init: reorder slots', rep("        self.variables = merged_data(syntax_type, syntax, 'variables', user_config, global_config)\n        self.snippets = merged_data(syntax_type, syntax, 'snippets', user_config, global_config)\n","        self.snippets = merged_data(syntax_type, syntax, 'snippets', user_config, global_config)\n        self.variables = merged_data(syntax_type, syntax, 'variables', user_config, global_config)\n"))
t('init: wrong section', rep("merged_data(syntax_type, syntax, 'snippets', user_config","merged_data(syntax_type, syntax, 'options', user_config"), expect_ok=False)
t('init: swapped configs', rep("'options', user_config, global_config)","'options', global_config, user_config)"), expect_ok=False)
t('init: if statement', rep("        self.cache = user_config.get('cache')","        if syntax == 'x':\n            self.options = {}\n        self.cache = user_config.get('cache')"), expect_ok=False)
t('expand: unconditional', i=isrc.replace("    if isinstance(config, Config):\n        resolved_config = config\n    else:\n        resolved_config = Config(config, global_config)\n","    resolved_config = Config(config, global_config)\n"))
t('expand: drops global', i=isrc.replace("Config(config, global_config)","Config(config)"), expect_ok=False)
t('expand: other condition', i=isrc.replace("if isinstance(config, Config):","if config:"), expect_ok=False)
t('expand: rebinding', i=isrc.replace("    if resolved_config.type == 'stylesheet':","    resolved_config = Config()\n    if resolved_config.type == 'stylesheet':"), expect_ok=False)
t('expand: rebinding2', i=isrc.replace("    if resolved_config.type == 'stylesheet':","    resolved_config = config\n    if resolved_config.type == 'stylesheet':"), expect_ok=False)
