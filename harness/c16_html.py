"""C16, HTML half -- scanner, matchers, balance functions and attribute parser are
total and report only well-formed ranges.  `run_html(ctx)` / `replay_html(ctx, obj)`
are called from harness/props/c16.py."""
import glob
import json
import os

import html_gen
import html_util as hu
from common import VERIF

FUNCS = ('match', 'outward', 'inward')
SEEDS = ['', '<', '<a', '<a>', '</a>', '<a/>', '<a b="\\', '<a b=\'', '<a {', '<?', '<? "\\', '<!--', '<![CDATA[', '<a b="c">',
         '<a></a>', '<b><a></a>', '<a><b></a>', '</a><a>', '<a b=\\>', '<a \\', '<a b={\\', '<a b={"\\', '<a b=<>',
         '<script>', '<script></script>', '<script type=', '<script type="', '<script type="">x</script>',
         '<script type>x</script>', '<script type=">x</script>', '<style><a></style>', '<br>', '<br/>', '<br></br>',
         '<a b=">">', '<a <b>>', '<a\xa0b>', '<a b=c/>', '<a b=c/', '<a/ >', '<a//>', '< a>', '</ a>', '<a ></a >',
         '<é>', '<a:b.c-d_e>', '<a *b #c [d] (e) {f}>', '<a "', "<a '", '<a "b">', '<a b= "c">', '<a b="c"d="e">']


def string_jobs(s, oname):
    ps = list(range(-1, len(s) + 2))
    return [('scan', s, oname, None)] + [(k, s, oname, ps) for k in FUNCS], ps


def check_string(s, oname, results, ps):
    """C16 oracle for one string: None or (position-or-None, description)."""
    sc, m, o, inw = results
    bad = hu.events_problem(s, sc)
    if bad:
        return (None, bad)
    for j, p in enumerate(ps):
        bad = hu.wf_problem(s, p, m[j], o[j], inw[j])
        if bad:
            return (p, bad)
    return None


def check_attrs(s, name, res):
    return hu.attributes_problem(s, res)


def inputs(ctx):
    """(string, option-set name, source label) in the order: corpus, seeds, exhaustive, random, mutated."""
    quick = ctx.tier == 'quick'
    rng = ctx.rng
    out = []
    for path in sorted(glob.glob(os.path.join(VERIF, 'corpus', 'C16', 'html*.json'))):
        with open(path) as f:
            obj = json.load(f)
        for s in obj.get('inputs', [obj.get('input')] if 'input' in obj else []):
            for on in ('html', 'ab'):
                out.append((s, on, 'corpus'))
    for s in SEEDS:
        for on in ('html', 'xml', 'ab', 'nospecial'):
            out.append((s, on, 'seed'))
    n_ex = 3 if quick else 4
    for s in html_gen.short_strings(n_ex):
        out.append((s, 'html', 'exhaustive'))
        out.append((s, 'ab', 'exhaustive'))
    if not quick:
        for s in html_gen.short_strings(3):
            out.append((s, 'ab-xml', 'exhaustive'))
    n_rand = 2500 if quick else 60000
    for i in range(n_rand):
        on = ('html', 'ab', 'ab-xml', 'xml', 'nospecial')[i % 5]
        out.append((html_gen.gen_malformed(rng, 12 if i % 2 else 60), on, 'random'))
    n_mut = 250 if quick else 4000
    for i in range(n_mut):
        d = html_gen.gen_document(rng, xml=(i % 4 == 3), max_nodes=12)
        out.append((html_gen.mutate(rng, d.text), 'xml' if d.xml else 'html', 'mutated'))
    return out


def run_html(ctx):
    ok = ctx.build(['props/C16Html.vo', 'run/HtmlRun.vo'])
    if ok:
        ctx.obligations('props/C16Html.v')
    model = ctx.model('html') if ok else None
    quick = ctx.tier == 'quick'
    ctx.cov['rule'] = ctx.cov.get('rule', '') + (
        ' HTML: corpus + seed strings + ALL strings up to length %d over the %d-character alphabet %r (option sets: '
        'default, and a set whose special/void names are `a`,`b`,`ab` so that short strings reach those paths) + random '
        'strings / fragment mixes + mutations (delete, insert, replace, truncate, duplicate) of generated valid '
        'documents up to 400 characters; every position -1..len+1; attributes() on every string with and without a tag '
        'name. A case = one (string, options, position); non-trivial when the scanner reports at least one tag; distinct by '
        '(string, options).') % (3 if quick else 4, len(html_gen.ALPHABET), ''.join(html_gen.ALPHABET))
    ins = inputs(ctx)
    jobs = []
    meta = []
    for s, on, label in ins:
        js, ps = string_jobs(s, on)
        jobs += js
        meta.append(ps)
    res = hu.run_impl(jobs)
    n_fail = 0
    for i, (s, on, label) in enumerate(ins):
        r = res[4 * i:4 * i + 4]
        ps = meta[i]
        ctx.count_eval(len(ps))
        ctx.cover('html:source:' + label)
        evs = r[0][0]
        if evs:
            ctx.nontrivial(('h', s, on))
            ctx.cover('html:strings-with-tags')
        if isinstance(r[2], list) and any(isinstance(x, list) and len(x) >= 2 for x in r[2]):
            ctx.cover('html:nested-outward')
        fail = check_string(s, on, r, ps)
        if fail:
            n_fail += 1
            p, what = fail
            ctx.property_failure('c16-html:%s:%s@%s' % (on, s, p), 'html_matcher on %r (options %s) at %s: %s' % (s[:200], on, p, what),
                                 {'component': 'c16-html', 'input': s, 'opts': on, 'pos': p, 'why': what})
    # attribute parser on the same strings (fragment form, and tag form with a name)
    seen = set()
    ajobs = []
    for s, on, label in ins:
        if s in seen:
            continue
        seen.add(s)
        ajobs.append(('attrs', s, None, None))
        ajobs.append(('attrs', s, 'a', None))
        if len(s) % 3 == 0:
            ajobs.append(('attrs', s, 'ab', None))
    ares = hu.run_impl(ajobs)
    for job, r in zip(ajobs, ares):
        ctx.count_eval()
        if isinstance(r, list) and r:
            ctx.cover('html:attributes-nonempty')
            if any(a[3] is not None for a in r):
                ctx.cover('html:attributes-with-value')
        bad = check_attrs(job[1], job[2], r)
        if bad:
            n_fail += 1
            ctx.property_failure('c16-html-attrs:%s:%s' % (job[2], job[1]), 'attributes(%r, %r): %s' % (job[1][:200], job[2], bad),
                                 {'component': 'c16-html-attrs', 'input': job[1], 'name': job[2], 'why': bad})
    for s, on, label in ins[len(SEEDS) * 4 + 2000:len(SEEDS) * 4 + 2003]:
        ctx.sample({'input': s, 'opts': on, 'source': label})
    dis = hu.correspond(ctx, model, jobs, res, 'html_matcher_any_string')
    dis += hu.correspond(ctx, model, ajobs, ares, 'html_attributes_any_string')
    if dis and not n_fail:
        job, i, a, b = dis[0]
        ctx.broken.append({'kind': 'correspondence', 'file': 'html-matcher:' + job[0], 'input': job[1][:400],
                           'opts': job[2], 'pos': None if i is None else job[3][i], 'impl': repr(a)[:300], 'model': repr(b)[:300]})


def replay_html(ctx, obj):
    rp = obj.get('replay', {})
    comp = rp.get('component')
    if comp == 'c16-html':
        s, on = rp['input'], rp['opts']
        js, ps = string_jobs(s, on)
        fail = check_string(s, on, hu.run_impl(js), ps)
        print('input %r options %s -> %s' % (s, on, 'position %s: %s' % fail if fail else 'property holds'))
        return 1 if fail else 0
    if comp == 'c16-html-attrs':
        s, name = rp['input'], rp.get('name')
        bad = check_attrs(s, name, hu.impl_attributes(s, name))
        print('attributes(%r, %r) -> %s' % (s, name, bad or 'property holds'))
        return 1 if bad else 0
    return None
