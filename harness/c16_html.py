"""C16, HTML half -- scanner, matchers, balance functions and attribute parser are
total and report only well-formed ranges.  `run_html(ctx)` / `replay_html(ctx, obj)`
are called from harness/props/c16.py."""
import copy
import glob
import hashlib
import json
import os
import sys

import c16_gen
import c16_space
import html_gen
import html_util as hu
from common import VERIF

# The statement says "return without raising" for the library as a user gets it: the implementation runs under
# CPython's default recursion limit (the ./check driver raises its own limit to 10000 for the harness).
USER_RECURSION_LIMIT = 1000
# scale documents whose attribute part is the large thing: attributes() is run on these too (on the other scale
# documents it is quadratic in the number of unclosed `<`, which is a matter of speed, not of C16)
# scale families on which the extracted model is too slow for match() (its attribute list handling is quadratic in the
# length of the tag); there match() goes through the oracle only.  attributes() with a tag name likewise (all scale).
MODEL_SLOW_MATCH = ('scale:many-attributes', 'scale:long-values-and-text', 'scale:deep-brackets')
ATTR_SCALE = ('scale:many-attributes', 'scale:long-values-and-text', 'scale:deep-brackets', 'scale:nested-chain',
              'scale:wrapped-document')


class user_limit:
    """run the implementation under the interpreter's default recursion limit"""

    def __enter__(self):
        self.old = sys.getrecursionlimit()
        sys.setrecursionlimit(USER_RECURSION_LIMIT)

    def __exit__(self, *a):
        sys.setrecursionlimit(self.old)
        return False


def run_impl(jobs):
    with user_limit():          # worker processes are forked inside and inherit the limit
        return hu.run_impl(jobs)


def short_key(s):
    return s if len(s) <= 400 else '%s...[%d chars, sha1 %s]' % (s[:60], len(s), hashlib.sha1(s.encode('utf-8', 'replace')).hexdigest()[:12])

FUNCS = ('match', 'outward', 'inward')
SEEDS = ['', '<', '<a', '<a>', '</a>', '<a/>', '<a b="\\', '<a b=\'', '<a {', '<?', '<? "\\', '<!--', '<![CDATA[', '<a b="c">',
         '<a></a>', '<b><a></a>', '<a><b></a>', '</a><a>', '<a b=\\>', '<a \\', '<a b={\\', '<a b={"\\', '<a b=<>',
         '<script>', '<script></script>', '<script type=', '<script type="', '<script type="">x</script>',
         '<script type>x</script>', '<script type=">x</script>', '<style><a></style>', '<br>', '<br/>', '<br></br>',
         '<a b=">">', '<a <b>>', '<a\xa0b>', '<a b=c/>', '<a b=c/', '<a/ >', '<a//>', '< a>', '</ a>', '<a ></a >',
         '<é>', '<a:b.c-d_e>', '<a *b #c [d] (e) {f}>', '<a "', "<a '", '<a "b">', '<a b= "c">', '<a b="c"d="e">']


def string_jobs(s, oname, ps=None):
    """scan + match / outward / inward at the given positions (default: every position -1..len+1)"""
    ps = list(range(-1, len(s) + 2)) if ps is None else list(ps)
    return [('scan', s, oname, None)] + [(k, s, oname, ps) for k in FUNCS], ps


def check_string(s, oname, results, ps):
    """C16 oracle for one string: None or (position-or-None, description)."""
    sc, m, o, inw = results
    bad = hu.events_problem(s, sc)
    if bad:
        return (None, bad)
    for j, p in enumerate(ps):
        bad = hu.wf_problem(s, p, m[j], o[j], inw[j])
        if bad:
            return (p, bad)
    return None


def check_attrs(s, name, res):
    return hu.attributes_problem(s, res)


def inputs(ctx):
    """(string, option-set name, source label, positions or None = all) in the order: corpus, seeds, exhaustive,
    letter-case seeds / token sequences, random, mutated, scale."""
    return [t if len(t) == 4 else t + (None,) for t in _inputs(ctx)]


def _inputs(ctx):
    quick = ctx.tier == 'quick'
    rng = ctx.rng
    out = []
    for path in sorted(glob.glob(os.path.join(VERIF, 'corpus', 'C16', 'html*.json'))):
        with open(path) as f:
            obj = json.load(f)
        for s in obj.get('inputs', [obj.get('input')] if 'input' in obj else []):
            for on in ('html', 'ab'):
                out.append((s, on, 'corpus'))
    for s in SEEDS:
        for on in ('html', 'xml', 'ab', 'nospecial'):
            out.append((s, on, 'seed'))
    n_ex = 3 if quick else 4
    for s in html_gen.short_strings(n_ex):
        out.append((s, 'html', 'exhaustive'))
        out.append((s, 'ab', 'exhaustive'))
    if not quick:
        for s in html_gen.short_strings(3):
            out.append((s, 'ab-xml', 'exhaustive'))
    # letters and case: hand-written strings, then ALL sequences of up to 3 (thorough: 4) tokens over small alphabets of
    # lower / upper / mixed case open and close tags of special, void and ordinary names
    for s in c16_gen.CASE_SEEDS:
        for on in ('html', 'xml', 'ab'):
            out.append((s, on, 'case-seed'))
    for on, toks in c16_gen.CASE_TOKENS:
        for s in c16_gen.case_token_strings(toks, 3 if quick else 4):
            out.append((s, on, 'case-token-sequences'))
    if SPACE:
        # white space of every kind in every place of a tag / a small document where a blank can stand
        for i, s in enumerate(c16_space.html_space_shapes()):
            out.append((s, ('html', 'ab')[i % 2], 'space-shapes'))
        for i in range(120 if quick else 3000):
            d = html_gen.gen_document(rng, xml=(i % 4 == 3), max_nodes=8)
            s = c16_space.space_mutate(rng, d.text[:300], delims='<>="\'/')
            out.append((html_gen.mutate(rng, s) if i % 3 == 0 else s, 'xml' if d.xml else 'html', 'space-mutated'))
    n_rand = 2500 if quick else 60000
    for i in range(n_rand):
        on = ('html', 'ab', 'ab-xml', 'xml', 'nospecial')[i % 5]
        gen = c16_gen.gen_malformed if i % 4 < 2 else html_gen.gen_malformed      # half over the alphabets with upper case
        out.append((gen(rng, 12 if i % 2 else 60), on, 'random'))
    n_mut = 250 if quick else 4000
    for i in range(n_mut):
        d = html_gen.gen_document(rng, xml=(i % 4 == 3), max_nodes=12)
        on = 'xml' if d.xml else 'html'
        if i % 5 == 0:
            out.append((c16_gen.case_mutate(rng, d.text[:400]), on, 'case-mutated'))      # valid but for letter case
        elif i % 5 == 1:
            out.append((html_gen.mutate(rng, c16_gen.case_mutate(rng, d.text)), on, 'mutated'))
        else:
            out.append((html_gen.mutate(rng, d.text), on, 'mutated'))
    if SCALE:
        out.extend(c16_gen.scale_documents(rng, quick))
    return out


SPACE = True      # white space of every kind (c16_space) in every place of a tag
SCALE = True      # documents with depth / counts / token lengths in the thousands (sampled positions)


def run_html(ctx):
    ok = ctx.build(['props/C16Html.vo', 'run/HtmlRun.vo'])
    if ok:
        ctx.obligations('props/C16Html.v')
    model = ctx.model('html') if ok else None
    quick = ctx.tier == 'quick'
    ctx.cov['rule'] = ctx.cov.get('rule', '') + (
        ' HTML: corpus + seed strings + ALL strings up to length %d over the %d-character alphabet %r (option sets: '
        'default, and a set whose special/void names are `a`,`b`,`ab` so that short strings reach those paths) + random '
        'strings / fragment mixes + mutations (delete, insert, replace, truncate, duplicate) of generated valid '
        'documents up to 400 characters; every position -1..len+1; attributes() on every string with and without a tag '
        'name. LETTERS AND CASE: %d hand-written strings with upper / mixed case and letters with unusual case mappings '
        '(U+0130, U+00DF, U+017F, U+01C5) in open tags, close tags, special (script/style) and void names, the `type` '
        'attribute and its value, CDATA / doctype keywords, open and close tag in DIFFERENT case; ALL sequences of up to %d '
        'tokens over %s; half of the random strings over the alphabet / fragment list extended with upper case; two fifths '
        'of the generated documents get the case of 1..4 tag names or letter runs changed (one fifth otherwise left '
        'valid). WHITE SPACE OF EVERY KIND (%s): %d tag / document shapes (after the tag name, between attributes, around `=`, '
        'inside quoted / unquoted / bracketed values, before `/>` and `>`, inside close tags, comments, CDATA, processing '
        'instructions, half-typed tags, the `type` attribute of special elements) with every slot filled by every one of the '
        '%d characters of c16_space.SPACES (Unicode White_Space, str.isspace(), U+200B U+2060 U+FEFF; 8 representatives '
        'alone, doubled and next to ASCII blanks, the others in one form each); generated documents in which runs of blanks '
        'are replaced, runs inserted next to delimiters, attribute values / contents replaced by a drawn run (a third '
        'mutated further). SCALE (%s): %d document families (nested chain of first children, the same with siblings, unclosed / '
        'partly closed / misnested chain, stray close tags, many siblings, many void siblings, many attributes, long values '
        'and text, brackets nested in an attribute, long comment/CDATA/PI sections, unclosed comment, long special-element '
        'body closed and unclosed, a generated document wrapped in a deep stack and the same cut off) with depth / count '
        '/ length drawn from %s (+0..49), positions sampled (-1..2, the middle, len-2..len+1, end of the first and start '
        'of the last tag, 3 random); they go through the extracted model as well, except match() on the three attribute families and attributes() with a tag name (model too slow there: oracle only). The implementation runs under CPython\'s '
        'default recursion limit %d, not the 10000 of the check driver. A case = one (string, options, position); '
        'non-trivial when the scanner reports at least one tag; distinct by (string, options).') % (
            3 if quick else 4, len(html_gen.ALPHABET), ''.join(html_gen.ALPHABET), len(c16_gen.CASE_SEEDS), 3 if quick else 4,
            ' and '.join('%s (options %s)' % (' '.join(t), on) for on, t in c16_gen.CASE_TOKENS),
            'on' if SPACE else 'OFF', len(c16_space.HTML_SHAPES), len(c16_space.SPACES),
            'on' if SCALE else 'OFF', 17, '1100/1500/2100' if quick else '1100/1500/2100/5000', USER_RECURSION_LIMIT)
    ins = inputs(ctx)
    jobs = []
    meta = []
    for s, on, label, ps0 in ins:
        js, ps = string_jobs(s, on, ps0)
        jobs += js
        meta.append(ps)
    n_small = 4 * sum(1 for t in ins if t[3] is None)
    assert all(t[3] is None for t in ins[:n_small // 4]) and all(t[3] is not None for t in ins[n_small // 4:])
    res = run_impl(jobs[:n_small]) + run_impl(jobs[n_small:])      # the few large documents spread over the workers
    n_fail = 0
    for i, (s, on, label, ps0) in enumerate(ins):
        r = res[4 * i:4 * i + 4]
        ps = meta[i]
        ctx.count_eval(len(ps))
        ctx.cover('html:source:' + label)
        evs = r[0][0]
        if evs:
            ctx.nontrivial(('h', s, on))
            ctx.cover('html:strings-with-tags')
            if any(n != n.lower() for n, _, _, _ in evs):
                ctx.cover('html:tag-name-with-upper-case')
            if len(evs) >= 1000:
                ctx.cover('html:1000-or-more-tags')
        if isinstance(r[2], list) and any(isinstance(x, list) and len(x) >= 2 for x in r[2]):
            ctx.cover('html:nested-outward')
        if isinstance(r[3], list) and any(isinstance(x, list) and len(x) >= 1000 for x in r[3]):
            ctx.cover('html:inward-chain-1000-or-more')
        if isinstance(r[2], list) and any(isinstance(x, list) and len(x) >= 1000 for x in r[2]):
            ctx.cover('html:outward-chain-1000-or-more')
        fail = check_string(s, on, r, ps)
        if fail:
            # a failure is reported only when it shows again on a second evaluation of the same string (a stalled
            # machine can make the per-call time limit of html_util fire once; a real failure repeats)
            js, _ = string_jobs(s, on, ps)
            fail = check_string(s, on, run_impl(js), ps)
            if not fail:
                ctx.cover('html:unrepeatable-failure-discarded')
        if fail:
            n_fail += 1
            p, what = fail
            rp = {'component': 'c16-html', 'input': s, 'opts': on, 'pos': p, 'why': what}
            if ps0 is not None:
                rp['positions'] = ps
            ctx.property_failure('c16-html:%s:%s@%s' % (on, short_key(s), p),
                                 'html_matcher on %r (options %s) at %s: %s' % (s[:200], on, p, what), rp)
    # attribute parser on the same strings (fragment form, and tag form with a name)
    seen = set()
    ajobs = []
    for s, on, label, ps0 in ins:
        if s in seen or (ps0 is not None and label not in ATTR_SCALE):
            continue
        seen.add(s)
        ajobs.append(('attrs', s, None, None))
        ajobs.append(('attrs', s, 'a', None))
        if len(s) % 3 == 0:
            ajobs.append(('attrs', s, 'ab', None))
    ares = run_impl(ajobs)
    for job, r in zip(ajobs, ares):
        ctx.count_eval()
        if isinstance(r, list) and r:
            ctx.cover('html:attributes-nonempty')
            if any(a[3] is not None for a in r):
                ctx.cover('html:attributes-with-value')
            if len(r) >= 1000:
                ctx.cover('html:1000-or-more-attributes')
        bad = check_attrs(job[1], job[2], r)
        if bad:
            bad = check_attrs(job[1], job[2], run_impl([job])[0])
        if bad:
            n_fail += 1
            ctx.property_failure('c16-html-attrs:%s:%s' % (job[2], short_key(job[1])), 'attributes(%r, %r): %s' % (job[1][:200], job[2], bad),
                                 {'component': 'c16-html-attrs', 'input': job[1], 'name': job[2], 'why': bad})
    k = len(SEEDS) * 4 + 2000
    for s, on, label, ps0 in ins[k:k + 3]:
        ctx.sample({'input': s, 'opts': on, 'source': label})
    for wanted in ('case-token-sequences', 'case-mutated', 'scale:nested-chain'):
        for s, on, label, ps0 in ins:
            if label == wanted and len(s) > 12:
                ctx.sample({'input': s if len(s) <= 300 else s[:120] + '...(%d characters)' % len(s), 'opts': on, 'source': label})
                break
    big = set(s for s, on, label, ps0 in ins if ps0 is not None)
    slow = set(s for s, on, label, ps0 in ins if label in MODEL_SLOW_MATCH)
    keep = [k for k, j in enumerate(jobs) if not (j[0] == 'match' and j[1] in slow)]
    dis = hu.correspond(ctx, model, [jobs[k] for k in keep], [res[k] for k in keep], 'html_matcher_any_string')
    keep = [k for k, j in enumerate(ajobs) if not (j[2] is not None and j[1] in big)]
    dis += hu.correspond(ctx, model, [ajobs[k] for k in keep], [ares[k] for k in keep], 'html_attributes_any_string')
    if dis and not n_fail:
        job, i, a, b = dis[0]
        ctx.broken.append({'kind': 'correspondence', 'file': 'html-matcher:' + job[0], 'input': job[1][:400],
                           'opts': job[2], 'pos': None if i is None else job[3][i], 'impl': repr(a)[:300], 'model': repr(b)[:300]})


def exception_name(s, pos, on):
    """for the replay report only: which exception the three functions raise at this position"""
    from emmet.html_matcher import match, balanced_outward, balanced_inward
    out = []
    with user_limit():
        for f in (match, balanced_outward, balanced_inward):
            try:
                f(s, pos, copy.deepcopy(hu.OPT_SETS[on]))
            except Exception as e:  # noqa: BLE001
                out.append('%s: %s' % (f.__name__, type(e).__name__))
    return ', '.join(out) or 'none this time'


def replay_html(ctx, obj):
    rp = obj.get('replay', {})
    comp = rp.get('component')
    if comp == 'c16-html':
        s, on = rp['input'], rp['opts']
        js, ps = string_jobs(s, on, rp.get('positions'))
        fail = check_string(s, on, run_impl(js), ps)
        shown = repr(s) if len(s) <= 400 else repr(s[:120]) + '...(%d characters)' % len(s)
        print('input %s options %s -> %s' % (shown, on, 'position %s: %s' % fail if fail else 'property holds'))
        if fail and fail[0] is not None and 'raised' in fail[1]:
            print('  the exception: %s' % exception_name(s, fail[0], on))
        return 1 if fail else 0
    if comp == 'c16-html-attrs':
        s, name = rp['input'], rp.get('name')
        bad = check_attrs(s, name, run_impl([('attrs', s, name, None)])[0])
        shown = repr(s) if len(s) <= 400 else repr(s[:120]) + '...(%d characters)' % len(s)
        print('attributes(%s, %r) -> %s' % (shown, name, bad or 'property holds'))
        return 1 if bad else 0
    return None
