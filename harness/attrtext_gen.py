"""Character-level streams for C03_element_attributes_text / C03_statement_attributes_text /
C04_attr_value_literal (coq/proofs/AttrText*.v).

The theorems are stated over a written grammar (selem / spart / sattr / sval) and a SPEC function
`written_mentions`.  This file restates both in Python -- the grammar as a random generator over the whole
alphabets the theorems allow, the SPEC as `mentions_of` -- and checks the theorems' conclusion directly on the
implementation: emmet.abbreviation.parse (tokenize + parse + convert, attributes BEFORE merging) must return
exactly the node(s) the SPEC gives.  The same texts go through the extracted model (coq/run/TextRun.v,
`parse_abbr`), which the theorems speak about.  Nothing here imports parser/convert code of the implementation.

Element  := name part* text? '/'?  part := '#'+ word | '.'+ word | '[' ws* attr (ws+ attr)* ws* ']'      text := '{' e '}'
attr     := '!'? aname '.'? value  value := '' | '=' | '='unq | "='" q "'" | '="' q '"' | '={' e '}'
"""
import json
import os

import text_tree

HERE = os.path.dirname(os.path.abspath(__file__))
VERIF = os.path.dirname(HERE)

LETTERS = 'abcdefghijklmnopqrstuvwxyzABCDEFGHIJKLMNOPQRSTUVWXYZ'
DIGITS = '0123456789'
NAME_CH = LETTERS + DIGITS + '_-:!' + '٣'              # is_element_name: decimal digits (any script), letters, _ - : !
SPACES = ' \t\xa0\n\r'
A_BREAK = '=' + SPACES + '"\'' + '()[]{}'
ASCII = ''.join(chr(c) for c in range(33, 127))
UNI = 'é中 \x0c\x85٣✓'
# unquoted-safe alphabet inside [ ]: everything but  \ $ = white space quotes brackets
ASAFE = ''.join(c for c in ASCII + UNI if c not in A_BREAK + '\\$')
ANY = ASCII + UNI + SPACES


def rword(rng, alphabet, lo, hi):
    return ''.join(rng.choice(alphabet) for _ in range(rng.randint(lo, hi)))


# ---------------------------------------------------------------- the written grammar (random)
def rand_unq(rng):
    """Non-empty run over ASAFE with parentheses that balance."""
    out = []
    depth = 0
    n = rng.choice([1, 1, 2, 3, 4, 6, 9])
    with_parens = rng.random() < 0.45
    while len(out) < n or depth > 0:
        k = rng.random()
        if with_parens and k < 0.2 and len(out) < n + 4:
            out.append('(')
            depth += 1
        elif with_parens and k < 0.45 and depth > 0:
            out.append(')')
            depth -= 1
        else:
            if len(out) >= n + 4 and depth > 0:
                out.append(')')
                depth -= 1
            else:
                out.append(rng.choice(ASAFE if rng.random() < 0.7 else LETTERS))
    return ''.join(out)


def rand_quoted(rng, q):
    """(written payload, value): any text; the quote, `$` and `\\` only escaped."""
    n = rng.choice([0, 0, 1, 2, 3, 5, 8, 12])
    w, v = [], []
    for _ in range(n):
        c = rng.choice(ANY) if rng.random() < 0.6 else rng.choice('{}[]()<>*+^.#=/\'" \\$' + LETTERS[:3])
        if c in '\\$' or c == q:
            w.append('\\' + c)
        elif rng.random() < 0.05:
            w.append('\\' + c)          # a needless escape: the backslash goes, the character stays
        else:
            w.append(c)
        v.append(c)
    return ''.join(w), ''.join(v)


def rand_braced(rng):
    """(written payload, value): braces balanced modulo escapes, `$` and `\\` escaped."""
    n = rng.choice([0, 0, 1, 2, 3, 5, 8, 12])
    w, v = [], []
    depth = 0
    for _ in range(n):
        c = rng.choice(ANY) if rng.random() < 0.55 else rng.choice('{}{}[]()*+^.#=/\'" \\$' + LETTERS[:3])
        if c == '{' and rng.random() < 0.7:
            depth += 1
            w.append(c)
        elif c == '}' and depth > 0 and rng.random() < 0.8:
            depth -= 1
            w.append(c)
        elif c in '\\${}':
            w.append('\\' + c)
        else:
            w.append(c)
        v.append(c)
    w.append('}' * depth)
    v.append('}' * depth)
    return ''.join(w), ''.join(v)


def rand_attr(rng):
    """{'implied','name','boolean','kind','written','value'}"""
    while True:
        implied = rng.random() < 0.2
        boolean = rng.random() < 0.2
        name = rword(rng, ASAFE if rng.random() < 0.4 else LETTERS + DIGITS + '-_:.@*', 0 if (implied or boolean) and rng.random() < 0.1 else 1, 5)
        wname = ('!' if implied else '') + name + ('.' if boolean else '')
        if not wname:
            continue
        if not boolean and wname.endswith('.'):
            continue
        if not implied and name.startswith('!'):
            continue
        break
    k = rng.random()
    a = {'implied': implied, 'name': name, 'boolean': boolean}
    if k < 0.15:
        a.update(kind='none', written='', value=None, vt=0)
    elif k < 0.25:
        a.update(kind='empty', written='=', value=None, vt=0)
    elif k < 0.5:
        v = rand_unq(rng)
        a.update(kind='unq', written='=' + v, value=v, vt=0)
    elif k < 0.8:
        single = rng.random() < 0.5
        q = "'" if single else '"'
        w, v = rand_quoted(rng, q)
        a.update(kind='q1' if single else 'q2', written='=' + q + w + q, value=v, vt=1 if single else 2)
    else:
        w, v = rand_braced(rng)
        a.update(kind='expr', written='={' + w + '}', value=v, vt=3)
    a['text'] = wname + a['written']
    return a


def rand_elem(rng, jsx=False, nparts=None):
    while True:
        name = rword(rng, NAME_CH if rng.random() < 0.3 else LETTERS + DIGITS, 1, 4)
        if jsx and 'A' <= name[0] <= 'Z':
            continue
        break
    parts = []
    n = rng.choice([0, 1, 1, 2, 2, 3, 4, 6]) if nparts is None else nparts
    for _ in range(n):
        k = rng.random()
        dup = rng.choice([1, 1, 1, 1, 2, 2, 3])         # `..x`: the operator repeated = a "multiple" mention
        # (a multiple mention may be rewritten by markup.valuePrefix -- jsx `styles.x` / `styles['x']` by a \w test that the
        # independent statement in attr_util makes over ASCII: keep those values ASCII)
        wide = rng.random() < 0.3 and dup == 1
        if k < 0.25:
            parts.append(('id', rword(rng, NAME_CH if wide else LETTERS + DIGITS + '-_', 1, 4), dup))
        elif k < 0.55:
            parts.append(('class', rword(rng, NAME_CH if wide else LETTERS + DIGITS + '-_', 1, 4), dup))
        else:
            attrs = [rand_attr(rng) for _ in range(rng.choice([0, 1, 1, 2, 3, 5]))]
            parts.append(('set', attrs, rand_seps(rng, len(attrs))))
    text = rand_braced(rng) if rng.random() < 0.35 else None          # (written, value)
    return {'name': name, 'parts': parts, 'text': text, 'close': rng.random() < 0.2}


def rand_seps(rng, n):
    """White space written after `[` and after each of the n attributes: any run of blanks, tabs, nbsp, line breaks;
    at least one character between two attributes.  None = the usual single spaces."""
    if rng.random() < 0.6:
        return None

    def ws(lo):
        return ''.join(rng.choice(' \t \xa0  \n\r') for _ in range(rng.choice([lo, 1, 1, 2, 3])))
    return [ws(0)] + [ws(1) if k + 1 < n else ws(0) for k in range(n)]


def set_text(x, seps):
    if seps is None:
        return '[' + ' '.join(a['text'] for a in x) + ']'
    return '[' + seps[0] + ''.join(a['text'] + w for a, w in zip(x, seps[1:])) + ']'


def rand_text_elem(rng, jsx=False):
    """C04_text_with_attributes: an element with plainly named attributes and ALWAYS a text {T}."""
    e = rand_elem(rng, jsx)
    parts = []
    for part in e['parts']:
        kind, x = part[0], part[1]
        if kind == 'set':
            part = (kind, [a for a in x if not a['implied'] and not a['boolean'] and a['name']], None)
        parts.append(part)
    e['parts'] = parts
    e['text'] = rand_braced(rng)
    return e


def elem_text(e):
    out = [e['name']]
    for part in e['parts']:
        kind, x = part[0], part[1]
        dup = part[2] if len(part) > 2 else 1
        if kind == 'id':
            out.append('#' * dup + x)
        elif kind == 'class':
            out.append('.' * dup + x)
        else:
            out.append(set_text(x, part[2] if len(part) > 2 else None))
    if e.get('text') is not None:
        out.append('{' + e['text'][0] + '}')
    if e.get('close'):
        out.append('/')
    return ''.join(out)


# ---------------------------------------------------------------- SPEC: the mentions a text denotes
def payload(v):
    return (('s', v),) if v else ()


def mentions_of(e):
    """written_mentions (AttrTextConvert.v): (name, value, value type, boolean, implied, multiple) per mention."""
    out = []
    for part in e['parts']:
        kind, x = part[0], part[1]
        if kind in ('id', 'class'):
            out.append((kind, (('s', x),), 0, False, False, len(part) > 2 and part[2] > 1))
            continue
        for a in x:
            if a['kind'] in ('none', 'empty'):
                val = None
            elif a['kind'] == 'unq':
                val = (('s', a['value']),)
            else:
                val = payload(a['value'])
            out.append((a['name'], val, a['vt'], a['boolean'], a['implied'], False))
    return tuple(out)


def node_of(e, kids=()):
    ms = mentions_of(e)
    value = None
    if e.get('text') is not None and e['text'][1]:
        value = (('s', e['text'][1]),)           # the payload with escapes resolved; nothing for `{}`
    return (e['name'], value, None, ms if ms else None, bool(e.get('close')), tuple(kids))


# ---------------------------------------------------------------- statements: e1 op1 e2 ... en
def rand_stmt(rng, jsx=False):
    n = rng.choice([2, 2, 3, 3, 4, 5, 7])
    xs = []
    for k in range(n):
        op = rng.choice(['>', '>', '+', '+', '^', '^^', '^^^'])
        xs.append((rand_elem(rng, jsx, nparts=rng.choice([0, 1, 1, 2, 3])), op))
    return xs


def stmt_text(xs):
    return ''.join(elem_text(e) + (op if k + 1 < len(xs) else '') for k, (e, op) in enumerate(xs))


def stmt_tree(xs):
    """The forest the operators denote: `>` one deeper, `+` same level, each `^` one up (stops at the top)."""
    depth = 0
    items = []
    for e, op in xs:
        items.append((depth, e))
        if op == '>':
            depth += 1
        elif op == '+':
            pass
        else:
            depth = max(0, depth - len(op))

    def build(i, d):
        nodes = []
        while i < len(items) and items[i][0] == d:
            kids, j = build(i + 1, d + 1)
            nodes.append(node_of(items[i][1], kids))
            i = j
        return nodes, i
    forest, _ = build(0, 0)
    return tuple(forest)


# ---------------------------------------------------------------- fixed seeds (run first)
def lit(name, *parts, text=None, close=False):
    return {'name': name, 'parts': list(parts), 'text': text, 'close': close}


def attr(name, kind, written, value, vt, implied=False, boolean=False):
    wname = ('!' if implied else '') + name + ('.' if boolean else '')
    return {'implied': implied, 'name': name, 'boolean': boolean, 'kind': kind, 'written': written, 'value': value, 'vt': vt,
            'text': wname + written}


SEEDS = [
    lit('a', ('set', [attr('b', 'unq', '=(c)', '(c)', 0)])),
    lit('a', ('set', [attr('on', 'unq', '=f(1)(2,(3))', 'f(1)(2,(3))', 0), attr('c', 'none', '', None, 0)])),
    lit('a', ('id', 'x'), ('class', 'y'),
        ('set', [attr('p', 'none', '', None, 0, True, True), attr('q', 'empty', '=', None, 0),
                 attr('r', 'unq', '=a*3/4>.#', 'a*3/4>.#', 0),
                 attr('s', 'q1', "='a \\' ] (c)'", "a ' ] (c)", 1, boolean=True),
                 attr('t', 'expr', '={ x{y} }', ' x{y} ', 3)]), ('class', 'z')),
    lit('x', ('set', [])),
    lit('x', ('set', [attr('', 'none', '', None, 0, boolean=True), attr('', 'none', '', None, 0, implied=True)])),
    lit('x', ('set', [attr('t', 'q2', '=""', '', 2), attr('u', 'expr', '={}', '', 3), attr('v', 'q2', '="*"', '*', 2)])),
    lit('x', ('set', [attr('t', 'q2', '=" x\ny\\$"', ' x\ny$', 2)])),
    lit('d-1:e!', ('class', 'a-b'), ('id', '_'), ('class', '9')),
    lit('p', ('class', 'c'), ('set', [attr('t', 'unq', '=1', '1', 0)]), text=('a>b*3 \\{x\\} (y)', 'a>b*3 {x} (y)')),
    lit('p', ('set', [attr('t', 'q2', '="]"', ']', 2)]), text=('', '')),
    lit('p', ('id', 'i'), text=(' [x] {y{z}} \\$ ', ' [x] {y{z}} $ ')),
    lit('x1', close=True),
    lit('x', ('class', 'm', 2), ('id', 'n', 3), ('class', 'k')),
    lit('x', ('set', [attr('a', 'unq', '=1', '1', 0), attr('b', 'none', '', None, 0), attr('c', 'q2', '="d"', 'd', 2)],
              ['\t ', '  ', '\xa0\n', ' '])),
    lit('x', ('set', [], ['  '])),
    lit('x', ('class', 'a1'), ('set', [attr('b', 'none', '', None, 0, boolean=True)]), close=True),
    lit('x', ('id', 'i'), text=('t', 't'), close=True),
]


# value forms only (C04_attr_value_literal / C04_group_bracket_attr): plainly written names
VALUE_SEEDS = [
    lit('a', ('set', [attr('b', 'unq', '=(c)', '(c)', 0)])),
    lit('a', ('set', [attr('on', 'unq', '=f(1)(2,(3))', 'f(1)(2,(3))', 0)])),
    lit('p', ('set', [attr('t', 'q2', '="x>y*3 [(z)] {\' +"', "x>y*3 [(z)] {' +", 2)])),
    lit('p', ('set', [attr('t', 'q1', "='a \\' ] (c)'", "a ' ] (c)", 1)])),
    lit('p', ('set', [attr('t', 'q2', '=" x\ny\\$"', ' x\ny$', 2)])),
    lit('p', ('set', [attr('t', 'expr', '={ x{y} \\} }', ' x{y} } ', 3)])),
    lit('p', ('set', [attr('t', 'q2', '=""', '', 2)])),
    lit('p', ('set', [attr('t', 'expr', '={}', '', 3)])),
    lit('p', ('set', [attr('t', 'unq', '=a*3/4>.#+^', 'a*3/4>.#+^', 0)])),
]


# ---------------------------------------------------------------- the tie
def to_json(t):
    if isinstance(t, tuple):
        return [to_json(x) for x in t]
    return t


def from_json(t):
    if isinstance(t, list):
        return tuple(from_json(x) for x in t)
    return t


def gen_cases(ctx, n_elem, n_stmt, n_value, n_textelem=0):
    rng = ctx.rng
    cases = []      # (kind, abbr, jsx, expected tree)
    d = os.path.join(VERIF, 'corpus', 'C03')
    if os.path.isdir(d):
        for fn in sorted(os.listdir(d)):
            if fn.endswith('.json'):
                with open(os.path.join(d, fn)) as f:
                    o = json.load(f)
                if o.get('mode') == 'text-tree':
                    cases.append(('corpus:' + fn, o['abbr'], bool(o.get('jsx')), from_json(o['expected'])))
    for e in SEEDS:
        for jsx in (False, True):
            cases.append(('seed', elem_text(e), jsx, (node_of(e),)))
    for _ in range(n_elem):
        jsx = rng.random() < 0.3
        e = rand_elem(rng, jsx)
        cases.append(('element', elem_text(e), jsx, (node_of(e),)))
    if n_value:
        for e in VALUE_SEEDS:
            for jsx in (False, True):
                cases.append(('value:seed', elem_text(e), jsx, (node_of(e),)))
    for _ in range(n_value):
        # C04_attr_value_literal: one attribute with a plainly written name, every value form, long payloads
        jsx = rng.random() < 0.2
        while True:
            a = rand_attr(rng)
            if not a['implied'] and not a['boolean'] and a['name']:
                break
        e = {'name': rword(rng, LETTERS.lower(), 1, 3), 'parts': [('set', [a])]}
        cases.append(('value:' + a['kind'], elem_text(e), jsx, (node_of(e),)))
    for _ in range(n_textelem):
        jsx = rng.random() < 0.2
        e = rand_text_elem(rng, jsx)
        cases.append(('textelem', elem_text(e), jsx, (node_of(e),)))
    for _ in range(n_stmt):
        jsx = rng.random() < 0.3
        xs = rand_stmt(rng, jsx)
        cases.append(('statement', stmt_text(xs), jsx, stmt_tree(xs)))
    return cases


def check(abbr, jsx, expected, text_only=False):
    """The property oracle on the implementation: None or a description of the failure.
    text_only (C04): only the node's name and its text value are claimed, not its attribute list."""
    t = text_tree.impl_tree(abbr, None, None, jsx)
    want = ('ok', expected)
    if text_only:
        ok = t[0] == 'ok' and len(t[1]) == len(expected) and all(g[:2] == e[:2] for g, e in zip(t[1], expected))
        if not ok:
            return 'abbreviation tree of %r (jsx=%r) is %r, the written text gives name/value %r' % (
                abbr, jsx, str(t)[:400], [e[:2] for e in expected]), t
        return None, t
    if t != want:
        return 'abbreviation tree of %r (jsx=%r) is %r, the written mentions give %r' % (abbr, jsx, str(t)[:400], str(want)[:400]), t
    return None, t


def run_stream(ctx, prop, n_elem, n_stmt, n_value, kinds=None, n_textelem=0):
    cases = gen_cases(ctx, n_elem, n_stmt, n_value, n_textelem)
    if kinds is not None:
        cases = [c for c in cases if c[0].split(':')[0] in kinds]
    tmodel = ctx.model('text')
    wires, impl = [], []
    for kind, abbr, jsx, exp in cases:
        why, t = check(abbr, jsx, exp, text_only=(kind == 'textelem'))
        impl.append(t)
        ctx.count_eval()
        ctx.cover('%stext:%s' % (prop, kind.split(':')[0] if kind.startswith('corpus') else kind))
        nm = sum(len(n[3] or ()) for n in exp)
        if nm >= 2:
            ctx.nontrivial(('text', abbr, jsx))
        if why:
            ctx.property_failure('%stext:%s|jsx=%s' % (prop, abbr, jsx), '%s text level: %s' % (prop, why),
                                 {'component': 'text-tree', 'abbr': abbr, 'jsx': jsx, 'expected': to_json(exp),
                                  'text_only': kind == 'textelem',
                                  'impl': repr(t)[:500], 'why': why})
        wires.append(text_tree.enc_case(abbr, None, None, jsx))
    dis = 0
    if tmodel is not None and wires:
        for (kind, abbr, jsx, exp), t, w in zip(cases, impl, tmodel.run(wires)):
            mo = text_tree.decode_tree(w)
            if mo != t:
                dis += 1
                if dis <= 5:
                    ctx.say('DISAGREE %s text-tree %r jsx=%r\n  impl  %r\n  model %r' % (prop, abbr, jsx, str(t)[:400], str(mo)[:400]))
                    ctx.broken.append({'kind': 'correspondence', 'file': 'text-tree-' + prop, 'input': abbr, 'jsx': jsx,
                                       'impl': repr(t)[:300], 'model': repr(mo)[:300]})
    ctx.cov['correspondence']['text_tree_%s' % prop] = {'cases': len(wires), 'disagreements': dis}
    return cases


def replay(rp):
    exp = from_json(rp['expected'])
    why, t = check(rp['abbr'], bool(rp.get('jsx')), exp, text_only=bool(rp.get('text_only')))
    print('emmet.abbreviation.parse(%r, jsx=%r) -> %r\nproperty oracle (written mentions): %s' % (rp['abbr'], rp.get('jsx'), t, why or 'holds'))
    return 1 if why else 0


# ---------------------------------------------------------------- whole pipeline (C03_expand_element_text)
EXPAND_CFGS = [
    {}, {'options': {'output.reverseAttributes': True}},
    {'syntax': 'xml', 'options': {'output.compactBoolean': True, 'output.attributeQuotes': 'single'}},
    {'syntax': 'vue', 'options': {'output.compactBoolean': True, 'output.booleanAttributes': ['b', 'class']}},
    {'options': {'output.selfClosingStyle': 'xhtml', 'output.format': False}},
    {'syntax': 'jsx', 'options': {'output.reverseAttributes': True}},
]


def au_mentions(e):
    """The written mentions in attr_util's form (input of its independent merge + output statement)."""
    import attr_util as au
    out = []
    for part in e['parts']:
        kind, x = part[0], part[1]
        if kind in ('id', 'class'):
            out.append(au.mention(kind, x, 'raw', multiple=len(part) > 2 and part[2] > 1, form=kind))
            continue
        for a in x:
            vt = {'none': 'raw', 'empty': 'raw', 'unq': 'raw', 'q1': 'q1', 'q2': 'q2', 'expr': 'expr'}[a['kind']]
            out.append(au.mention(a['name'], a['value'], vt, a['boolean'], a['implied']))
    return out


def expand_expected(e, cfg):
    """<name attr...></name>: merge rules + output decision table applied to the written mentions."""
    import copy
    import attr_util as au
    from emmet.config import Config
    opts = Config(copy.deepcopy(cfg)).options
    spec = au.element_spec(au_mentions(e), opts)
    text = e['text'][1] if e.get('text') is not None else ''
    return '<%s%s%s' % (e['name'], ''.join(au.render_attr(r) for r in spec), leaf_tail(e, text, '', opts))


def leaf_tail(e, text, kids, opts):
    """`>` text children `</name>`; a childless element marked `/` without text is closed by selfClosingStyle."""
    if e.get('close') and not text and not kids:
        style = opts.get('output.selfClosingStyle')
        return {'xhtml': ' />', 'xml': '/>'}.get(style, '>')
    return '>%s%s</%s>' % (text, kids, e['name'])


def run_expand_stream(ctx, prop, n, text_only=False):
    """Elements of the theorem's grammar through emmet.expand: oracle = the statement of
    C03_expand_element_text (merged mentions written by the output table), model = extracted expand."""
    import re
    from emmet.snippets import markup_snippets
    from markup_util import run_cases
    rng = ctx.rng
    cases = []
    for k in range(n):
        cfg = json.loads(json.dumps(EXPAND_CFGS[k % len(EXPAND_CFGS)]))
        jsx = cfg.get('syntax') == 'jsx'
        while True:
            if text_only:
                e = rand_text_elem(rng, jsx)
            else:
                e = rand_elem(rng, jsx) if k >= len(SEEDS) * 2 else json.loads(json.dumps(SEEDS[k // 2]))
            e['parts'] = [tuple(p) for p in e['parts']]
            if e.get('text') is not None and e['text'][1].startswith('<'):
                e['text'] = None          # text that starts with a block-level tag is laid out on its own lines (C12)
            if e['name'] in markup_snippets or e['name'].lower() in markup_snippets or re.match(r'(?i)lorem', e['name']):
                e['name'] = 'x' + e['name']
            if jsx and 'A' <= e['name'][0] <= 'Z':
                e['name'] = 'x' + e['name']
            text = elem_text(e)
            # statement domain: values free of line breaks (a line break inside a value is re-indented: C12)
            if any(c in text for c in '\r\n'):
                if k < len(SEEDS) * 2 and not text_only:
                    e = {'name': 'x', 'parts': [], 'text': None, 'close': False}
                    break
                continue
            break
        cases.append((elem_text(e), cfg, {'want': expand_expected(e, cfg), 'name': e['name'],
                                          'text': e['text'][1] if e.get('text') is not None else ''}))

    def oracle(abbr, cfg, meta, r):
        if text_only:
            # C04 speaks about the text only: it must stand, verbatim, between the open tag and the closing tag
            # (an empty text `{}` claims nothing: with the `/` mark the element is then written self-closed)
            ok = r[0] == 'ok' and r[1].startswith('<' + meta['name']) and \
                (not meta['text'] or r[1].endswith('>%s</%s>' % (meta['text'], meta['name'])))
            return None if ok else 'output %r, the written statement gives \u27eawant\u27eb%s' % (r, json.dumps(meta))
        if r != ('ok', meta['want']):
            return 'output %r, the written mentions give \u27eawant\u27eb%s' % (r, json.dumps(meta['want']))
        return None
    model = ctx.model('markup')
    run_cases(ctx, model, cases, prop + 'expand', oracle, mode='expand')
    for abbr, cfg, meta in cases:
        ctx.cover('%sexpand:%s' % (prop, cfg.get('syntax', 'html')))
    return cases


def replay_expand(rp):
    from markup_util import impl_expand
    r = impl_expand(rp['abbr'], rp['config'])
    why = rp.get('why', '')
    want = json.loads(why.rsplit('\u27eawant\u27eb', 1)[1])
    bad = not isinstance(want, dict) and r != ('ok', want)
    if isinstance(want, dict):
        # C04: only the text between the tags is claimed
        bad = not (r[0] == 'ok' and r[1].startswith('<' + want['name']) and
                   (not want['text'] or r[1].endswith('>%s</%s>' % (want['text'], want['name']))))
        want = want['want']
    print('expand(%r, %r) -> %r\nproperty oracle (merged mentions through the output table give %r): %s'
          % (rp['abbr'], rp['config'], r, want, 'FAILS' if bad else 'holds'))
    return 1 if bad else 0


# ---------------------------------------------------------------- statements through markup.parse (C03_statement_markup_parse)
STMT_CFGS = [{}, {'options': {'output.reverseAttributes': True}}, {'syntax': 'xml'}, {'syntax': 'jsx'},
             {'syntax': 'vue', 'options': {'output.reverseAttributes': True}}]
VTNUM = {'raw': 0, 'q1': 1, 'q2': 2, 'expr': 3}


def merged_attrs(e, reverse):
    """[(name, value tokens, value type, boolean, implied, multiple, exact)]: the merge rules of the statement
    (attr_util.merge_spec, an independent statement of them) applied to the written mentions of ONE element."""
    import attr_util as au
    out = []
    for a in au.merge_spec(au_mentions(e), reverse):
        v = a['value']
        out.append((a['name'], None if v is None else payload(v), VTNUM[a['vt']], bool(a['boolean']), bool(a['implied']),
                    bool(a['multiple']), bool(a.get('exact', True))))
    return out


def same_attrs(exp, got):
    if got is None:
        return not exp
    if len(exp) != len(got):
        return False
    for e, g in zip(exp, got):
        g = (g[0], None if g[1] is None else tuple(tuple(x) for x in g[1])) + tuple(g[2:])
        if e[6]:
            if tuple(e[:6]) != g:
                return False
        else:
            # an empty class mention among others: only the class words are claimed, not the spacing
            if (e[0],) + tuple(e[2:6]) != (g[0],) + tuple(g[2:6]):
                return False
            ev = ''.join(x[1] for x in (e[1] or ())).split()
            gv = ''.join(x[1] for x in (g[1] or ()) if x[0] == 's').split()
            if ev != gv:
                return False
    return True


def check_stmt_parse(abbr, cfg, places):
    """places: [(depth, element)] the operators denote.  markup.parse must return exactly these places, each
    carrying its own element's name, text and merged mentions."""
    import copy
    import attr_util as au
    from emmet.config import Config
    t = au.impl_tree(abbr, cfg)
    if t[0] != 'ok':
        return 'markup.parse raised %r' % (t,), t
    reverse = bool(Config(copy.deepcopy(cfg)).options.get('output.reverseAttributes'))
    got = t[1]
    if len(got) != len(places):
        return 'the tree has %d nodes, the statement writes %d elements' % (len(got), len(places)), t
    for k, ((d, e), g) in enumerate(zip(places, got)):
        value = (('s', e['text'][1]),) if e.get('text') is not None and e['text'][1] else None
        gv = None if g[2] is None else tuple(tuple(x) for x in g[2])
        if (g[0], g[1], gv, g[3], bool(g[5])) != (d, e['name'], value, None, bool(e.get('close'))):
            return 'place %d is %r, written: depth %d element %r text %r' % (k, g[:4], d, e['name'], value), t
        if not same_attrs(merged_attrs(e, reverse), g[4]):
            return 'place %d (%s) carries attributes %r, its written mentions merge to %r' % (
                k, e['name'], g[4], [x[:6] for x in merged_attrs(e, reverse)]), t
    return None, t


def places_of(xs):
    depth = 0
    out = []
    for e, op in xs:
        out.append((depth, e))
        if op == '>':
            depth += 1
        elif op != '+':
            depth = max(0, depth - len(op))
    return out


def run_stmt_parse_stream(ctx, prop, n):
    import re
    import attr_util as au
    from emmet.snippets import markup_snippets
    from emmet.snippets import xsl_snippets
    rng = ctx.rng
    cases = []
    for k in range(n):
        cfg = json.loads(json.dumps(STMT_CFGS[k % len(STMT_CFGS)]))
        jsx = cfg.get('syntax') == 'jsx'
        xs = rand_stmt(rng, jsx)
        for e, _ in xs:
            nm = e['name']
            if nm in markup_snippets or nm.lower() in markup_snippets or nm in xsl_snippets or re.match(r'(?i)lorem|label$', nm):
                e['name'] = 'x' + nm
            if jsx and 'A' <= e['name'][0] <= 'Z':
                e['name'] = 'x' + e['name']
        abbr = stmt_text(xs)
        places = places_of(xs)
        why, t = check_stmt_parse(abbr, cfg, places)
        ctx.count_eval()
        ctx.cover('%sstmt-parse:%s' % (prop, cfg.get('syntax', 'html')))
        ctx.nontrivial(('stmt-parse', abbr, json.dumps(cfg, sort_keys=True)))
        if why:
            ctx.property_failure('%sstmt:%s|%s' % (prop, abbr, json.dumps(cfg, sort_keys=True)),
                                 '%s markup.parse(%r, %s): %s' % (prop, abbr, json.dumps(cfg, sort_keys=True), why),
                                 {'component': 'stmt-parse', 'abbr': abbr, 'config': cfg,
                                  'places': [[d, e] for d, e in places], 'impl': repr(t)[:500], 'why': why})
        cases.append((abbr, cfg))
    au.compare_trees(ctx, prop + 'stmt', cases)
    return cases


def replay_stmt_parse(rp):
    places = [(d, {'name': e['name'], 'parts': [tuple(p) for p in e['parts']], 'text': e.get('text'), 'close': e.get('close')})
              for d, e in rp['places']]
    why, t = check_stmt_parse(rp['abbr'], rp['config'], places)
    print('markup.parse(%r, %r) -> %r\nproperty oracle (places + merged mentions per element): %s' % (rp['abbr'], rp['config'], t, why or 'holds'))
    return 1 if why else 0


# ---------------------------------------------------------------- statements through expand, formatting off (C03_statement_expand)
def render_places(places, cfg):
    """Nested tags: every element once, in document order, its attributes through the output table, its text,
    then its children."""
    import copy
    import attr_util as au
    from emmet.config import Config
    opts = Config(copy.deepcopy(cfg)).options

    def build(i, d):
        out = []
        while i < len(places) and places[i][0] == d:
            e = places[i][1]
            kids, j = build(i + 1, d + 1)
            spec = au.element_spec(au_mentions(e), opts)
            text = e['text'][1] if e.get('text') is not None else ''
            out.append('<%s%s%s' % (e['name'], ''.join(au.render_attr(r) for r in spec), leaf_tail(e, text, kids, opts)))
            i = j
        return ''.join(out), i
    return build(0, 0)[0]


def run_stmt_expand_stream(ctx, prop, n):
    import re
    from emmet.snippets import markup_snippets
    from emmet.snippets import xsl_snippets
    from markup_util import run_cases
    rng = ctx.rng
    cases = []
    k = 0
    while len(cases) < n:
        k += 1
        cfg = json.loads(json.dumps(STMT_CFGS[k % len(STMT_CFGS)]))
        cfg.setdefault('options', {})['output.format'] = False
        jsx = cfg.get('syntax') == 'jsx'
        xs = rand_stmt(rng, jsx)
        for e, _ in xs:
            nm = e['name']
            if nm in markup_snippets or nm.lower() in markup_snippets or nm in xsl_snippets or re.match(r'(?i)lorem|label$', nm):
                e['name'] = 'x' + nm
            if jsx and 'A' <= e['name'][0] <= 'Z':
                e['name'] = 'x' + e['name']
            if e.get('text') is not None and e['text'][1].startswith('<'):
                e['text'] = None
        abbr = stmt_text(xs)
        if any(ch in abbr for ch in '\r\n'):
            continue            # statement domain: values and text free of line breaks
        cases.append((abbr, cfg, {'want': render_places(places_of(xs), cfg)}))

    def oracle(abbr, cfg, meta, r):
        if r != ('ok', meta['want']):
            return 'output %r, the written statement gives \u27eawant\u27eb%s' % (r, json.dumps(meta['want']))
        return None
    model = ctx.model('markup')
    run_cases(ctx, model, cases, prop + 'stmtexpand', oracle, mode='expand')
    return cases
