"""Lorem text generation (emmet/markup/lorem/__init__.py) against the Coq model (coq/model/MarkupLorem.v, the lorem pass of
coq/model/MarkupResolve.v), hooked into the C07 check (harness/c07_markup.py) like harness/href_util.py.

The ORACLE of random numbers.  The only nondeterminism of the module is `randint`, the name `from random import
randint` binds IN emmet.markup.lorem.  `patched(oracle)` replaces that binding by `Oracle.randint`: a deterministic
stream of RAW integers (one PRNG state per case, seeded from the case), randint(a, b) = a + raw % (b - a + 1), ValueError
for an empty range like random.randint.  The consumed raw draws are recorded and handed to the extracted model, which
maps them the same way (MarkupLorem.randint): same draws in, same text out.  `paragraph` is wrapped by an OBSERVER (it
calls the real function and records db, word_count, start_with_common, the returned text and the range of the randint
call just before it = the word-count draw of lorem()); nothing the implementation computes is changed by it.

Checks:
  * unit ties: randint, sample, choice, sentence, insert_commas, paragraph and the header of lorem() -- implementation
    = model on value AND on the number of draws consumed (the model is also run on the recorded stream cut by one draw:
    it must report an exhausted stream; and with extra draws: they must be left over);
  * FULL expand() output, implementation = model, for abbreviations with lorem in every position (alone, counts, ranges,
    languages, repeated, under repeated ancestors, in groups, with wrap text, numbering, attributes, every syntax,
    comments, BEM, user snippets that expand to lorem, ...) and random ones; plus the number of draws left over;
  * the independent ORACLE on the implementation (no model): every paragraph() call made during expand() returns exactly
    word_count vocabulary entries of its language (capitalised first word of a sentence, optional comma, never on the last
    word of a sentence, sentence end from '?!.'), starts with the common opening iff start_with_common, word_count was
    drawn from the range [min, max] of the header; the paragraphs appear verbatim and in order in the output; for the
    shape families the lorem node is a text node (no tag of its own; the implicit tag of its parent when repeated below
    the top level) and only the first copy starts with the common opening; and C07 itself: expand raises nothing but its
    two parse errors.
"""
import contextlib
import copy
import importlib
import random
import re
import zlib

from common import enc_str, enc_bool, enc_opt, enc_list, Reader
from markup_util import canon_cfg, enc_config, NotModelled, classify_exc, decode_res, _limited_call

from lorem_oracle import (LOREM_MOD, DRAW_LIMIT, _mod, OracleLimit, Oracle, FixedOracle, vocab_key, patched, seed_of,
                          raw_stream, lorem_like, model_draws)

RE_HEADER = re.compile(r'^lorem([a-z]*)(\d*)(-\d*)?$', re.I)      # the statement's header grammar (oracle side)


def impl_expand_oracle(abbr, user_config, seed=None, draws=None):
    """expand() under a fresh oracle -> (result as markup_util.impl_expand, oracle)."""
    from emmet import expand
    from common import Hang
    box = {}

    def call():
        o = box['o'] = FixedOracle(draws) if draws is not None else Oracle(seed_of(abbr, user_config) if seed is None else seed)
        with patched(o):
            return expand(abbr, copy.deepcopy(user_config))
    try:
        return ('ok', _limited_call(call)), box['o']
    except Hang:
        return ('hang', 10), box['o']
    except OracleLimit:
        return ('oracle-limit',), box['o']
    except Exception as e:  # noqa
        return classify_exc(e), box['o']


# ---------------------------------------------------------------- the independent oracle (statement on the implementation)
def _entries(key):
    v = _mod().vocabularies[key]
    return list(v.get('common') or []) + list(v['words'])


_PARSE_CACHE = {}


def paragraph_problem(key, text, wc, common):
    """None when `text` is a paragraph of exactly `wc` entries of vocabulary `key` in the sense of the statement:
    sentences separated by single blanks; a sentence = entries separated by single blanks, the first one capitalised, every
    entry but the last optionally followed by one comma, then one of ? ! . ; with `common` the first sentence is the first
    min(wc, len) entries of the common opening and ends with a full stop.  Entries may contain blanks (russian), so the
    text is parsed by dynamic programming over (position, entries so far, state)."""
    voc = _mod().vocabularies[key]
    words = set(voc['words'])
    comm = list(voc.get('common') or [])
    allw = sorted(words | set(comm), key=len, reverse=True)
    n = len(text)
    # states: position -> set of (count, at_sentence_start)
    reach = {0: {(0, True)}}
    for pos in range(n + 1):
        if pos not in reach:
            continue
        for cnt, start in list(reach[pos]):
            if cnt > wc + 60:
                continue
            for w in allw:
                form = w.capitalize() if start else w
                if not text.startswith(form, pos):
                    continue
                p = pos + len(form)
                # entry, then: ", " next entry | " " next entry | end-of-sentence (+ " " next sentence | end of text)
                if text.startswith(', ', p):
                    reach.setdefault(p + 2, set()).add((cnt + 1, False))
                if text.startswith(' ', p):
                    reach.setdefault(p + 1, set()).add((cnt + 1, False))
                if p < n and text[p] in '?!.':
                    if p + 1 == n:
                        reach.setdefault(n + 1, set()).add((cnt + 1, True))
                    elif text[p + 1] == ' ':
                        reach.setdefault(p + 2, set()).add((cnt + 1, True))
    counts = sorted(c for c, _ in reach.get(n + 1, ()))
    if not counts:
        return 'is not a sequence of sentences over the %r vocabulary (capitalised first entry, optional commas not on the last entry, end in ?!.)' % key
    if wc not in counts:
        return 'has %s entries, word_count is %d' % ('/'.join(map(str, counts)), wc)
    if common and comm:
        k = len(comm[0:wc])
        opening = comm[0:wc]
        rx = '^' + r',? '.join(re.escape(w.capitalize() if i == 0 else w) for i, w in enumerate(opening)) + r'\.( |$)'
        if k and not re.match(rx, text):
            return 'does not start with the common opening %r' % ' '.join(opening)
    return None


def header_range(name):
    """(language key, min, max) the statement gives for a node name, None when the name is not a lorem header."""
    m = RE_HEADER.match(name)
    if not m:
        return None
    vocs = _mod().vocabularies
    key = m.group(1) if m.group(1) in vocs else 'latin'
    lo = max(1, int(m.group(2))) if m.group(2) else 30
    hi = max(lo, int(m.group(3)[1:])) if m.group(3) and m.group(3)[1:] else lo
    return key, lo, hi


def oracle_paragraphs(r, o, headers=None):
    """Statement on every paragraph() call of one expand() (r = outcome, o = oracle after the run).
    `headers`: when known, the node names in walk order -> language and range of each call."""
    for k, p in enumerate(o.paragraphs):
        if p['text'] is None:
            continue                       # the call raised: reported through the outcome
        if p['db'] is None:
            return 'paragraph() got a vocabulary that is not in the table'
        if p['range'] is None:
            return 'paragraph() without a word-count draw before it'
        lo, hi = p['range']
        if not (lo <= p['wc'] <= hi):
            return 'word_count %d outside the drawn range [%d, %d]' % (p['wc'], lo, hi)
        if headers is not None and k < len(headers):
            want = header_range(headers[k])
            if want is None:
                return 'paragraph() for node %r, which is not a lorem header' % headers[k]
            if (p['db'], lo, hi) != want:
                return 'node %r: language %r, word count drawn from [%d, %d]; the header says %r, [%d, %d]' % (
                    headers[k], p['db'], lo, hi, want[0], want[1], want[2])
        bad = paragraph_problem(p['db'], p['text'], p['wc'], p['common'])
        if bad:
            return 'paragraph %d %r %s' % (k, p['text'][:200], bad)
    if headers is not None and r[0] == 'ok' and len(o.paragraphs) != len(headers):
        return '%d paragraphs generated for %d lorem nodes' % (len(o.paragraphs), len(headers))
    if r[0] == 'ok':
        pos = 0
        for k, p in enumerate(o.paragraphs):
            j = r[1].find(p['text'], pos)
            if j < 0:
                return 'paragraph %d %r is not in the output (in order, verbatim)' % (k, p['text'][:80])
            pos = j + len(p['text'])
    return None


def oracle_c07(r):
    if r[0] in ('ok', 'oracle-limit', 'recursion'):
        return None
    if r[0] == 'err':
        return None
    if r[0] == 'hang':
        return 'no result within the time limit'
    return 'expand raised %s: not one of its two parse errors' % (r[1],)


# shape families: template with H = the header; the expected output as a regex over paragraphs P (html syntax, default options);
# commons = which copies start with the common opening; n = number of lorem nodes
P = r'([^<>\n]+)'
SHAPES = [
    ('%s', '^' + P + '$', [True]),
    ('%s*3', '^' + P + r'\n' + P + r'\n' + P + '$', [True, False, False]),
    ('ul>%s*3', r'^<ul>\n\t<li>' + P + r'</li>\n\t<li>' + P + r'</li>\n\t<li>' + P + r'</li>\n</ul>$', [True, False, False]),
    ('p*2>%s', '^<p>' + P + r'</p>\n<p>' + P + '</p>$', [True, False]),
    ('div>%s', '^<div>' + P + '</div>$', [True]),
    ('%s.cls#i[title=x]{written text}', '^' + P + '$', [True]),
    ('table>tr>%s*2', r'^<table>\n\t<tr>\n\t\t<td>' + P + r'</td>\n\t\t<td>' + P + r'</td>\n\t</tr>\n</table>$', [True, False]),
    ('(%s)*2', '^' + P + r'\n' + P + '$', None),
    ('p>%s*2', r'^<p><span>' + P + r'</span><span>' + P + r'</span></p>$', [True, False]),
    ('div*2>p>%s', '^<div>\n\t<p>' + P + '</p>\n</div>\n<div>\n\t<p>' + P + '</p>\n</div>$', [True, False]),
    ('%s+%s', '^' + P + r'\n' + P + '$', [True, True]),
    ('ul>%s.c#i[title=t]*2', r'^<ul>\n\t<li>' + P + r'</li>\n\t<li>' + P + r'</li>\n</ul>$', [True, False]),
    ('ol>%s*2', r'^<ol>\n\t<li>' + P + r'</li>\n\t<li>' + P + r'</li>\n</ol>$', [True, False]),
]

HEADERS = ['lorem', 'lorem1', 'lorem2', 'lorem3', 'lorem4', 'lorem5', 'lorem6', 'lorem7', 'lorem8', 'lorem9', 'lorem10', 'lorem12',
           'lorem13', 'lorem31', 'lorem60', 'lorem5-10', 'lorem10-5', 'lorem1-3', 'lorem2-2', 'lorem0', 'lorem0-0', 'lorem0-3', 'lorem3-',
           'lorem-4', 'lorem-40', 'lorem-', 'lorem007', 'lorem07-010', 'loremru', 'loremru4', 'loremru2-9', 'loremsp', 'loremsp3-6',
           'loremlatin7', 'loremRU3', 'loremSp4', 'loremxx3', 'loremr2', 'LOREM4', 'Lorem2-3', 'lOrEmRu5', 'loremru0-1', 'lorem20-45',
           'lorem٣', 'lorem١٢', 'lorem1-٤']


def shape_problem(shape, header, r, o):
    tpl, rx, commons = shape
    n = tpl.count('%s')
    if r[0] != 'ok':
        return None
    m = re.match(rx, r[1])
    if not m:
        return 'output %r is not of the shape %s: the lorem node is not a text node (with the implicit tag of its parent when repeated below the top level)' % (r[1][:300], rx)
    if len(o.paragraphs) != len(m.groups()):
        return '%d paragraph() calls for %d text nodes' % (len(o.paragraphs), len(m.groups()))
    for k, (g, p) in enumerate(zip(m.groups(), o.paragraphs)):
        if g != p['text']:
            return 'text node %d is %r, paragraph() returned %r' % (k, g[:80], p['text'][:80])
        if commons is not None and p['common'] != commons[k]:
            return 'copy %d: start_with_common = %r' % (k, p['common'])
    return None


# ---------------------------------------------------------------- unit ties
def dec_lres(w, payload):
    r = Reader(w)
    t = r.int()
    if t == 0:
        v = payload(r)
        return ('ok', v, r.int())
    if t == 1:
        return ('exhausted',)
    if t == 2:
        return ('fuel',)
    if t == 3:
        return ('internal', r.int())
    return ('bad', w[:8])


IK = {'IndexError': 10, 'TypeError': 11, 'ValueError': 12}


def unit_cases(ctx):
    """(label, python thunk, wire body after the draws, payload decoder, canonical value of the python result)"""
    L = _mod()
    rng = ctx.rng
    quick = ctx.tier == 'quick'
    vocs = L.vocabularies
    keys = list(vocs)
    out = []

    def words_of(k, n):
        return [rng.choice(vocs[k]['words']) for _ in range(n)]
    # 1 randint
    for a, b in [(0, 0), (0, 1), (1, 4), (2, 30), (0, 181), (5, 3), (0, -1), (-3, 3), (30, 30), (1, 10 ** 6)]:
        out.append(('randint', lambda a=a, b=b: L.randint(a, b), [1], [a, b], lambda r: r.int(), lambda v: v))
    # 2 sample
    arrs = [vocs[k]['words'] for k in keys] + [['a', 'b', 'c'], ['a', 'a', 'b', 'c', 'c'], ['x'], []]
    for arr in arrs:
        distinct = len(set(arr))
        for count in sorted({-2, 0, 1, 2, 3, 5, 17, 30, distinct, distinct - 1} if not quick else {-2, 0, 1, 2, 5, 30}):
            if min(len(arr), count) > distinct:
                continue                          # the loop of the code would not end (not reachable from paragraph())
            out.append(('sample', lambda arr=arr, count=count: L.sample(arr, count), [2], enc_list(enc_str, arr) + [count],
                        lambda r: r.list(r.str), lambda v: list(v)))
    # 3 choice
    for val in ['?!...', 'x', 'ab', '']:
        out.append(('choice', lambda val=val: L.choice(val), [3], enc_str(val), lambda r: chr(r.int()), lambda v: v))
    # 4 sentence
    for k in keys:
        for n in (0, 1, 2, 5):
            for end in (None, '.', '', '!?'):
                ws = words_of(k, n)
                if n > 1 and rng.random() < 0.5:
                    ws[0] += ','
                out.append(('sentence', lambda ws=ws, end=end: L.sentence(list(ws), end), [4],
                            enc_list(enc_str, ws) + enc_opt(enc_str, end), lambda r: r.str(), lambda v: v))
    # 5 insert_commas
    for k in keys:
        for n in list(range(0, 15)) + [20, 30]:
            for rep in range(1 if quick else 3):
                ws = words_of(k, n)
                if n and rng.random() < 0.2:
                    ws[rng.randrange(n)] += ','
                out.append(('insert_commas', lambda ws=ws: L.insert_commas(list(ws)), [5], enc_list(enc_str, ws),
                            lambda r: r.list(r.str), lambda v: list(v)))
    for ws in (['', 'a'], ['a', ''], ['', '', ''], [',', 'b', 'c', 'd']):
        out.append(('insert_commas', lambda ws=ws: L.insert_commas(list(ws)), [5], enc_list(enc_str, ws),
                    lambda r: r.list(r.str), lambda v: list(v)))
    # 6 paragraph
    for k in keys + ['xx', '']:
        db = vocs.get(k) or vocs.get('latin')
        for wc in list(range(-3, 14)) + [29, 30, 31, 32, 60, 61, 100] + ([] if quick else [150, 400]):
            for common in (True, False):
                out.append(('paragraph', lambda db=db, wc=wc, common=common: L.paragraph(db, wc, common), [6],
                            enc_str(k) + [wc] + enc_bool(common), lambda r: r.str(), lambda v: v))
    return out


def run_units(ctx, lmodel):
    cases = unit_cases(ctx)
    reps = 3 if ctx.tier == 'quick' else 6
    wires, meta = [], []
    for label, thunk, cmd, body, payload, canon in cases:
        for rep in range(reps):
            o = Oracle(ctx.rng.randrange(2 ** 32))
            try:
                with patched(o):
                    v = ('ok', canon(thunk()))
            except OracleLimit:
                continue
            except Exception as e:  # noqa
                v = ('internal', IK.get(type(e).__name__, type(e).__name__))
            ctx.count_eval()
            ctx.cover('lorem-unit:%s:%s' % (label, v[0]))
            d = list(o.draws)
            extra = [ctx.rng.randrange(-50, 50) for _ in range(ctx.rng.randrange(0, 3))]
            wires.append(cmd + [len(d) + len(extra)] + d + extra + body)
            meta.append((label, payload, v, len(extra), d, body, 'full'))
            if d and v[0] == 'ok':
                wires.append(cmd + [len(d) - 1] + d[:-1] + body)
                meta.append((label, payload, ('exhausted',), 0, d[:-1], body, 'cut'))
    dis = 0
    for w, (label, payload, v, nextra, d, body, kind) in zip(lmodel.run(wires), meta):
        mo = dec_lres(w, payload)
        want = v + (nextra,) if v[0] == 'ok' else v
        if mo != want:
            dis += 1
            if dis <= 5:
                ctx.say('DISAGREE lorem unit %s (%s) draws=%r body=%r\n  impl  %r\n  model %r' % (label, kind, d[:40], body[:40], str(want)[:300], str(mo)[:300]))
                ctx.broken.append({'kind': 'correspondence', 'file': 'lorem-unit-' + label, 'input': repr(body)[:200], 'draws': d[:200],
                                   'impl': repr(want)[:300], 'model': repr(mo)[:300]})
    ctx.cov['correspondence']['lorem_units(randint sample choice sentence insert_commas paragraph: value and draws consumed)'] = {
        'cases': len(wires), 'disagreements': dis}


class _Node:
    def __init__(self, name, repeat=None):
        self.name = name
        self.repeat = repeat
        self.attributes = []
        self.value = None


HEADER_NAMES = HEADERS + ['lore', 'lorem ', 'xlorem', 'lorem5x', 'lorem5-3-1', 'lorem--3', 'lorem-3-', 'lorem5 ', 'lorems5', 'loremru-',
                          'loremſ2', 'loremK2', 'loremİ3', 'loremı3', 'lorеm', 'LOREMRU', 'loremlatin', 'lorem\n',
                          'lorem5\n', 'lorem5-\n', 'lorem5-6\n', 'lorem๓', 'lorem５', '', 'l', 'lorem' + '9' * 15 + '-' + '1' * 3, 'lorem3-' + '8' * 16]


def run_headers(ctx, lmodel):
    """lorem() called on a bare node: which vocabulary, which range of the word-count draw -- against match_lorem /
    lorem_min / lorem_max / lorem_db of the model."""
    L = _mod()
    names = list(HEADER_NAMES)
    rng = ctx.rng
    alpha = ['lorem', 'LOREM', 'ru', 'sp', 'latin', 'r', 'x', '1', '2', '0', '-', '-', '7', '٣', ' ', '\n', 'Z', 'ſ']
    for _ in range(300 if ctx.tier == 'quick' else 2500):
        names.append('lorem' * (rng.random() < 0.9) + ''.join(rng.choice(alpha) for _ in range(rng.randrange(0, 6))))
    wires, meta = [], []
    for nm in names:
        o = Oracle(rng.randrange(2 ** 32))
        node = _Node(nm)
        try:
            with patched(o):
                real_p = L.paragraph

                def stop(db, wc, common=False):          # the header only: do not generate 10**30 words
                    o.paragraphs.append({'db': vocab_key(db), 'range': o.calls[-1] if o.calls else None})
                    return ''
                L.paragraph = stop
                L.lorem(node, [], None)
            if o.paragraphs:
                im = ('yes', o.paragraphs[0]['db']) + tuple(o.paragraphs[0]['range'])
            else:
                im = ('no',)
        except Exception as e:  # noqa
            im = ('internal', type(e).__name__)
        ctx.count_eval()
        ctx.cover('lorem-header:' + im[0])
        wires.append([7, 0] + enc_str(nm))
        meta.append((nm, im))
    dis = 0
    for w, (nm, im) in zip(lmodel.run(wires), meta):
        r = Reader(w)
        if r.int() == 0:
            mo = ('no',)
        else:
            lang = r.str()
            lo, hi = r.int(), r.int()
            mo = ('yes', lang if lang in L.vocabularies else 'latin', lo, hi)
        if mo != im:
            dis += 1
            if dis <= 5:
                ctx.say('DISAGREE lorem header %r\n  impl  %r\n  model %r' % (nm, im, mo))
                ctx.broken.append({'kind': 'correspondence', 'file': 'lorem-header', 'input': nm, 'impl': repr(im), 'model': repr(mo)})
    ctx.cov['correspondence']['lorem_header(language, word-count range of lorem() on a bare node)'] = {'cases': len(wires), 'disagreements': dis}


# ---------------------------------------------------------------- full expand
CONFIGS = [
    {}, {'syntax': 'haml'}, {'syntax': 'pug'}, {'syntax': 'slim'}, {'syntax': 'xsl'}, {'syntax': 'jsx'}, {'syntax': 'xml'},
    {'options': {'output.format': False}}, {'options': {'comment.enabled': True}}, {'options': {'bem.enabled': True}},
    {'options': {'output.indent': '  ', 'output.newline': '\r\n', 'output.tagCase': 'upper'}},
    {'options': {'output.inlineBreak': 1}}, {'options': {'output.formatLeafNode': True}},
    {'text': 'wrapped'}, {'text': ['line one', 'line two', 'line three']}, {'text': ['a', 'b'], 'syntax': 'pug'},
    {'context': {'name': 'ul'}}, {'context': {'name': 'p'}}, {'context': {'name': 'table'}, 'options': {'bem.enabled': True}},
    {'snippets': {'lo': 'lorem4', 'para': 'p>lorem6', 'items': 'ul>lorem2*3', 'lorem9': 'b'}},
    {'variables': {'n': '3', 'lang': 'ru'}}, {'maxRepeat': 2}, {'options': {'markup.href': True}, 'text': 'http://x.y'},
    {'syntax': 'slim', 'options': {'comment.enabled': True}},
    {'syntax': 'haml', 'text': ['x', 'y']},
]
TEMPLATES = ['%s', '%s*2', '%s*3', 'ul>%s*4', 'ol>%s*2', 'p*3>%s', 'p>%s', 'div>%s', '(%s)*2', '(p>%s)*2', '(%s+b)*2', 'ul>(%s)*2', 'ul>(li>%s)*2',
             'a+%s', '%s+%s', '%s>%s', '%s>b', '%s*2>b', 'ul>%s*2>b', '%s.c', '%s#i.c[t=v]', '%s{text}', '%s*2{t$}', '.c>%s*2', 'p.c*2>%s', 'em>%s*2',
             'table>%s*2', 'tr>%s*2', 'select>%s*2', 'ul>li*2>%s', 'ul>li*2>%s*2', 'div*2>p*2>%s', 'ul*2>%s*2', 'p>{a }+%s', 'p>%s+{ z}',
             '%s*', 'ul>%s*', 'p*>%s', 'ul>li*>%s', '%s/', 'lo', 'para', 'items*2', 'lo*2', 'ul>lo*2', 'lorem9', 'lorem9>%s', '%s$*3', 'ul>%s$*3',
             '%s$@2*2', 'lorem$-$$*2', 'loremru$*2', 'label>%s', 'label>%s+input', 'xsl:variable[select]>%s', 'xsl:variable[select=x]{%s}',
             'a[href]>%s', 'a>%s', 'input+%s', 'img>%s', 'br>%s*2', 'lor\\em3', '\\%s', '{%s}', 'p[title=%s]', '%s:x', 'x:%s', '%s-x', '%s--', 'p>%s^%s',
             '((%s))', '(a>%s*2)+(b>%s)', 'ul>%s*2^p>%s', 'p>%s*2+%s', '%s*2+p*2>%s']


def pipeline_cases(ctx):
    rng = ctx.rng
    quick = ctx.tier == 'quick'
    cases = []
    # shape families x headers under the default configuration (oracle knows the expected shape)
    for si, shape in enumerate(SHAPES):
        for hi, h in enumerate(HEADERS):
            if quick and (si * 7 + hi) % 3 and si > 1:
                continue
            cases.append((shape[0] % ((h,) * shape[0].count('%s')), {}, {'tag': 'shape', 'shape': si, 'header': h}))
    # every template x configuration
    for ti, t in enumerate(TEMPLATES):
        for ci, cfg in enumerate(CONFIGS):
            if quick and (ti + ci) % 4:
                continue
            n = t.count('%s')
            hs = tuple(rng.choice(HEADERS) for _ in range(n))
            cases.append((t % hs, copy.deepcopy(cfg), {'tag': 'template'}))
    # random
    import abbr_gen  # noqa
    for _ in range(400 if quick else 2500):
        t = rng.choice(TEMPLATES)
        if rng.random() < 0.3:
            t = rng.choice(['ul>', 'p+', '(', 'div*2>', 'a>b>', '']) + t
            if t.startswith('('):
                t += ')' + rng.choice(['', '*2'])
        hs = tuple(rng.choice(HEADERS) if rng.random() < 0.8 else
                   'lorem' + rng.choice(['', 'ru', 'sp', 'x']) + rng.choice(['', str(rng.randrange(0, 50))]) +
                   rng.choice(['', '', '-', '-' + str(rng.randrange(0, 60))]) for _ in range(t.count('%s')))
        cfg = copy.deepcopy(rng.choice(CONFIGS))
        if rng.random() < 0.3:
            cfg.setdefault('options', {}).update(rng.choice([{'output.format': False}, {'comment.enabled': True}, {'bem.enabled': True},
                                                            {'output.selfClosingStyle': 'xhtml'}, {'output.reverseAttributes': True}]))
        cases.append((t % hs, cfg, {'tag': 'random'}))
    return cases


def run_pipeline(ctx, lmodel):
    cases = pipeline_cases(ctx)
    impl, wires, idx = [], [], []
    n_par = 0
    for k, (abbr, cfg, meta) in enumerate(cases):
        ctx.cover('lorem:' + meta['tag'])
        r, o = impl_expand_oracle(abbr, cfg, seed=ctx.rng.randrange(2 ** 32))
        impl.append((r, o))
        ctx.count_eval()
        ctx.cover('lorem:%s' % (r[0] if r[0] != 'err' else 'err%d' % r[1]))
        bad = oracle_c07(r) or oracle_paragraphs(r, o)
        if not bad and meta['tag'] == 'shape':
            bad = shape_problem(SHAPES[meta['shape']], meta['header'], r, o)
            if not bad and r[0] == 'ok':
                sh = SHAPES[meta['shape']]
                bad = oracle_paragraphs(r, o, [meta['header']] * len(o.paragraphs))
        if bad:
            ctx.property_failure('lorem:%s|%s' % (abbr, canon_cfg(cfg)), 'lorem expand(%r, %s) with draws %r...: %s' % (abbr, canon_cfg(cfg), o.draws[:12], bad),
                                 {'component': 'lorem', 'abbr': abbr, 'config': cfg, 'draws': o.draws[:5000], 'impl': repr(r)[:500], 'why': bad,
                                  'shape': meta.get('shape'), 'header': meta.get('header')})
        if o.paragraphs and r[0] == 'ok':
            n_par += len(o.paragraphs)
            ctx.nontrivial(('lorem', abbr, canon_cfg(cfg)))
            ctx.cover('lorem:paragraphs-per-case:%s' % min(len(o.paragraphs), 5))
            for p in o.paragraphs:
                ctx.cover('lorem:language:%s' % p['db'])
                ctx.cover('lorem:start_with_common:%s' % p['common'])
        if r[0] == 'oracle-limit':
            continue
        try:
            e = enc_config(cfg, o.draws)
        except NotModelled:
            ctx.cover('lorem:not-modelled')
            continue
        wires.append([9] + e + enc_str(abbr))
        idx.append((k, 'out'))
        wires.append([8] + e + enc_str(abbr))
        idx.append((k, 'left'))
        if o.draws:
            wires.append([9] + enc_config(cfg, o.draws[:-1]) + enc_str(abbr))
            idx.append((k, 'cut'))
    dis = 0
    for (k, kind), w in zip(idx, lmodel.run(wires)):
        abbr, cfg, meta = cases[k]
        im, o = impl[k]
        if im[0] == 'recursion':
            continue
        if kind == 'out':
            mo = decode_res(w, lambda r: r.str())
            ok = mo == im
        elif kind == 'cut':
            mo = decode_res(w, lambda r: r.str())
            ok = mo == ('outoffuel',) or im[0] != 'ok'
        else:
            mo = decode_res(w, lambda r: (r.int(), r.int()) if r.w[r.i] == 0 else (r.int(),))
            ok = im[0] != 'ok' or mo == ('ok', (0, 0))
        if not ok:
            dis += 1
            if dis <= 6:
                ctx.say('DISAGREE lorem expand (%s) %r cfg=%s draws=%r\n  impl  %r\n  model %r' % (kind, abbr, canon_cfg(cfg), o.draws[:20], str(im)[:400], str(mo)[:400]))
                ctx.broken.append({'kind': 'correspondence', 'file': 'markup-lorem-' + kind, 'input': abbr, 'config': canon_cfg(cfg),
                                   'draws': o.draws[:200], 'impl': repr(im)[:300], 'model': repr(mo)[:300]})
    ctx.cov['correspondence']['markup_lorem(full expand output under a recorded draw stream; draws left over; stream cut by one draw)'] = {
        'cases': len(wires), 'disagreements': dis, 'paragraphs_checked_by_the_oracle': n_par}


def long_count_probe(ctx):
    """Observation (known finding): the digits of a lorem header go through int(); more than CPython converts is a ValueError."""
    for abbr in ('lorem' + '7' * 4301, 'ul>lorem5-' + '1' * 4301 + '*2'):
        r, o = impl_expand_oracle(abbr, {})
        ctx.count_eval()
        ctx.cover('lorem:long-count:' + str(r[0]))
        bad = oracle_c07(r)
        if bad:
            ctx.property_failure('lorem-long-count:' + str(r[1]), 'lorem expand(%r + %d digits ...): %s' % (abbr[:10], 4301, bad),
                                 {'component': 'lorem', 'abbr': abbr, 'config': {}, 'draws': [], 'impl': repr(r)[:200], 'why': bad})


def replay_lorem(rp):
    abbr, cfg = rp['abbr'], rp.get('config') or {}
    r, o = impl_expand_oracle(abbr, cfg, draws=rp.get('draws') or [])
    bad = oracle_c07(r) or oracle_paragraphs(r, o)
    if not bad and rp.get('shape') is not None:
        bad = shape_problem(SHAPES[rp['shape']], rp['header'], r, o) or oracle_paragraphs(r, o, [rp['header']] * len(o.paragraphs))
    print('lorem expand(%r, %s) under %d recorded draws -> %s : %s' % (abbr, canon_cfg(cfg), len(rp.get('draws') or []), repr(r)[:300], bad or 'holds'))
    return 1 if bad else 0


def run_lorem(ctx, model):
    """Called by harness/c07_markup.py."""
    ok = ctx.build(['props/Lorem.vo', 'run/LoremRun.vo'])
    if ok:
        ctx.obligations('props/Lorem.v')
    lmodel = ctx.model('lorem') if ok else None
    if lmodel is None:
        return
    run_units(ctx, lmodel)
    run_headers(ctx, lmodel)
    run_pipeline(ctx, lmodel)
    long_count_probe(ctx)
    ctx.cov['rule'] = ctx.cov.get('rule', '') + (
        ' lorem text (coq/model/MarkupLorem.v + the lorem pass of MarkupResolve.v; harness/lorem_util.py): every implementation run '
        'of this check goes through a deterministic ORACLE bound to emmet.markup.lorem.randint (one PRNG state per case, raw draws '
        'of both signs / small ranges that force rejections in sample()), the same raw draws go to the extracted model. Unit ties '
        '(value and number of draws consumed; the stream cut by one draw must be reported exhausted): randint, sample, choice, '
        'sentence, insert_commas, paragraph (every language, word counts -3..100(400), with/without the common opening) and the '
        'header of lorem() on bare nodes (re.I code points, Unicode digits, final line feed). FULL expand() output, model = '
        'implementation, for %d headers in %d positions (alone, counts, ranges, languages, repeated, under repeated ancestors, '
        'groups, wrap text, numbering, attributes, escapes, user snippets that expand to lorem) under %d configurations (every '
        'syntax, comments, BEM, output options) and random mixes, plus the number of draws left over. Independent oracle on the '
        'implementation: every paragraph() call returns exactly word_count vocabulary entries of its language in sentence form, '
        'word_count was drawn from the [min, max] of the header, common opening iff first copy, paragraphs verbatim and in order in '
        'the output, text-node shape for %d shape families, and C07 itself (nothing raised but the two parse errors).'
        % (len(HEADERS), len(TEMPLATES), len(CONFIGS), len(SHAPES)))


# ---------------------------------------------------------------- C02: repeaters and numbering seen through lorem
def c02_cases(ctx):
    """`lorem$*N`: the counter goes into the NAME, so copy i is a paragraph of exactly (counter of copy i) words -- the
    statement of C02 (N copies, `$` = i, `@M` start, `@-` countdown, maxRepeat) observed through the word counts."""
    out = []
    for n in (1, 2, 3, 4, 6):
        for form, want in (('lorem$', lambda i, n: i), ('lorem$@3', lambda i, n: 3 + i - 1), ('lorem$@-', lambda i, n: n - i + 1),
                           ('lorem$@-2', lambda i, n: 2 + n - i), ('loremru$', lambda i, n: i), ('lorem$-$', None)):
            for limit in (None, 1, 2, n, n + 1):
                copies = n if limit is None else min(n, limit)
                cfg = {} if limit is None else {'maxRepeat': limit}
                for shell in ('%s*%d', 'ul>%s*%d', '(%s)*%d'):
                    if shell != '%s*%d' and limit is not None:
                        continue
                    if form == 'lorem$-$':
                        counts = [(i, i) for i in range(1, copies + 1)]       # range [i, i]
                    else:
                        counts = [(want(i, n), want(i, n)) for i in range(1, copies + 1)]
                    out.append((shell % (form, n), cfg, {'counts': counts, 'lang': 'ru' if 'ru' in form else 'latin'}))
    return out


def oracle_c02(abbr, cfg, meta, r, o):
    if r[0] != 'ok':
        return 'expand did not return a string: %r' % (r[:2],)
    if len(o.paragraphs) != len(meta['counts']):
        return '%d lorem copies, the statement gives %d' % (len(o.paragraphs), len(meta['counts']))
    for k, (p, (lo, hi)) in enumerate(zip(o.paragraphs, meta['counts'])):
        if p['range'] != (max(1, lo), max(1, hi)) or p['db'] != meta['lang']:
            return 'copy %d: language %r, word count drawn from %r; the counter of the copy gives [%d, %d]' % (k + 1, p['db'], p['range'], lo, hi)
        if p['common'] != (k == 0):
            return 'copy %d: start_with_common = %r' % (k + 1, p['common'])
    return oracle_paragraphs(r, o)


def run_c02(ctx, model):
    """Called by harness/props/c02.py."""
    cases = c02_cases(ctx)
    wires, idx, impl = [], [], []
    for k, (abbr, cfg, meta) in enumerate(cases):
        r, o = impl_expand_oracle(abbr, cfg)
        impl.append(r)
        ctx.count_eval()
        ctx.cover('gen:lorem-counter')
        ctx.nontrivial(('C02lorem', abbr, canon_cfg(cfg)))
        bad = oracle_c02(abbr, cfg, meta, r, o)
        if bad:
            ctx.property_failure('C02lorem:%s|%s' % (abbr, canon_cfg(cfg)), 'C02 expand(%r, %s): %s' % (abbr, canon_cfg(cfg), bad),
                                 {'component': 'C02lorem', 'abbr': abbr, 'config': cfg, 'meta': meta, 'draws': o.draws[:3000],
                                  'impl': repr(r)[:300], 'why': bad})
        if model is not None:
            wires.append([2] + enc_config(cfg, o.draws) + enc_str(abbr))
            idx.append(k)
    dis = 0
    for k, w in zip(idx, model.run(wires) if wires else []):
        mo = decode_res(w, lambda r: r.str())
        if mo != impl[k]:
            dis += 1
            if dis <= 5:
                abbr, cfg, meta = cases[k]
                ctx.say('DISAGREE C02 lorem %r cfg=%s\n  impl  %r\n  model %r' % (abbr, canon_cfg(cfg), str(impl[k])[:300], str(mo)[:300]))
                ctx.broken.append({'kind': 'correspondence', 'file': 'markup-C02lorem', 'input': abbr, 'config': canon_cfg(cfg),
                                   'impl': repr(impl[k])[:300], 'model': repr(mo)[:300]})
    ctx.cov['correspondence']['markup_C02lorem(full output, counters in lorem names)'] = {'cases': len(wires), 'disagreements': dis}
    ctx.cov['rule'] = ctx.cov.get('rule', '') + (
        ' Lorem stream (harness/lorem_util.py): `lorem$*N`, `lorem$@M*N`, `lorem$@-*N`, `lorem$-$*N`, alone / under ul / in a group, '
        'with and without maxRepeat: the counter goes into the node NAME, so copy i must be a paragraph whose word count was drawn from '
        '[counter, counter] (observed at the paragraph() call under the deterministic randint oracle), N copies (min(N, limit) under a '
        'limit), only the first one with the common opening; full output model = implementation with the same draws.')


def replay_c02(rp):
    r, o = impl_expand_oracle(rp['abbr'], rp['config'], draws=rp.get('draws') or [])
    meta = rp['meta']
    meta['counts'] = [tuple(c) for c in meta['counts']]
    bad = oracle_c02(rp['abbr'], rp['config'], meta, r, o)
    print('expand(%r, %s) -> %r' % (rp['abbr'], canon_cfg(rp['config']), r))
    print('property %s' % ('FAILS: ' + bad if bad else 'holds on this input'))
    return 1 if bad else 0
