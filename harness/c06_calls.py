"""C06 -- HOW the library is called: the shape of the config argument, the call route, and what was called before.

The statement of C06 speaks about "typing the key" / "a keyword typed in full after the key" / "a user-defined snippet":
it holds for every call of the documented entry points, not only for a fresh, fully spelled-out config dict.  Two
families of circumstances, both independent of the abbreviation itself (used by harness/props/c06.py only):

 * CONFIG SHAPES (`shape_config`, `call_shaped`): optional keys of the config left out vs. written out with their
   default value (`syntax` for the default stylesheet syntax, `options`, `snippets`, `context`), the global config left
   out / empty / given, and the three documented routes expand(abbr, dict[, global]), expand(abbr, Config(dict, global)),
   expand_stylesheet(abbr, Config(dict, global)).

 * CALL SEQUENCES (`Session`, `typed_values`, `minimise`): one Config object that is reused (with and without a `cache`)
   or several config dicts sharing one `cache` dict; earlier calls type every kind of value after a key -- prefixes of
   listed keywords, listed function keywords WITH EXPLICIT ARGUMENTS, numbers, colours, strings, `!`, several properties,
   malformed abbreviations that raise -- and the later, checked call must still satisfy the statement.

Nothing here reads a table or helper of the library: generators work on the raw snippet strings they are handed."""
import re

import common
import style_util as su

DEFAULT_STYLESHEET_SYNTAX = 'css'
"""Documented: README "Usage" expands `p10` under {'type': 'stylesheet'} as CSS (`padding: 10px;`); upstream Emmet
config.ts `defaultSyntaxes = { markup: 'html', stylesheet: 'css' }`."""

ROUTES = ('dict', 'config-object', 'expand_stylesheet')
DEFAULT_SHAPE = {'syntax': 'explicit', 'options': 'explicit', 'snippets': 'omitted', 'context': 'omitted', 'global': 'auto',
                 'route': 'dict'}
CALL_LIMIT_S = 10


# ------------------------------------------------------------------ config shapes
def shape_config(cfg, shape, call_snippets=None):
    """the config dict for `cfg` (a style_util.Cfg) written in the given shape; raises ValueError when the shape cannot
    express cfg (a syntax other than the default cannot be left out; options that are needed cannot be left out)"""
    conf = cfg.impl_config()
    snippets = cfg.snippets if call_snippets is None else call_snippets
    conf.pop('snippets', None)
    if snippets:
        conf['snippets'] = dict(snippets)
    elif shape.get('snippets') == 'empty':
        conf['snippets'] = {}
    if shape.get('syntax') == 'omitted':
        if cfg.syntax != DEFAULT_STYLESHEET_SYNTAX:
            raise ValueError('only the default syntax can be left out')
        del conf['syntax']
    if shape.get('options') == 'omitted':
        if conf['options']:
            raise ValueError('options are needed')
        del conf['options']
    if shape.get('context') == 'none' and cfg.context is None:
        conf['context'] = None
    return conf


def shape_ok(cfg, shape):
    try:
        shape_config(cfg, shape)
        return True
    except ValueError:
        return False


def rand_shape(rng, cfg, syntax=None, route=None):
    """a random shape valid for cfg; `syntax` / `route` fix those two"""
    s = dict(DEFAULT_SHAPE)
    if syntax is not None:
        s['syntax'] = syntax
    elif cfg.syntax == DEFAULT_STYLESHEET_SYNTAX and rng.random() < 0.5:
        s['syntax'] = 'omitted'
    if not cfg.options and not cfg.tabstop and rng.random() < 0.6:
        s['options'] = 'omitted'
    if rng.random() < 0.3:
        s['snippets'] = 'empty'
    if rng.random() < 0.3:
        s['context'] = 'none'
    s['global'] = rng.choice(['auto', 'auto', 'empty'])
    s['route'] = route or rng.choice(ROUTES)
    return s


def shape_name(shape):
    return 'syntax-%s,options-%s,route-%s' % (shape.get('syntax', 'explicit'), shape.get('options', 'explicit'), shape.get('route', 'dict'))


ROUTE_TEXT = {'dict': 'expand(abbr, config, global_config)', 'config-object': 'expand(abbr, Config(config, global_config))',
              'expand_stylesheet': 'expand_stylesheet(abbr, Config(config, global_config))'}


def call_shaped(abbr, cfg, shape, glob=None, call_snippets=None, cache=None):
    """-> ('ok', text) | error class.  glob None: no global config (left out of the call, or {} when shape global=empty)"""
    import copy
    import emmet
    from emmet.config import Config
    conf = shape_config(cfg, shape, call_snippets)
    if cache is not None:
        conf['cache'] = cache
    route = shape.get('route', 'dict')
    if glob is not None:
        args = (copy.deepcopy(glob),)
    elif shape.get('global') == 'empty':
        args = ({},)
    else:
        args = ()
    try:
        with common.time_limit(CALL_LIMIT_S):
            if route == 'dict':
                return ('ok', emmet.expand(abbr, conf, *args))
            if route == 'config-object':
                return ('ok', emmet.expand(abbr, Config(conf, *args)))
            return ('ok', emmet.expand_stylesheet(abbr, Config(conf, *args)))
    except common.Hang:
        return ('hang', CALL_LIMIT_S)
    except Exception as e:
        return su.classify_exc(e, len(abbr))


# ------------------------------------------------------------------ call sequences
SESSION_KINDS = ('config-object', 'shared-cache', 'config-object-no-cache')


class Session:
    """One way of calling the library repeatedly.
       config-object          : ONE emmet.Config built from the first configuration (with a `cache` dict), handed to every call
       config-object-no-cache : the same without a cache
       shared-cache           : every call builds its own config dict (syntax / scope / callback / user table may differ);
                                all of them carry the same `cache` dict"""

    def __init__(self, kind, base_cfg):
        self.kind = kind
        self.cache = None if kind == 'config-object-no-cache' else {}
        self.obj = None
        if kind != 'shared-cache':
            from emmet.config import Config
            conf = base_cfg.impl_config()
            if self.cache is not None:
                conf['cache'] = self.cache
            self.obj = Config(conf)

    def call(self, abbr, cfg):
        from emmet import expand
        if self.obj is not None:
            target = self.obj
        else:
            target = cfg.impl_config()
            target['cache'] = self.cache
        try:
            with common.time_limit(CALL_LIMIT_S):
                return ('ok', expand(abbr, target))
        except common.Hang:
            return ('hang', CALL_LIMIT_S)
        except Exception as e:
            return su.classify_exc(e, len(abbr))


def run_sequence(kind, base_cfg, before, abbr, cfg):
    """a fresh session: the calls of `before` [(abbr, Cfg)] in order (their outcomes do not matter), then the call"""
    s = Session(kind, base_cfg)
    for a, c in before:
        s.call(a, c)
    return s.call(abbr, cfg)


def minimise(before, fails, max_trials=120):
    """complement-only delta debugging: a sub-list of `before` (order kept) on which fails(sub-list) still holds"""
    trials = 0
    n = 2
    cur = list(before)
    while len(cur) >= 1 and trials < max_trials:
        chunk = max(1, -(-len(cur) // n))
        reduced = False
        for i in range(0, len(cur), chunk):
            cand = cur[:i] + cur[i + chunk:]
            trials += 1
            if fails(cand):
                cur = cand
                n = max(n - 1, 2)
                reduced = True
                break
            if trials >= max_trials:
                break
        if not reduced:
            if chunk == 1:
                break
            n = min(n * 2, len(cur))
    return cur


# -- what a user types after a key (read from the raw snippet strings only)
UNITS = ['', '', 'px', 'em', 'p', 'e', 'x', 'rem', '%', 'deg', 'fr', 's']
ARG_WORDS = ['a', 'top', 'left', 'x', 'img', 'title', 'auto', 'foo', 'none', 'center', 'to']
OTHER_FNS = ['f', 'var', 'calc', 'rgb', 'zz']
MALFORMED_TAILS = [':(', ':r(1', ':"x', ":'", ':)', ':{', ':#', '::', ':é', '-(', '(', ':a(b(c)', '+', ':1..2', ':$', ':@', ':!', '!!', ':,']


def rand_number(rng):
    n = rng.choice(['0', '1', '2', '3', '4', '5', '10', '12', '45', '100', '1.5', '.5', '-1', '-10', '0.25'])
    return n + rng.choice(UNITS)


def rand_color(rng):
    return '#' + rng.choice(['f', 'fc0', '0', 'ff0000', 'a', 'e5e5e5', 'c.5', 'fff.3', 't'])


def rand_args(rng, depth=0):
    """the text between the parentheses of a call typed by the user: 1-4 arguments of 1-3 tokens"""
    args = []
    for _ in range(rng.randint(1, 4)):
        toks = []
        for _ in range(rng.randint(1, 3) if rng.random() < 0.4 else 1):
            r = rng.random()
            if r < 0.45:
                toks.append(rand_number(rng))
            elif r < 0.7:
                toks.append(rng.choice(ARG_WORDS))
            elif r < 0.8:
                toks.append(rand_color(rng))
            elif r < 0.9:
                toks.append(rng.choice(['"s"', "'a b'", '"img/a.png"']))
            elif depth == 0:
                toks.append(rng.choice(OTHER_FNS) + '(' + rand_args(rng, 1) + ')')
            else:
                toks.append(rng.choice(ARG_WORDS))
        args.append(' '.join(toks))
    return rng.choice([', ', ',', ' ']).join(args) if len(args) > 1 else args[0]


def recase(rng, w):
    r = rng.random()
    if r < 0.6:
        return w
    if r < 0.75:
        return w.upper()
    return ''.join(c.upper() if rng.random() < 0.5 else c for c in w)


def fn_call_typed(rng, key, name):
    """`key` + connector + a prefix of / the whole function keyword `name` + explicit arguments"""
    r = rng.random()
    if r < 0.35:
        typed = name
    elif r < 0.7:
        typed = name[:rng.randint(1, len(name))]
    elif r < 0.85:
        typed = name[0]
    else:
        typed = recase(rng, name)
    return key + rng.choice([':', ':', '-', '']) + typed + '(' + rand_args(rng) + ')'


def typed_values(rng, key, keywords, want=None):
    """ONE abbreviation that types something after `key`.  keywords: [(name, is_function)] listed by the key's snippet
    (possibly empty; a raw snippet has none).  -> (abbreviation, class name).  `want` forces a class."""
    plain = [k for k, f in keywords if not f]
    fns = [k for k, f in keywords if f]
    classes = ['number', 'numbers', 'color', 'important', 'string', 'other-call', 'several-properties', 'malformed', 'bare-key']
    if plain:
        classes += ['keyword-prefix', 'keyword-prefix', 'keyword-full', 'keywords']
    if fns:
        classes += ['listed-call-with-arguments'] * 4
    cls = want or rng.choice(classes)
    conn = rng.choice([':', ':', '-', ''])
    if cls == 'number':
        return key + rng.choice(['', ':', '-']) + rand_number(rng), cls
    if cls == 'numbers':
        return key + rng.choice(['', ':']) + '-'.join(rand_number(rng).lstrip('-') for _ in range(rng.randint(2, 4))), cls
    if cls == 'color':
        return key + rng.choice(['', ':']) + rand_color(rng), cls
    if cls == 'important':
        tail = rng.choice(plain)[:2] if plain and rng.random() < 0.5 else rand_number(rng)
        return key + ':' + tail + '!', cls
    if cls == 'string':
        return key + ':' + rng.choice(['"s"', "'a b'", '"x.png"']), cls
    if cls == 'other-call':
        return key + ':' + rng.choice(OTHER_FNS) + '(' + rand_args(rng) + ')', cls
    if cls == 'several-properties':
        a, _ = typed_values(rng, key, keywords, rng.choice([c for c in classes if c not in ('several-properties', 'malformed')]))
        b, _ = typed_values(rng, key, keywords, rng.choice([c for c in classes if c not in ('several-properties', 'malformed')]))
        return a + '+' + b, cls
    if cls == 'malformed':
        return key + rng.choice(MALFORMED_TAILS), cls
    if cls == 'bare-key':
        return key, cls
    if cls == 'keyword-prefix':
        w = rng.choice(plain)
        return key + conn + recase(rng, w[:rng.randint(1, max(1, len(w) - 1))]), cls
    if cls == 'keyword-full':
        return key + conn + recase(rng, rng.choice(plain)), cls
    if cls == 'keywords':
        ws = [rng.choice(plain + fns)[:rng.randint(1, 4)] for _ in range(rng.randint(2, 3))]
        return key + ':' + '-'.join(ws), cls
    return fn_call_typed(rng, key, rng.choice(fns)), 'listed-call-with-arguments'


def keyword_names(alternatives):
    """[(name, is_function)] of the words an alternative list writes outside quotes, tabstop numbers and the parentheses of
    a call -- a reading of the raw snippet string, for the generators only (the oracle has its own, stricter reader)"""
    out = []
    seen = set()
    for alt in alternatives:
        body = re.sub(r'"[^"]*"|\'[^\']*\'', lambda m: ' ' * len(m.group(0)), alt)
        for m in re.finditer(r'[A-Za-z_][A-Za-z0-9_-]*', body):
            pre = body[:m.start()]
            if pre.count('(') > pre.count(')') or pre.endswith('#') or pre.endswith('${') or re.search(r'\d$', pre):
                continue
            w = m.group(0)
            if w.lower() in seen:
                continue
            seen.add(w.lower())
            out.append((w, body[m.end():m.end() + 1] == '('))
    return out
