"""C17, CSS half -- get_css_section (with properties) and select_item_css select exactly the
rule, declaration, value and value-token ranges.

Library module: harness/props/c17.py (owned by the HTML half) calls run_css(ctx) and
replay_css(ctx, obj).

Obligations: coq/props/C17Css.v.  Tie: every generated stylesheet (same generator as C10,
plus bodies whose last declaration is terminated by the end of the body) goes through
emmet.action_utils at every position and through the extracted model.  Search: the ground
truth recorded by the generator (rules, declarations with name / value / value tokens /
before / after offsets) is the oracle."""
import json
import os

import common
import css_util as U

FUNCS = ('section', 'next', 'prev')


def load_corpus():
    d = os.path.join(common.VERIF, 'corpus', 'C17')
    out = []
    if os.path.isdir(d):
        for fn in sorted(os.listdir(d)):
            if fn.endswith('.json'):
                with open(os.path.join(d, fn)) as f:
                    o = json.load(f)
                if o.get('component') == 'css':
                    o['file'] = fn
                    out.append(o)
    return out


def oracle_doc(text, items, im):
    """first failing (pos, why, known_key) per function, over all positions; failures that
    belong to a listed finding class are kept apart (key != None)"""
    bad = {}
    for pos in range(-1, len(text) + 2):
        got = {f: im[f][pos + 1] for f in FUNCS}
        for f, why, key in U.c17_oracle(text, items, pos, got):
            k = (f, key)
            if k not in bad:
                bad[k] = (pos, why)
    return bad


def run_css(ctx):
    ok = ctx.build(['props/C17Css.vo', 'run/CssRun.vo'])
    if ok:
        ctx.obligations('props/C17Css.v')
    model = ctx.model('css') if ok else None
    quick = ctx.tier == 'quick'
    procs = 8 if quick else common.NPROC
    rule = ('CSS: corpus of past failures, then random rule trees rendered to text with recorded offsets (the C10 '
            'generator; in half of the sheets the last declaration of a body may be terminated by the end of the body); '
            'every position -1..len+1; get_css_section(properties=True) and select_item_css(next / previous) compared '
            'with the generator\'s record (rule ranges, declaration name / value / value-token ranges, before / after '
            'offsets) and with the extracted model. An evaluation is one (sheet, position); non-trivial when a section '
            'is found; distinct by (text, position).')
    ctx.cov['rule'] = (ctx.cov['rule'] + ' || ' if ctx.cov.get('rule') else '') + rule
    corpus = load_corpus()
    docs = [(c['text'], c['items']) for c in corpus]
    rng = ctx.rng
    for _ in range(260 if quick else 5000):
        r = rng.random()
        semis = rng.random() < 0.4
        if r < 0.55:
            docs.append(U.gen_sheet(rng, ctx.cover, semis, max_depth=2, n_max=2))
        elif r < 0.92 or quick:
            docs.append(U.gen_sheet(rng, ctx.cover, semis, max_depth=3, n_max=3))
        else:
            docs.append(U.gen_sheet(rng, ctx.cover, semis, max_depth=4, n_max=4))
    texts = [t for t, _ in docs]
    impls = U.impl_docs(texts, FUNCS, procs)
    failures = []
    for i, ((text, items), im) in enumerate(zip(docs, impls)):
        for pos in range(-1, len(text) + 2):
            ctx.count_eval()
            sec = im['section'][pos + 1]
            if sec is not None:
                ctx.nontrivial((text, pos))
                ctx.cover('css-pos:in-section')
                if isinstance(sec, tuple) and len(sec) == 5 and sec[4]:
                    ctx.cover('css-pos:section-with-properties')
            else:
                ctx.cover('css-pos:no-section')
        for (f, key), (pos, why) in oracle_doc(text, items, im).items():
            failures.append((0 if key else 1, len(text), i, f, key, pos, why))
        if len(corpus) <= i < len(corpus) + 2:
            ctx.sample({'css_text': text, 'section@%d' % (len(text) // 2): repr(im['section'][len(text) // 2 + 1])[:300]})
    failures.sort()
    seen = {}
    for _, ln, i, f, key, pos, why in failures:
        if seen.get((f, key), 0) >= (1 if key else 3):
            continue
        seen[(f, key)] = seen.get((f, key), 0) + 1
        text, items = docs[i]
        ctx.property_failure(key or 'c17css:%s:%s@%d' % (f, text, pos), 'css %s on %s: %s' % (f, U.short(text), why),
                             {'component': 'css', 'check': 'c17', 'text': text, 'items': items, 'pos': pos,
                              'func': f, 'why': why})
    ctx.cov['css_oracle'] = {'sheets': len(docs),
                             'failing_sheets': len({i for _, _, i, _, k, _, _ in failures if not k}),
                             'sheets_in_listed_finding_class': len({i for _, _, i, _, k, _, _ in failures if k})}
    if model is not None:
        models = U.model_docs(model, texts)
        dis = 0
        for (text, items), im, mo in zip(docs, impls, models):
            d = U.compare(im, mo, FUNCS)
            if d:
                dis += 1
                if dis <= 5:
                    f, idx = d[0]
                    a = im['events'] if f == 'events' else im[f][idx]
                    b = mo['events'] if f == 'events' else mo[f][idx]
                    ctx.say('DISAGREE css %s on %s pos %s\n  impl  %r\n  model %r' % (
                        f, U.short(text), None if idx is None else idx - 1, a, b))
                    if not any(k is None for (_, k) in oracle_doc(text, items, im)):
                        ctx.broken.append({'kind': 'correspondence', 'file': 'css-actions:' + f, 'input': text,
                                           'pos': None if idx is None else idx - 1,
                                           'impl': repr(a)[:300], 'model': repr(b)[:300]})
        ctx.cov['correspondence']['css_actions'] = {'sheets': len(docs), 'positions': sum(len(t) + 3 for t in texts),
                                                    'disagreements': dis}


def replay_css(ctx, obj):
    rp = obj.get('replay', {})
    text = rp.get('text')
    if text is None or rp.get('items') is None:
        print('replay names a broken obligation, no input: %s' % json.dumps(rp)[:500])
        return 1
    im = U.impl_doc(text, FUNCS)
    bad = oracle_doc(text, rp['items'], im)
    if bad:
        for (f, key), (pos, why) in sorted(bad.items(), key=lambda kv: str(kv[0])):
            print('input %r: %s%s' % (text, why, ' [listed finding %s]' % key if key else ''))
        return 1
    print('input %r: property holds at every position' % (text,))
    return 0
