"""C17, CSS half -- get_css_section (with properties) and select_item_css select exactly the
rule, declaration, value and value-token ranges.

Library module: harness/props/c17.py (owned by the HTML half) calls run_css(ctx) and
replay_css(ctx, obj).

Obligations: coq/props/C17Css.v.  Tie: every generated stylesheet (same generator as C10,
plus bodies whose last declaration is terminated by the end of the body) goes through
emmet.action_utils at every position and through the extracted model.  Search: the ground
truth recorded by the generator (rules, declarations with name / value / value tokens /
before / after offsets) is the oracle.

Declarations WITHOUT a value (`name:;`, `name: ;`, `name: /* c */ ;` -- a declaration being
typed) come from a second stream (gen_sheet_ev below): the shared generator always writes at
least one value atom.  For such a declaration the statement fixes name, before and after, an
empty value range and no value tokens, but not WHERE between the colon and the terminator the
empty range sits; the oracle therefore takes that one offset from the implementation's own
answer (select-next asked from inside the name must select the value part of that
declaration), admits it only when colon < offset <= terminator, and then demands every
observation at every position to agree with the record completed by that offset.

The same stream writes the third way a body can end: `name:` + blanks / comments up to the closing
brace (neither value nor `;`, EMPTY_VALUE_AT_BODY_END).  It is a declaration terminated by the end of
the body: name and before as recorded, an empty value range admitted when colon < offset <= closing
brace, no value tokens, after = that offset (a declaration without `;` ends with its value).  Bodies
ending with a bare name (`a { b:c; color }`, `a { b:c; color; }`: no colon, not a declaration, not
recorded) check that get_css_section lists declarations only."""
import json
import os

import common
import css_util as U

FUNCS = ('section', 'next', 'prev')


def load_corpus():
    d = os.path.join(common.VERIF, 'corpus', 'C17')
    out = []
    if os.path.isdir(d):
        for fn in sorted(os.listdir(d)):
            if fn.endswith('.json'):
                with open(os.path.join(d, fn)) as f:
                    o = json.load(f)
                if o.get('component') == 'css':
                    o['file'] = fn
                    out.append(o)
    return out


# ------------------------------------------------------------------ declarations without a value
# `name:` + blanks / comments up to the closing brace (no value AND no `;`): a declaration terminated by the
# end of the body, so the statement wants it reported like `name:;` (name, before, after, empty value range
# between colon and end of body, no value tokens).  get_css_section() used to drop it (repaired, see
# known_findings.d/c17empty.json); select_item_css() always treated both forms alike.
EMPTY_VALUE_AT_BODY_END = True

EMPTY_FILL = ['', '', '', ' ', ' ', '  ', '\n', '\n    ', '\t', '\r\n', '\xa0']
STRAY = [';', ';', ';;', '; ;', ';\n;']


def gen_empty_decl(rng, o, cover, terminated=True):
    """`name [blank] : [blanks / comments] ;` -- no value atom.  vstart / vend stay None in the
    record (completed by complete_empty); tokens == []."""
    d = {'t': 'decl', 'empty': True}
    name = rng.choice(U.NAMES)
    d['start'] = o.pos
    o.w(name)
    d['name_end'] = o.pos
    if rng.random() < 0.15:
        o.w(U.rnd_ws(rng, False))
    d['colon'] = o.pos
    o.w(':')
    fill = rng.choice(EMPTY_FILL)
    if rng.random() < 0.25:
        fill += rng.choice(U.COMMENTS) + rng.choice(EMPTY_FILL)
        cover('gen:empty-value:comment-before-terminator')
    elif fill:
        cover('gen:empty-value:blank-before-terminator')
    else:
        cover('gen:empty-value:terminator-directly-after-colon')
    o.w(fill)
    d['vstart'] = d['vend'] = None
    d['tokens'] = []
    if terminated:
        d['semi'] = o.pos
        o.w(';')
        d['end'] = o.pos
    else:
        d['semi'] = None
        d['end'] = o.pos
        cover('gen:empty-value:terminated-by-body-end')
    return d


def gen_items_ev(rng, o, cover, depth, max_depth, n_max, semis, top, p_empty, p_stray, p_bare=0.0, parent=None):
    """U.gen_items with two more alternatives: a declaration without a value, and stray `;`
    (empty statements) wherever a declaration could start.  p_bare: a body may end with a bare
    name (no colon: `a { b:c; color }`, `a { b:c; color; }`), which is NOT a declaration and is not
    recorded; the enclosing rule is marked 'bare_tail'."""
    items = []
    n = rng.randint(1, n_max)
    for i in range(n):
        o.w(U.rnd_gap(rng, cover))
        if rng.random() < p_stray and (not items or items[-1]['t'] == 'rule' or items[-1]['semi'] is not None):
            o.w(rng.choice(STRAY) + U.rnd_ws(rng))
            cover('gen:stray-semicolon')
        last = i == n - 1
        if depth < max_depth and rng.random() < (0.6 if top else 0.25):
            r = {'t': 'rule'}
            r['start'], r['sel_end'] = U.gen_selector(rng, o, cover)
            o.w(U.rnd_ws(rng))
            r['brace'] = o.pos
            o.w('{')
            r['children'] = gen_items_ev(rng, o, cover, depth + 1, max_depth, n_max, semis, False, p_empty, p_stray,
                                         p_bare, r)
            r['close'] = o.pos
            o.w('}')
            r['end'] = o.pos
            items.append(r)
            continue
        term = True
        if not semis and last and not top and rng.random() < 0.5:
            term = False
        if rng.random() < p_empty and (term or EMPTY_VALUE_AT_BODY_END):
            d = gen_empty_decl(rng, o, cover, term)
            cover('gen:empty-value:' + ('top-level' if top else 'first-in-body' if not items else 'after-%s' % (
                'rule' if items[-1]['t'] == 'rule' else 'empty-value declaration' if items[-1].get('empty')
                else 'declaration')))
            if last:
                cover('gen:empty-value:last-item')
            items.append(d)
        else:
            items.append(U.gen_decl(rng, o, cover, term))
    o.w(U.rnd_gap(rng, cover))
    if rng.random() < p_stray and (items[-1]['t'] == 'rule' or items[-1]['semi'] is not None):
        o.w(rng.choice(STRAY) + U.rnd_ws(rng))
        cover('gen:stray-semicolon')
    if parent is not None and rng.random() < p_bare and (items[-1]['t'] == 'rule' or items[-1]['semi'] is not None):
        o.w(rng.choice(U.NAMES) + rng.choice(['', '', ' ', '\n']))
        if rng.random() < 0.5:
            o.w(';' + U.rnd_ws(rng))
            cover('gen:bare-name-at-body-end:with-semicolon')
        else:
            cover('gen:bare-name-at-body-end:before-closing-brace')
        parent['bare_tail'] = True
    return items


def has_empty(items):
    return any(n['t'] == 'decl' and n.get('empty') for n in U.preorder(items))


def has_bare(items):
    return any(n['t'] == 'rule' and n.get('bare_tail') for n in U.preorder(items))


def gen_sheet_ev(rng, cover=lambda k: None, semis=True, max_depth=2, n_max=3):
    """A sheet with at least one declaration without a value (first / middle / last of a body,
    at the top level, before a nested rule, several in a row), stray semicolons now and then."""
    while True:
        o = U.Out()
        quiet = []
        items = gen_items_ev(rng, o, quiet.append, 0, max_depth, n_max, semis, True,
                             rng.choice([0.3, 0.5, 0.8]), rng.choice([0.0, 0.1, 0.3]), rng.choice([0.0, 0.0, 0.6]))
        if has_empty(items):
            for k in quiet:
                cover(k)
            return o.text(), items


def complete_empty(items, im, parent=None):
    """Copy of the record in which every declaration without a value has its empty value range:
    the start of what select-next returns one character into the name (the value part of that
    very declaration is the next item there), admitted when colon < offset <= terminator (`;`, or
    the closing brace of the parent for the guarded class); otherwise the terminator, so that
    the comparison fails and shows what came back."""
    out = []
    for n in items:
        n = dict(n)
        if n['t'] == 'rule':
            n['children'] = complete_empty(n['children'], im, n)
        elif n.get('empty') and n.get('vstart') is None:
            hi = n['semi'] if n['semi'] is not None else (parent['close'] if parent else n['end'])
            got = im['next'][n['start'] + 2]
            p = hi
            if isinstance(got, tuple) and len(got) == 3 and isinstance(got[0], int) \
                    and not isinstance(got[0], bool) and n['colon'] < got[0] <= hi:
                p = got[0]
            n['vstart'] = n['vend'] = p
            if n['semi'] is None:
                n['end'] = p
        out.append(n)
    return out


EMPTY_NOTE = (' [a declaration without a value: its empty value range may sit anywhere after the colon up to the '
              'terminator; the record uses the offset select-next reports from inside the name when that is admissible, '
              'the terminator otherwise]')


BARE_NOTE = (' [a body of this sheet ends with a bare name (no colon), which is not a declaration: get_css_section must not '
             'list it; select_item_css, about which the statement says nothing here, is not judged on this sheet]')


def oracle_doc(text, items, im):
    """first failing (pos, why, known_key) per function, over all positions; failures that
    belong to a listed finding class are kept apart (key != None)"""
    bad = {}
    note = ''
    bare = has_bare(items)
    if has_empty(items):
        items = complete_empty(items, im)
        note = EMPTY_NOTE
    if bare:
        note += BARE_NOTE
    for pos in range(-1, len(text) + 2):
        got = {f: im[f][pos + 1] for f in FUNCS}
        for f, why, key in U.c17_oracle(text, items, pos, got):
            if bare and f != 'section':
                continue
            k = (f, key)
            if k not in bad:
                bad[k] = (pos, why + note)
    return bad


def run_css(ctx):
    ok = ctx.build(['props/C17Css.vo', 'run/CssRun.vo'])
    if ok:
        ctx.obligations('props/C17Css.v')
    model = ctx.model('css') if ok else None
    quick = ctx.tier == 'quick'
    procs = 8 if quick else common.NPROC
    rule = ('CSS: corpus of past failures, then random rule trees rendered to text with recorded offsets (the C10 '
            'generator; in half of the sheets the last declaration of a body may be terminated by the end of the body); '
            'every position -1..len+1; get_css_section(properties=True) and select_item_css(next / previous) compared '
            'with the generator\'s record (rule ranges, declaration name / value / value-token ranges, before / after '
            'offsets) and with the extracted model. An evaluation is one (sheet, position); non-trivial when a section '
            'is found; distinct by (text, position). Second stream: sheets with declarations WITHOUT a value '
            '(`name:;`, blanks and / or comments between colon and `;`; first, middle, last of a body, at the top level, '
            'before a nested rule, several in a row) and stray `;` between items; for these the record fixes name, '
            'before, after, an empty value range and no value tokens, the offset of the empty range is taken from '
            'select-next asked one character into the name and admitted only when colon < offset <= terminator, then '
            'all three functions are compared at every position as for the first stream (and with the model). '
            'In the sheets of this stream without forced semicolons the last declaration of a body may also be `name:` + '
            'blanks / comments up to the closing brace (neither value nor `;`): the admitted offsets for its empty value '
            'are colon < offset <= closing brace, after = that offset. In a third of the sheets of this stream a body may '
            'end with a bare name without colon (`a { b:c; color }`, `a { b:c; color; }`): not a declaration, not in the '
            'record, so get_css_section must not list it; on these sheets only get_css_section is judged (and all three '
            'functions are compared with the model).')
    ctx.cov['rule'] = (ctx.cov['rule'] + ' || ' if ctx.cov.get('rule') else '') + rule
    corpus = load_corpus()
    docs = [(c['text'], c['items']) for c in corpus]
    rng = ctx.rng
    for _ in range(260 if quick else 5000):
        r = rng.random()
        semis = rng.random() < 0.4
        if r < 0.55:
            docs.append(U.gen_sheet(rng, ctx.cover, semis, max_depth=2, n_max=2))
        elif r < 0.92 or quick:
            docs.append(U.gen_sheet(rng, ctx.cover, semis, max_depth=3, n_max=3))
        else:
            docs.append(U.gen_sheet(rng, ctx.cover, semis, max_depth=4, n_max=4))
    for _ in range(90 if quick else 1500):
        docs.append(gen_sheet_ev(rng, ctx.cover, rng.random() < 0.5, max_depth=rng.choice([1, 2, 2, 3]),
                                 n_max=rng.choice([2, 3, 3, 4])))
    texts = [t for t, _ in docs]
    impls = U.impl_docs(texts, FUNCS, procs)
    failures = []
    for i, ((text, items), im) in enumerate(zip(docs, impls)):
        for pos in range(-1, len(text) + 2):
            ctx.count_eval()
            sec = im['section'][pos + 1]
            if sec is not None:
                ctx.nontrivial((text, pos))
                ctx.cover('css-pos:in-section')
                if isinstance(sec, tuple) and len(sec) == 5 and sec[4]:
                    ctx.cover('css-pos:section-with-properties')
            else:
                ctx.cover('css-pos:no-section')
        for (f, key), (pos, why) in oracle_doc(text, items, im).items():
            failures.append((0 if key else 1, len(text), i, f, key, pos, why))
        if len(corpus) <= i < len(corpus) + 2:
            ctx.sample({'css_text': text, 'section@%d' % (len(text) // 2): repr(im['section'][len(text) // 2 + 1])[:300]})
    failures.sort()
    seen = {}
    for _, ln, i, f, key, pos, why in failures:
        if seen.get((f, key), 0) >= (1 if key else 3):
            continue
        seen[(f, key)] = seen.get((f, key), 0) + 1
        text, items = docs[i]
        ctx.property_failure(key or 'c17css:%s:%s@%d' % (f, text, pos), 'css %s on %s: %s' % (f, U.short(text), why),
                             {'component': 'css', 'check': 'c17', 'text': text, 'items': items, 'pos': pos,
                              'func': f, 'why': why})
    ctx.cov['css_oracle'] = {'sheets': len(docs),
                             'failing_sheets': len({i for _, _, i, _, k, _, _ in failures if not k}),
                             'sheets_in_listed_finding_class': len({i for _, _, i, _, k, _, _ in failures if k})}
    if model is not None:
        models = U.model_docs(model, texts)
        dis = 0
        for (text, items), im, mo in zip(docs, impls, models):
            d = U.compare(im, mo, FUNCS)
            if d:
                dis += 1
                if dis <= 5:
                    f, idx = d[0]
                    a = im['events'] if f == 'events' else im[f][idx]
                    b = mo['events'] if f == 'events' else mo[f][idx]
                    ctx.say('DISAGREE css %s on %s pos %s\n  impl  %r\n  model %r' % (
                        f, U.short(text), None if idx is None else idx - 1, a, b))
                    if not any(k is None for (_, k) in oracle_doc(text, items, im)):
                        ctx.broken.append({'kind': 'correspondence', 'file': 'css-actions:' + f, 'input': text,
                                           'pos': None if idx is None else idx - 1,
                                           'impl': repr(a)[:300], 'model': repr(b)[:300]})
        ctx.cov['correspondence']['css_actions'] = {'sheets': len(docs), 'positions': sum(len(t) + 3 for t in texts),
                                                    'disagreements': dis}


def replay_css(ctx, obj):
    rp = obj.get('replay', {})
    text = rp.get('text')
    if text is None or rp.get('items') is None:
        print('replay names a broken obligation, no input: %s' % json.dumps(rp)[:500])
        return 1
    # The property speaks about every (document, position) whatever was asked before: the check meets a
    # document after many other calls in the same process, a replay starts in a fresh one.  So the document is
    # evaluated twice in this process (all positions, then all positions again): what a call leaves behind for
    # the next one shows in the second pass.
    # A failure of a class listed in known_findings.json is reported by the check as KNOWN-FINDING, never as
    # a VIOLATION, so it does not make a replay fail either (a sheet with a brace-terminated declaration
    # would otherwise "fail" on the unchanged library as well).
    any_listed = False
    for pass_no in (1, 2):
        im = U.impl_doc(text, FUNCS)
        bad = oracle_doc(text, rp['items'], im)
        failing = 0
        for (f, key), (pos, why) in sorted(bad.items(), key=lambda kv: str(kv[0])):
            listed = key is not None and ctx.match_known(key) is not None
            failing += 0 if listed else 1
            any_listed = any_listed or listed
            if not listed or pass_no == 1:
                print('input %r%s: %s%s' % (text, ' (second evaluation in the same process)' if pass_no == 2 else '', why,
                                            ' [listed finding %s, not counted]' % key if listed else ''))
        if failing:
            return 1
    print('input %r: property holds at every position, evaluated twice in a row%s'
          % (text, ' (listed findings apart)' if any_listed else ''))
    return 0
