"""C10 Level B tie: reads a generated stylesheet (text + the generator's record) as a sheet of
the grammar of coq/model/CssSheet.v, encodes it for the extracted grammar (coq/run/SheetRun.v)
and decodes the answer (wf_sheet, render, events).

The reading is a plain lexer over the pieces the record delimits (gaps between items, selector,
name, value); it decides nothing about validity -- `wf_sheet` of the extracted grammar does.  A
text the grammar cannot express at all (a delimiter inside parentheses, an unterminated string,
a declaration without `;`) raises Outside(reason)."""
from common import Reader, enc_str

SPACE = ' \t\xa0\n\r'
SPECIAL = SPACE + '"\'{};:()/'


class Outside(Exception):
    pass


def lex(s):
    """lexemes of one piece of text: ('gap', ('ws', c) | ('com', body)), ('ch', c), ('str', q, bits),
    ('open',), ('close',), ('colon',), ('pseudo', k, c), ('slash',), and ('delim',) for a single
    colon outside parentheses"""
    out = []
    i, n, depth = 0, len(s), 0
    while i < n:
        c = s[i]
        if s.startswith('/*', i):
            j = s.find('*/', i + 2)
            if j < 0:
                raise Outside('unterminated-comment')
            out.append(('gap', ('com', s[i + 2:j])))
            i = j + 2
        elif c in SPACE:
            out.append(('gap', ('ws', c)))
            i += 1
        elif c in '"\'':
            j, bits = i + 1, []
            while True:
                if j >= n:
                    raise Outside('unterminated-string')
                d = s[j]
                if d == c:
                    break
                if d in '\n\r':
                    raise Outside('string-broken-by-newline')
                if d == '\\':
                    if j + 1 >= n:
                        raise Outside('unterminated-string')
                    bits.append(('e', s[j + 1]))
                    j += 2
                else:
                    bits.append(('c', d))
                    j += 1
            out.append(('str', c, bits))
            i = j + 1
        elif c == '(':
            out.append(('open',))
            depth += 1
            i += 1
        elif c == ')':
            out.append(('close',))
            depth -= 1
            i += 1
        elif c == ':':
            if depth != 0:
                out.append(('colon',))
                i += 1
            else:
                j = i
                while j < n and s[j] == ':':
                    j += 1
                if j - i == 1:
                    out.append(('delim',))
                    i += 1
                elif j < n and s[j] not in SPECIAL:
                    out.append(('pseudo', j - i - 2, s[j]))
                    i = j + 1
                else:
                    raise Outside('colons-not-followed-by-a-plain-character')
        elif c == '/':
            out.append(('slash',))
            i += 1
        elif c in '{};':
            raise Outside('delimiter-inside-parentheses' if depth else 'delimiter-inside-run')
        else:
            out.append(('ch', c))
            i += 1
    return out


def as_gap(s):
    ls = lex(s)
    if any(l[0] != 'gap' for l in ls):
        raise Outside('token-between-items')
    return [l[1] for l in ls]


def as_run(s):
    ls = lex(s)
    if any(l[0] == 'delim' for l in ls):
        raise Outside('single-colon-in-name-or-value')
    return ls


def _strip(ls):
    """(leading gaps, middle, trailing gaps)"""
    a = 0
    while a < len(ls) and ls[a][0] == 'gap':
        a += 1
    b = len(ls)
    while b > a and ls[b - 1][0] == 'gap':
        b -= 1
    return [l[1] for l in ls[:a]], ls[a:b], [l[1] for l in ls[b:]]


def as_selector(s):
    groups = [[]]
    for l in lex(s):
        if l[0] == 'delim':
            groups.append([])
        else:
            groups[-1].append(l)
    lead = None
    if not groups[0] and len(groups) > 1:
        pre, first, post = _strip(groups[1])
        lead = pre
        rest = groups[2:]
    else:
        pre, first, post = _strip(groups[0])
        if pre:
            raise Outside('selector-record-starts-with-a-gap')
        rest = groups[1:]
    more = []
    for g in rest:
        g1 = post
        g2, run, post = _strip(g)
        more.append((g1, g2, run))
    if post:
        raise Outside('selector-record-ends-with-a-gap')
    return (lead, first, more)


def build_items(text, items, lo, hi):
    """([item...], tail gap) for the items recorded between lo and hi"""
    out = []
    cur = lo
    for it in items:
        if it['t'] == 'decl':
            if it.get('semi') is None:
                raise Outside('declaration-without-semicolon')
            if it.get('empty'):
                # the grammar of the Level B theorems has no value-less declaration (a value is a non-empty run)
                raise Outside('declaration-with-empty-value')
            out.append(('decl', as_gap(text[cur:it['start']]), as_run(text[it['start']:it['name_end']]),
                        as_gap(text[it['name_end']:it['colon']]), as_gap(text[it['colon'] + 1:it['vstart']]),
                        as_run(text[it['vstart']:it['vend']]), as_gap(text[it['vend']:it['semi']])))
            cur = it['semi'] + 1
        else:
            g1 = as_gap(text[cur:it['start']])
            sel = as_selector(text[it['start']:it['sel_end']])
            g2 = as_gap(text[it['sel_end']:it['brace']])
            body, g3 = build_items(text, it['children'], it['brace'] + 1, it['close'])
            out.append(('rule', g1, sel, g2, body, g3))
            cur = it['close'] + 1
    return out, as_gap(text[cur:hi])


def build_sheet(text, items):
    return build_items(text, items, 0, len(text))


# ------------------------------------------------------------------ wire (mirror of coq/run/SheetRun.v)
def enc_glex(g):
    return [0, ord(g[1])] if g[0] == 'ws' else [1] + enc_str(g[1])


def enc_gap(g):
    out = [len(g)]
    for x in g:
        out += enc_glex(x)
    return out


def enc_lex(l):
    k = l[0]
    if k == 'ch':
        return [0, ord(l[1])]
    if k == 'str':
        out = [1, ord(l[1]), len(l[2])]
        for b in l[2]:
            out += [0 if b[0] == 'c' else 1, ord(b[1])]
        return out
    if k == 'open':
        return [2]
    if k == 'close':
        return [3]
    if k == 'colon':
        return [4]
    if k == 'pseudo':
        return [5, l[1], ord(l[2])]
    if k == 'slash':
        return [6]
    if k == 'gap':
        return [7] + enc_glex(l[1])
    raise ValueError(l)


def enc_run(r):
    out = [len(r)]
    for l in r:
        out += enc_lex(l)
    return out


def enc_sel(s):
    lead, first, more = s
    out = [0] if lead is None else [1] + enc_gap(lead)
    out += enc_run(first) + [len(more)]
    for g1, g2, r in more:
        out += enc_gap(g1) + enc_gap(g2) + enc_run(r)
    return out


def enc_item(it):
    if it[0] == 'decl':
        _, g1, n, g2, g3, v, g4 = it
        return [0] + enc_gap(g1) + enc_run(n) + enc_gap(g2) + enc_gap(g3) + enc_run(v) + enc_gap(g4)
    _, g1, sel, g2, body, g3 = it
    out = [1] + enc_gap(g1) + enc_sel(sel) + enc_gap(g2) + [len(body)]
    for b in body:
        out += enc_item(b)
    return out + enc_gap(g3)


def enc_sheet(sh):
    items, tail = sh
    out = [len(items)]
    for it in items:
        out += enc_item(it)
    return out + enc_gap(tail)


def decode(w):
    """(wf, text, events) or None for a malformed case"""
    if w == [-99]:
        return None
    r = Reader(w)
    wf = r.bool()
    text = ''.join(chr(r.int()) for _ in range(r.int()))
    evs = [(r.int(), r.int(), r.int(), r.int()) for _ in range(r.int())]
    if not r.done():
        raise RuntimeError('sheet model output not fully consumed')
    return wf, text, evs


def record_events(items):
    """the callbacks the generator's record denotes"""
    out = []
    for it in items:
        if it['t'] == 'decl':
            out.append((1, it['start'], it['name_end'], it['colon']))
            out.append((2, it['vstart'], it['vend'], it['semi']))
        else:
            out.append((0, it['start'], it['sel_end'], it['brace']))
            out += record_events(it['children'])
            out.append((3, it['close'], it['close'] + 1, it['close']))
    return out
