"""The oracle of random numbers for lorem text (see harness/lorem_util.py): a deterministic stream of RAW integers per case,
`patched(oracle)` binds emmet.markup.lorem.randint to it.  Shared by markup_util (every implementation run of the markup
checks goes through it, so that cases with lorem nodes are reproducible and comparable with the extracted model) and
lorem_util."""
import contextlib
import importlib
import json
import random
import re
import zlib

LOREM_MOD = 'emmet.markup.lorem'
DRAW_LIMIT = 300000


def _mod():
    return importlib.import_module(LOREM_MOD)        # `emmet.markup.lorem` the attribute is the function


class OracleLimit(Exception):
    pass


class Oracle:
    """Deterministic stream of raw draws.  Modes give different shapes of raw integers: wide (both signs), non-negative,
    small (many repeated indices: the rejection loop of sample() really rejects) and a mix."""
    MODES = ('wide', 'nonneg', 'small', 'mixed', 'mixed')

    def __init__(self, seed, limit=DRAW_LIMIT):
        self.rng = random.Random(seed)
        self.mode = self.rng.choice(self.MODES)
        self.limit = limit
        self.draws = []
        self.calls = []
        self.paragraphs = []

    def raw(self):
        m = self.mode
        if m == 'mixed':
            m = self.rng.choice(('wide', 'nonneg', 'small', 'small'))
        if m == 'wide':
            return self.rng.randrange(-2 ** 40, 2 ** 40)
        if m == 'nonneg':
            return self.rng.randrange(0, 2 ** 31)
        return self.rng.randrange(0, 70)

    def randint(self, a, b):
        if a > b:
            raise ValueError('empty range for randint(%r, %r)' % (a, b))
        if len(self.draws) >= self.limit:
            raise OracleLimit()
        d = self.raw()
        self.draws.append(d)
        self.calls.append((a, b))
        return a + d % (b - a + 1)


class FixedOracle(Oracle):
    """Replays a recorded list of raw draws (replay files)."""

    def __init__(self, draws):
        Oracle.__init__(self, 0)
        self.fixed = list(draws)

    def raw(self):
        if len(self.draws) >= len(self.fixed):
            raise OracleLimit()
        return self.fixed[len(self.draws)]


def vocab_key(db):
    for k, v in _mod().vocabularies.items():
        if v is db:
            return k
    return None


@contextlib.contextmanager
def patched(oracle):
    m = _mod()
    old_r, old_p = m.randint, m.paragraph

    def paragraph(db, word_count, start_with_common=False):
        n0 = len(oracle.draws)
        rec = {'db': vocab_key(db), 'wc': word_count, 'common': bool(start_with_common),
               'range': oracle.calls[n0 - 1] if n0 else None, 'first': n0, 'text': None}
        oracle.paragraphs.append(rec)
        rec['text'] = old_p(db, word_count, start_with_common)
        rec['last'] = len(oracle.draws)
        return rec['text']
    m.randint = oracle.randint
    m.paragraph = paragraph
    try:
        yield oracle
    finally:
        m.randint, m.paragraph = old_r, old_p


def seed_of(abbr, cfg):
    return zlib.crc32((abbr + '\0' + json.dumps(cfg, sort_keys=True, default=str)).encode('utf-8', 'surrogatepass'))


def raw_stream(seed, n):
    """The first n raw draws of Oracle(seed): the raw stream does not depend on the randint calls made."""
    o = Oracle(seed)
    return [o.raw() for _ in range(n)]


RE_LOREM_LIKE = re.compile(r'l.*o.*r.*e.*m', re.I | re.S)
MODEL_DRAWS = 4000


def lorem_like(abbr, user_config):
    """Conservative: could a node name match the lorem header (also when assembled by escapes, snippets, variables)?"""
    if RE_LOREM_LIKE.search(abbr):
        return True
    for part in ('snippets', 'variables'):
        d = user_config.get(part) or {}
        if isinstance(d, dict):
            for k, v in d.items():
                if isinstance(v, str) and RE_LOREM_LIKE.search(v) or isinstance(k, str) and RE_LOREM_LIKE.search(k):
                    return True
    return False


def model_draws(abbr, user_config):
    """The draws handed to the extracted model for a case run under Oracle(seed_of(abbr, cfg)): a prefix of the raw stream
    long enough for every case the checks generate (the model reports OutOfFuel when it is not), none for cases that cannot
    contain a lorem node."""
    return raw_stream(seed_of(abbr, user_config), MODEL_DRAWS) if lorem_like(abbr, user_config) else []


