"""C04: the abbreviation tree (emmet.abbreviation.parse = tokenize + parse + convert) as a canonical
nested tuple, from the implementation and from the extracted model (coq/run/TextRun.v)."""
from common import enc_str, enc_bool, enc_opt, enc_list, Reader
from markup_util import classify_exc, decode_res


def enc_case(abbr, text, max_repeat=None, jsx=False):
    if text is None:
        t = [0]
    elif isinstance(text, str):
        t = [1] + enc_str(text)
    else:
        t = [2] + enc_list(enc_str, list(text))
    return [1] + enc_bool(jsx) + t + enc_opt(lambda x: [x], max_repeat) + enc_str(abbr)


def _value(v):
    if v is None:
        return None
    out = []
    for x in v:
        if isinstance(x, str):
            out.append(('s', x))
        else:
            out.append(('f', x.index, x.name))
    return tuple(out)


VT = {'raw': 0, 'singleQuote': 1, 'doubleQuote': 2, 'expression': 3}


def _node(n):
    rp = None if n.repeat is None else (n.repeat.count, n.repeat.value, bool(n.repeat.implicit))
    attrs = None
    if n.attributes is not None:
        attrs = tuple((a.name, _value(a.value), VT.get(a.value_type, 9), bool(a.boolean), bool(a.implied), bool(a.multiple))
                      for a in n.attributes)
    return (n.name, _value(n.value), rp, attrs, bool(n.self_closing), tuple(_node(c) for c in n.children))


def impl_tree(abbr, text, max_repeat=None, jsx=False):
    from emmet.abbreviation import parse
    import copy
    try:
        r = parse(abbr, {'text': copy.deepcopy(text), 'variables': {}, 'max_repeat': max_repeat, 'jsx': jsx})
        return ('ok', tuple(_node(c) for c in r.children))
    except Exception as e:  # noqa
        return classify_exc(e)


def _dec_value(r):
    def one():
        if r.int() == 0:
            return ('s', r.str())
        i = r.int()
        return ('f', i, r.str())
    return tuple(r.list(one))


def _dec_node(r):
    name = r.opt(r.str)
    value = r.opt(lambda: _dec_value(r))
    rp = r.opt(lambda: (r.int(), r.int(), r.bool()))

    def attr():
        return (r.opt(r.str), r.opt(lambda: _dec_value(r)), r.int(), r.bool(), r.bool(), r.bool())
    attrs = r.opt(lambda: tuple(r.list(attr)))
    sc = r.bool()
    kids = tuple(_dec_node(r) for _ in range(r.int()))
    return (name, value, rp, attrs, sc, kids)


def decode_tree(w):
    return decode_res(w, lambda r: tuple(r.list(lambda: _dec_node(r))))


def find_text_values(tree):
    """All (name, value) pairs in document order (used by the tree-level oracle)."""
    out = []
    for n in tree:
        out.append((n[0], n[1]))
        out.extend(find_text_values(n[5]))
    return out
