"""C18, white space and line-break conventions in every position (markup and stylesheet tokenizers).

The statement quantifies over "all strings over the abbreviation alphabets of both languages".  White space belongs to
both alphabets (attributes are separated by it, text and quoted values contain it, stylesheet values are lists
separated by it), and an abbreviation that an editor extracts from a document carries the document's line-break
convention: LF (Unix), CR LF (Windows), CR (classic Mac), and mixtures after careless pasting.  The single-call streams
of c18.py / c18_css.py had blank, LF and NBSP (markup) resp. blank, LF and tab (stylesheet) only: no CR at all, hence
no CR LF pair, no tab in markup, no NBSP in stylesheets, and none of the other characters Unicode calls white space or
line separator (which the tokenizers must carry through as ordinary characters -- or reject with a position -- but never
lose).  This module adds that class:

  CORE      the five characters the abbreviation syntax documents as white space: blank, tab, NBSP, LF, CR
  RUNS      every run of 1..2 CORE characters, the runs of 3..4 that contain a CR LF pair next to something else,
            and single OTHER characters: the remaining str.isspace() characters of Unicode, the line/paragraph
            separators, NEL, zero width space, BOM, NUL
  sweep     every RUN inserted at EVERY position (leading, between any two characters, trailing) of every subject
            abbreviation (realistic abbreviations that have attributes, quotes, text, groups, repeaters, fields,
            escapes; stylesheet subjects in property and in value mode)
  multi     random subjects with random RUNS at 2..5 random positions at once (the same line-break convention
            throughout, or mixed)
  exhaustive  every string up to length 4 (quick) / 5 (thorough) over CORE + four structural characters
  random    strings over the full alphabet of the language extended with CORE, OTHER and the characters of the token
            syntax that the base alphabets lack; white space drawn with high weight, CR LF drawn as a unit

Nothing here knows what the tokenizers do with these characters: the cases go through the same tiling oracle (the
property as worded) and through the same model correspondence as the base streams (the Coq models take any code point;
their is_space is the five CORE characters).
"""
import itertools

NBSP = '\xa0'
CORE = [' ', '\t', NBSP, '\n', '\r']
# str.isspace() characters other than CORE, then separators / invisible characters that are not str.isspace()
OTHER = [chr(c) for c in (0x0b, 0x0c, 0x1c, 0x1d, 0x1e, 0x1f, 0x85, 0x1680, 0x2000, 0x2003, 0x2009, 0x200a, 0x2028, 0x2029,
                          0x202f, 0x205f, 0x3000, 0x200b, 0xfeff, 0x00)]
CRLF = '\r\n'


def runs():
    out = list(CORE)
    out += [a + b for a in CORE for b in CORE]
    out += [CRLF + c for c in CORE] + [c + CRLF for c in CORE]              # 3: the pair next to each core character
    out += [' ' + CRLF + ' ', CRLF + CRLF, '\n' + CRLF + '\r', '\r' + CRLF + '\n', '\t' + CRLF + '\t', CRLF + '  ']
    out += OTHER
    seen = set()
    res = []
    for r in out:
        if r not in seen:
            seen.add(r)
            res.append(r)
    return res


RUNS = runs()

# subjects of the sweep (harness data; a superset of the shapes of c18_seq.MARKUP_SUBJECTS relevant to white space)
MARKUP_WS_SUBJECTS = ['a[href="#" title="x"]', 'a[b=c d]', "td[title='a b' c.]", 'p{foo bar}', 'ul>li*3', '(a+b)*2>c', 'div#i.c',
                      'p{${1:x y}}', 'a[b=${1}]{t}', 'h$@-2*3', 'a\\ b', 'p>{x}+q', '"a"', 'a{b}*', 'x/']
CSS_WS_SUBJECTS = ['p10', 'm10 20', 'm10-20', 'bd1-s#fc0', 'c#f.5', 'lg(to right, #0, #f00.5)', 'p10!', 'ff"Arial", serif', "ff'a b'",
                   'p${1:a b}', 'p:10', 'm--gap', 'p10+m20', '@k10', 'a(b, c)d']

MARKUP_EX = CORE + ['a', '[', '"', '{']
CSS_EX = CORE + ['a', '1', '(', '"']

# characters of the token syntax missing from the base alphabets (c18.MARKUP_ALPHABET, c18_css.CSS_ALPHABET)
MARKUP_EXTRA = ['_', ',', ';', '&', '<', '|', '~', '?', '`']
CSS_EXTRA = ['=', ']', '>', '^', ';', '&', '<', '|', '~', '?', '`']


def insert_everywhere(subjects, run_list):
    for s in subjects:
        for i in range(len(s) + 1):
            for r in run_list:
                yield s[:i] + r + s[i:]


def multi_insert(rng, subjects, n):
    conventions = ['\n', CRLF, '\r', None, None]
    out = []
    for _ in range(n):
        s = rng.choice(subjects)
        conv = rng.choice(conventions)
        k = rng.randint(2, 5)
        pos = sorted((rng.randint(0, len(s)) for _ in range(k)), reverse=True)
        for p in pos:
            if conv is None:
                r = rng.choice(RUNS)
            else:
                r = rng.choice(['', ' ', '\t', '  ']) + conv + rng.choice(['', '', ' ', '\t', '    ', conv])
            s = s[:p] + r + s[p:]
        out.append(s)
    return out


def exhaustive(alpha, n):
    for k in range(1, n + 1):
        for tup in itertools.product(alpha, repeat=k):
            yield ''.join(tup)


def rand_strings(rng, base_alpha, extra, frags, n, maxlen):
    out = []
    wide = list(base_alpha) + list(extra) + OTHER
    for _ in range(n):
        p_ws = rng.choice([0.15, 0.3, 0.5])
        parts = []
        if rng.random() < 0.5:
            for _ in range(rng.randint(1, maxlen)):
                x = rng.random()
                if x < p_ws:
                    parts.append(CRLF if rng.random() < 0.3 else rng.choice(CORE))
                else:
                    parts.append(rng.choice(wide))
        else:
            for _ in range(rng.randint(1, 12)):
                if rng.random() < p_ws:
                    parts.append(rng.choice(RUNS))
                else:
                    parts.append(rng.choice(frags))
        out.append(''.join(parts))
    return out


def gen_markup_ws(ctx, tier, base_alpha, frags):
    """[str]: the white space class for the markup tokenizer."""
    quick = tier == 'quick'
    cases = list(insert_everywhere(MARKUP_WS_SUBJECTS, RUNS))
    cases += multi_insert(ctx.rng, MARKUP_WS_SUBJECTS, 1500 if quick else 30000)
    cases += list(exhaustive(MARKUP_EX, 4 if quick else 5))
    cases += rand_strings(ctx.rng, base_alpha, MARKUP_EXTRA, frags, 2500 if quick else 60000, 30 if quick else 60)
    return cases


def gen_css_ws(ctx, tier, base_alpha, frags):
    """[(str, is_value)]: the white space class for the stylesheet tokenizer, both modes."""
    quick = tier == 'quick'
    cases = []
    for s in insert_everywhere(CSS_WS_SUBJECTS, RUNS):
        cases.append((s, False))
        cases.append((s, True))
    rng = ctx.rng
    for s in multi_insert(rng, CSS_WS_SUBJECTS, 1500 if quick else 30000):
        cases.append((s, rng.random() < 0.5))
    for s in exhaustive(CSS_EX, 4 if quick else 5):
        cases.append((s, False))
        cases.append((s, True))
    for s in rand_strings(rng, base_alpha, CSS_EXTRA, frags, 2500 if quick else 60000, 30 if quick else 60):
        cases.append((s, rng.random() < 0.5))
    return cases


def classify(s):
    """Coverage buckets of one input: which white space kinds / line-break conventions it contains."""
    out = []
    if CRLF in s:
        out.append('crlf')
    t = s.replace(CRLF, '')
    if '\r' in t:
        out.append('lone-cr')
    if '\n' in t:
        out.append('lone-lf')
    if '\t' in s:
        out.append('tab')
    if NBSP in s:
        out.append('nbsp')
    if any(c in s for c in OTHER):
        out.append('other-unicode-space-or-separator')
    return out


def rule_text(tier, n_markup, n_css):
    n = 4 if tier == 'quick' else 5
    return ('white space class (c18_ws.py): %d markup + %d css inputs = every run of %d white space runs (all runs of 1..2 of '
            'blank/tab/NBSP/LF/CR, CR LF next to each of them, longer CR LF mixes, %d other Unicode space/separator/invisible '
            'characters) inserted at every position of %d markup / %d css subject abbreviations (css in both modes) + random '
            'multi-position inserts per line-break convention (LF, CR LF, CR, mixed) + exhaustive strings up to length %d over the five '
            'white space characters and four structural characters + random strings over the base alphabets extended with CR, '
            'tab, NBSP, CR LF as a unit and further punctuation; same oracle and same model correspondence as the base streams'
            ) % (n_markup, n_css, len(RUNS), len(OTHER), len(MARKUP_WS_SUBJECTS), len(CSS_WS_SUBJECTS), n)
