"""C03 helpers: attribute-mention generator, an independent Python statement of the merge and
output rules of the property, and an observer (tag-head parser) for emmet.expand output.

A *mention* is one written occurrence of an attribute on an element:
  {'name': str|None, 'value': str|None, 'vt': 'raw'|'q1'|'q2'|'expr', 'boolean': bool, 'implied': bool,
   'multiple': bool, 'text': <how it is written>, 'form': 'id'|'class'|'set'}
Nothing in this file imports the implementation's merge/format code."""
import copy

FM0, FM1, FM2 = '⟦', '⦂', '⟧'      # field marker: FM0 index FM1 placeholder FM2


def field_marker(index, placeholder, **kw):
    return '%s%d%s%s%s' % (FM0, index, FM1, placeholder, FM2)


# ---------------------------------------------------------------- the property, stated directly
def merge_spec(mentions, reverse):
    """Attributes of one element after merging, in order of first mention.
    class: values joined by single spaces in written order (flags of the first mention);
    other names: last value wins (first under reverseAttributes), position of the first mention,
    boolean/implied if any mention has it, expression if any mention is an expression, otherwise
    the value type of the last mention.  Nameless attributes are kept apart (never output)."""
    order = []
    groups = {}
    for m in mentions:
        if not m['name']:
            order.append((None, [m]))
            continue
        if m['name'] in groups:
            groups[m['name']].append(m)
        else:
            groups[m['name']] = [m]
            order.append((m['name'], groups[m['name']]))
    out = []
    for name, g in order:
        first, last = g[0], g[-1]
        if name is None:
            out.append(dict(first, exact=True))
            continue
        if name == 'class':
            vals = [m['value'] for m in g if m['value'] is not None]
            a = dict(first)
            if not vals:
                a['value'] = None
            else:
                a['value'] = ' '.join(vals)
            # an empty class mention among others: only the class words are claimed, not the spacing
            a['exact'] = all(v != '' for v in vals) or len(vals) <= 1
            out.append(a)
            continue
        a = dict(first)
        a['value'] = (first if reverse else last)['value']
        a['boolean'] = any(m['boolean'] for m in g)
        a['implied'] = any(m['implied'] for m in g)
        a['vt'] = 'expr' if any(m['vt'] == 'expr' for m in g) else last['vt']
        a['exact'] = True
        out.append(a)
    return out


def multi_get(table, key, multiple):
    if not table:
        return None
    v = table.get(key + '*') if multiple else None
    return v or table.get(key)


RESERVED = {'for', 'while', 'of', 'async', 'await', 'const', 'let', 'var', 'continue', 'break', 'debugger', 'do',
            'export', 'import', 'in', 'instanceof', 'new', 'return', 'switch', 'this', 'throw', 'try', 'catch',
            'typeof', 'void', 'with', 'yield'}


def is_ident(s):
    if not s or s in RESERVED:
        return False
    ok0 = 'abcdefghijklmnopqrstuvwxyzABCDEFGHIJKLMNOPQRSTUVWXYZ_$'
    return s[0] in ok0 and all(c in ok0 + '0123456789' for c in s[1:])


def attr_out_spec(a, opts):
    """One merged attribute -> None (not output) or (name, delimiter, value, exact):
    delimiter '"' | "'" | '{' | None (bare name); value str, or ('tabstop',) for an empty value."""
    if not a['name']:
        return None
    value = a['value'] or ''
    if a['implied'] and a['vt'] == 'raw' and not value:
        return None
    name = multi_get(opts.get('markup.attributes'), a['name'], a['multiple']) or a['name']
    case = opts.get('output.attributeCase')
    if case:
        name = name.upper() if case == 'upper' else name.lower()
    q = "'" if opts.get('output.attributeQuotes') == 'single' else '"'
    delim = '{' if a['vt'] == 'expr' else q
    prefix = multi_get(opts.get('markup.valuePrefix'), a['name'], a['multiple'])
    if prefix and value:
        if not a['exact']:
            return (name, '{' if opts.get('jsx.enabled') else delim, ('unclaimed',), False)
        value = ('%s.%s' if is_ident(value) else "%s['%s']") % (prefix, value)
        if opts.get('jsx.enabled'):
            delim = '{'
    is_bool = a['boolean'] or a['name'].lower() in (opts.get('output.booleanAttributes') or [])
    if not value:
        if is_bool:
            if not opts.get('output.compactBoolean'):
                return (name, delim, name, a['exact'])
            # compact form: bare name in HTML, name="" where a bare name is not well-formed
            if opts.get('output.selfClosingStyle') == 'html':
                return (name, None, '', a['exact'])
            return (name, delim, '', a['exact'])
        return (name, delim, ('tabstop',), a['exact'])
    return (name, delim, value, a['exact'])


def element_spec(mentions, opts):
    out = []
    for a in merge_spec(mentions, bool(opts.get('output.reverseAttributes'))):
        r = attr_out_spec(a, opts)
        if r is not None:
            out.append(r)
    return out


def render_attr(r, marker=False):
    name, delim, value, _ = r
    if delim is None:
        return ' ' + name
    close = '}' if delim == '{' else delim
    if isinstance(value, tuple):
        value = '%s0%s%s' % (FM0, FM1, FM2) if marker else ''
    return ' %s=%s%s%s' % (name, delim, value, close)


# ---------------------------------------------------------------- observer: tag heads of the output
NAME_CHARS = set('abcdefghijklmnopqrstuvwxyzABCDEFGHIJKLMNOPQRSTUVWXYZ0123456789:_-.!*$@')


def parse_tags(out):
    """[(tagname, [(name, delimiter, value)])] for every opening tag, in document order; None when a
    tag head is not of the form  <name( name(=delim value delim)?)*( ?/)?>  ."""
    tags = []
    i = 0
    n = len(out)
    while i < n:
        j = out.find('<', i)
        if j < 0:
            break
        if j + 1 < n and out[j + 1] == '/':
            i = j + 2
            continue
        k = j + 1
        while k < n and out[k] in NAME_CHARS:
            k += 1
        if k == j + 1:
            return None
        tag = out[j + 1:k]
        attrs = []
        while True:
            if out.startswith('>', k):
                k += 1
                break
            if out.startswith('/>', k):
                k += 2
                break
            if out.startswith(' />', k):
                k += 3
                break
            if not out.startswith(' ', k):
                return None
            k += 1
            s = k
            while k < n and out[k] in NAME_CHARS:
                k += 1
            if k == s:
                return None
            an = out[s:k]
            if out.startswith('=', k):
                d = out[k + 1:k + 2]
                if d not in ('"', "'", '{'):
                    return None
                e = out.find('}' if d == '{' else d, k + 2)
                if e < 0:
                    return None
                v = out[k + 2:e]
                if v.startswith(FM0) and v.endswith(FM2) and v.count(FM0) == 1:
                    body = v[1:-1].split(FM1, 1)
                    v = ('tabstop',) if body[1] == '' else v
                attrs.append((an, d, v))
                k = e + 1
            else:
                attrs.append((an, None, ''))
        tags.append((tag, attrs))
        i = k
    return tags


def compare_attrs(exp, got):
    """exp: element_spec output; got: parsed attrs.  None when equal, else a description."""
    if len(exp) != len(got):
        return 'expected %d attributes %r, output has %d: %r' % (len(exp), [e[:3] for e in exp], len(got), got)
    for e, g in zip(exp, got):
        if e[3]:
            if tuple(e[:3]) != tuple(g):
                return 'expected attribute %r, output has %r' % (e[:3], g)
        elif e[2] == ('unclaimed',):
            # an empty class mention together with a value prefix: only name and delimiter are claimed
            if e[0] != g[0] or e[1] != g[1]:
                return 'expected attribute %r, output has %r' % (e[:2], g)
        else:
            if e[0] != g[0] or e[1] != g[1] or isinstance(g[2], tuple) != isinstance(e[2], tuple):
                return 'expected attribute %r, output has %r' % (e[:3], g)
            if not isinstance(g[2], tuple) and g[2].split() != e[2].split():
                return 'expected class words %r, output has %r' % (e[2].split(), g[2])
    return None


# ---------------------------------------------------------------- generator
NAMES = ['a', 'b', 'c', 'class', 'id', 'title', 'disabled', 'checked', 'for', 'Data-X', 'x:y', 'data-k', 'Checked', 'k_1']
SAFE_UNQ = 'abcxyzABZ0189-_.:/#+,;%&~^|?'          # unquoted value characters
SAFE_Q = SAFE_UNQ + ' \t=()[]!*@'                   # quoted value characters (no quote, brace, angle, $, backslash, newline)
WORD = 'abcxyz019-_'


def rand_word(rng, alphabet, lo=1, hi=5):
    return ''.join(rng.choice(alphabet) for _ in range(rng.randint(lo, hi)))


def mention(name, value, vt, boolean=False, implied=False, multiple=False, text='', form='set'):
    return {'name': name, 'value': value, 'vt': vt, 'boolean': boolean, 'implied': implied,
            'multiple': multiple, 'text': text, 'form': form}


def rand_set_mention(rng, jsx=False):
    """One attribute inside [...]"""
    name = rng.choice(NAMES[:6]) if rng.random() < 0.6 else rng.choice(NAMES)
    k = rng.random()
    implied = rng.random() < 0.12
    boolean = rng.random() < 0.12
    wname = ('!' if implied else '') + name + ('.' if boolean else '')
    if k < 0.2:
        return mention(name, None, 'raw', boolean, implied, text=wname)
    if k < 0.25:
        return mention(name, None, 'raw', boolean, implied, text=wname + '=')
    if k < 0.45:
        v = rand_word(rng, SAFE_UNQ if rng.random() < 0.5 else WORD)
        # an unquoted value must not start like an expression/quote and `x.`-style names are kept apart
        return mention(name, v, 'raw', boolean, implied, text='%s=%s' % (wname, v))
    if k < 0.7:
        q = rng.choice('\'"')
        v = rand_word(rng, SAFE_Q if rng.random() < 0.6 else WORD, 0 if rng.random() < 0.25 else 1, 6)
        return mention(name, v, 'q1' if q == "'" else 'q2', boolean, implied, text='%s=%s%s%s' % (wname, q, v, q))
    if k < 0.85:
        v = rand_word(rng, SAFE_UNQ + ' ', 0 if rng.random() < 0.2 else 1, 5)
        return mention(name, v, 'expr', boolean, implied, text='%s={%s}' % (wname, v))
    if k < 0.9:
        q = rng.choice('\'"')
        v = rand_word(rng, WORD)
        return mention(None, v, 'q1' if q == "'" else 'q2', text='%s%s%s' % (q, v, q))
    v = rand_word(rng, WORD)
    return mention(name, v, 'raw', boolean, implied, text='%s=%s' % (wname, v))


def rand_mentions(rng, jsx=False, nmax=8):
    """Mentions of one element as a list of written chunks; returns (text, mentions)."""
    n = rng.choice([0, 1, 1, 2, 2, 3, 3, 4, 5, 6, 8][:nmax + 3])
    chunks = []
    mentions = []
    while len(mentions) < n:
        k = rng.random()
        if k < 0.22:
            v = rand_word(rng, WORD)
            if jsx and rng.random() < 0.3:
                mentions.append(mention('id', v, 'expr', text='#{%s}' % v, form='id'))
                chunks.append('#{%s}' % v)
            else:
                mentions.append(mention('id', v, 'raw', text='#' + v, form='id'))
                chunks.append('#' + v)
        elif k < 0.55:
            v = rand_word(rng, WORD)
            multiple = rng.random() < 0.15
            dots = '..' if multiple else '.'
            if jsx and rng.random() < 0.3:
                mentions.append(mention('class', v, 'expr', multiple=multiple, text=dots + '{%s}' % v, form='class'))
                chunks.append(dots + '{%s}' % v)
            else:
                mentions.append(mention('class', v, 'raw', multiple=multiple, text=dots + v, form='class'))
                chunks.append(dots + v)
        else:
            m = rng.randint(1, min(4, n - len(mentions)))
            ms = [rand_set_mention(rng, jsx) for _ in range(m)]
            seps = [rng.choice([' ', ' ', '  ', '\t']) for _ in ms]
            body = ''.join(x['text'] + s for x, s in zip(ms, seps)).rstrip(' \t') if rng.random() < 0.7 else \
                ' '.join(x['text'] for x in ms)
            mentions += ms
            chunks.append('[' + body + ']')
    return ''.join(chunks), mentions


# ---------------------------------------------------------------- tree tie: markup.parse vs the extracted model (run/AttrRun.v)
def impl_tree(abbr, user_config):
    """Preorder of emmet.markup.parse(abbr, Config): (depth, name, value, repeat, attrs, self_closing)."""
    import copy as _copy
    from emmet.config import Config
    from emmet.markup import parse
    from emmet.abbreviation.tokenizer.tokens import Field
    from markup_util import classify_exc

    def val(v):
        if v is None:
            return None
        out = []
        for t in v:
            if isinstance(t, str):
                out.append(('s', t))
            elif isinstance(t, Field):
                out.append(('f', t.index, t.name))
            else:
                out.append(('?', repr(t)))
        return out
    vts = {'raw': 0, 'singleQuote': 1, 'doubleQuote': 2, 'expression': 3}

    def attrs(l):
        if l is None:
            return None
        return [(a.name, val(a.value), vts.get(a.value_type, a.value_type), bool(a.boolean), bool(a.implied), bool(a.multiple))
                for a in l]
    import lorem_oracle as lo
    try:
        # lorem text under the deterministic oracle of the case (harness/lorem_oracle.py): the model gets the same draws
        with lo.patched(lo.Oracle(lo.seed_of(abbr, user_config))):
            tree = parse(abbr, Config(_copy.deepcopy(user_config)))
    except lo.OracleLimit:
        return ('recursion',)
    except Exception as e:  # noqa
        return classify_exc(e)
    out = []

    def walk(n, d):
        rp = n.repeat
        out.append((d, n.name, val(n.value), None if rp is None else (rp.count, rp.value, bool(rp.implicit)),
                    attrs(n.attributes), bool(n.self_closing)))
        for c in n.children:
            walk(c, d + 1)
    for c in tree.children:
        walk(c, 0)
    return ('ok', out)


def decode_tree(w):
    from markup_util import decode_res

    def vtok(r):
        return ('s', r.str()) if r.int() == 0 else ('f', r.int(), r.str())

    def attr(r):
        return (r.opt(r.str), r.opt(lambda: r.list(lambda: vtok(r))), r.int(), r.bool(), r.bool(), r.bool())

    def node(r):
        return (r.int(), r.opt(r.str), r.opt(lambda: r.list(lambda: vtok(r))),
                r.opt(lambda: (r.int(), r.int(), r.bool())), r.opt(lambda: r.list(lambda: attr(r))), r.bool())
    return decode_res(w, lambda r: r.list(lambda: node(r)))


def compare_trees(ctx, label, cases):
    """cases: [(abbr, cfg)].  Runs markup.parse and the extracted tree model; counts disagreements."""
    from common import enc_str
    from markup_util import enc_config, NotModelled, canon_cfg
    from lorem_oracle import model_draws
    model = ctx.model('attr')
    if model is None:
        return
    wires, idx, impl = [], [], []
    for k, (abbr, cfg) in enumerate(cases):
        try:
            w = [1] + enc_config(cfg, model_draws(abbr, cfg)) + enc_str(abbr)
        except NotModelled:
            continue
        wires.append(w)
        idx.append(k)
        impl.append(impl_tree(abbr, cfg))
    dis = 0
    if wires:
        for k, w, im in zip(idx, model.run(wires), impl):
            mo = decode_tree(w)
            if im[0] == 'recursion':
                continue
            if mo != im:
                dis += 1
                abbr, cfg = cases[k]
                if dis <= 5:
                    d = ''
                    if mo[0] == 'ok' and im[0] == 'ok':
                        for a, b in zip(mo[1], im[1]):
                            if a != b:
                                d = '\n  first difference: model %r\n                    impl  %r' % (a, b)
                                break
                    ctx.say('DISAGREE %s-tree %r cfg=%s%s' % (label, abbr, canon_cfg(cfg), d or '\n  impl %r\n  model %r' % (str(im)[:300], str(mo)[:300])))
                    ctx.broken.append({'kind': 'correspondence', 'file': 'markup-%s-tree' % label, 'input': abbr,
                                       'config': canon_cfg(cfg), 'impl': repr(im)[:300], 'model': repr(mo)[:300]})
    ctx.cov['correspondence']['markup_%s_tree' % label] = {'cases': len(wires), 'disagreements': dis}
