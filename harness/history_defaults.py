"""C08 generators for one further class of histories (used by harness/props/c08.py only).

DEFAULT VALUES OF STYLESHEET SNIPPETS AT THE NUMERIC BOUNDARIES, UNDER OPTIONS THAT REWRITE NUMBERS.

A stylesheet snippet `name: 'property:value'` carries a DEFAULT value that is written out when the abbreviation names
the snippet without a value of its own (`tz` -> `top: 0;`).  The parsed snippet table is what a shared `cache` dict
keeps between calls, and the options decide how the numbers of a value are written (stylesheet.unitAliases maps the
one-letter units p / x / e / r and any caller-defined alias, stylesheet.intUnit / floatUnit give unit-less integers and
floats a unit, stylesheet.unitless names properties that never get one, stylesheet.shortHex rewrites colours).  So the
default value of ONE cached snippet is written out under MANY option sets.  Explored here:

  * default values made of every shape of number at the boundaries: zero in every spelling (0, 0.0, -0, 00, .0), zero
    WITH a unit alias (0p, 0x, 0e, 0r, 0.0p, -0x), zero with a real unit (0px, 0%), non-zero integers and floats
    without unit, with a unit alias, with a real unit, negative, fraction without leading zero, large; next to
    keywords, colours, fields (with numeric placeholders), strings and function calls with numeric arguments; one
    token, several space-separated tokens, comma-separated lists, `|` alternatives (the first is the default);
  * the snippet named WITHOUT a value (the default is written), with `!`, in `+` chains, and with a typed value at the
    same boundaries (name0, name0p, name-0x, name0.0e, name1.5r, name10p) -- through one cache dict shared by
    configurations with EQUAL snippets and DIFFERING stylesheet.unitAliases / intUnit / floatUnit / unitless /
    shortHex / output.field, via the same dict, an equal copy, a Config object, without cache;
  * compact exhaustive part: per default value one snippet table and a fixed ring of option sets sharing one cache
    dict; every rotation of the ring (each option set is the FIRST caller of the cache once, every other one a later
    caller); random part: random tables, option sets and call sequences.

Nothing here is an expectation: the tables only steer the generators.  Every call is judged by history_util.oracle
(the same call alone in a pristine process, with a fresh cache dict and without cache; caller-owned dicts and Config
objects deep-equal before and after every call).  The option names and the one-letter unit aliases are the documented
ones (docs.emmet.io: "CSS abbreviations -> Values and units": p -> %, e -> em, x -> ex; py-emmet README options)."""
import json


def _copy(o):
    return json.loads(json.dumps(o))


# ---------------------------------------------------------------------- value tokens
ZERO_PLAIN = ['0', '0.0', '-0', '00', '.0', '0.00']
ZERO_ALIAS = ['0p', '0x', '0e', '0r', '0.0p', '-0x', '0.0e', '-0r']
ZERO_UNIT = ['0px', '0%', '0em', '0pt', '-0px']
NUM_PLAIN = ['1', '10', '-1', '1.5', '.5', '-2.5', '100', '1000000', '0.1', '-0.5']
NUM_ALIAS = ['10p', '1.5e', '2x', '3r', '-1p', '.5e', '100p', '0.1r', '-2x']
NUM_UNIT = ['10px', '1.5em', '50%', '2pt', '-3rem']
OTHER = ['auto', 'inherit', '#f', '#fc0', '#0', '${1:0}', '${1:0p}', '${2:10}', "'x'", 'none', 'a(0p, 10)', 'calc(0 1.5)', 'rect(0p 0x 1e 2r)']
NUMBERS = ZERO_PLAIN + ZERO_ALIAS + ZERO_UNIT + NUM_PLAIN + NUM_ALIAS + NUM_UNIT

# properties the default values are given to (unit-taking, unit-less by nature, shorthand with several values)
PROPS = ['top', 'margin', 'padding', 'width', 'background-position', 'line-height', 'z-index', 'opacity', 'border-width',
         'text-indent', 'flex', 'letter-spacing', 'foo-bar']
NAMES = ['tz', 'wf', 'bgpz', 'dv', 'dw', 'foo', 'xq', 'qz', 'm', 'p', 'lh', 'zz']

# option sets that decide how the numbers / colours / fields of a value are written
ALIAS_MAPS = [{'p': 'pt', 'x': 'px', 'e': 'em', 'r': 'rem'}, {'p': 'pc', 'e': 'ex', 'x': 'em'}, {'p': '%', 'x': 'ex'},
              {'r': 'vw', 'p': 'vh', 'q': 'Q'}, {'p': '', 'x': 'x'}, {}]
DV_OPTIONS = [None,
              {'stylesheet.unitAliases': ALIAS_MAPS[0]},
              {'stylesheet.unitAliases': ALIAS_MAPS[1], 'stylesheet.intUnit': 'pt', 'stylesheet.floatUnit': 'rem'},
              {'stylesheet.unitless': ['top', 'margin', 'width', 'background-position'], 'stylesheet.unitAliases': ALIAS_MAPS[3]},
              {'stylesheet.intUnit': 'mm', 'stylesheet.floatUnit': 'cm'},
              {'stylesheet.unitAliases': ALIAS_MAPS[2], 'stylesheet.shortHex': False},
              {'stylesheet.unitAliases': ALIAS_MAPS[4], 'stylesheet.intUnit': ''},
              {'stylesheet.unitAliases': ALIAS_MAPS[5], 'output.field': '@tabstop'},
              {'stylesheet.floatUnit': 'vw', 'stylesheet.unitless': ['foo-bar', 'padding']},
              {'output.field': '@tabstop', 'stylesheet.intUnit': 'pt'}]
# the fixed ring of the exhaustive part: default aliases, two other alias maps (one with other int / float units), unitless
RING = [DV_OPTIONS[0], DV_OPTIONS[1], DV_OPTIONS[2], DV_OPTIONS[3]]

# default values of the exhaustive part: every zero spelling alone, representatives of the other numbers, mixtures
PAIR_VALUES = (ZERO_PLAIN[:4] + ZERO_ALIAS + ZERO_UNIT[:2] + ['10', '1.5', '-1', '10p', '1.5e', '-2x', '10px'] +
               ['0p 0x', '0 10p', '10 0e', '0p|auto', 'auto|0x', '0r, 10p', '${1:0} 0p', '#f 0x 1.5', 'a(0p, 10) 0e', '0p 0p 0p 0p'])


def dv_dict(table, options=None, cache=0, syntax=None):
    d = {'type': 'stylesheet', 'snippets': _copy(table)}
    if options is not None:
        d['options'] = _copy(options)
    if syntax is not None:
        d['syntax'] = syntax
    if cache is not None:
        d['cache'] = cache
    return d


def default_value_pair_histories():
    """compact exhaustive part: per default value V the table {dv: top:V, dw: margin:V 10p} and the RING of option
    sets, all sharing cache dict 0; the snippet is named without a value through every configuration of the ring in
    turn, starting at every position (so every option set is once the first caller of the cache), thinned to two
    rotations per value in rotation; the probe names both snippets in a chain through the first configuration again"""
    out = []
    for vi, v in enumerate(PAIR_VALUES):
        table = {'dv': 'top:' + v, 'dw': 'margin:' + v.split('|')[0] + ' 10p'}
        dicts = [dv_dict(table, o) for o in RING]
        n = len(dicts)
        for s in (vi % n, (vi + 1 + vi // n % (n - 1)) % n):
            order = [(s + k) % n for k in range(n)]
            calls = [{'abbr': 'dv', 'via': 'dict', 'd': i} for i in order]
            out.append({'dicts': dicts, 'ncaches': 1, 'objs': [], 'calls': calls,
                        'probe': {'abbr': 'dw+dv', 'via': 'dict' if vi % 3 else 'copy', 'd': order[0]}})
    return out


def rand_default_value(rng):
    """the text of a default value: 1..4 tokens, mostly numbers at the boundaries, possibly a comma list and
    alternatives"""
    def tok():
        r = rng.random()
        if r < 0.3:
            return rng.choice(ZERO_ALIAS)
        if r < 0.45:
            return rng.choice(ZERO_PLAIN + ZERO_UNIT)
        if r < 0.8:
            return rng.choice(NUM_PLAIN + NUM_ALIAS + NUM_UNIT)
        return rng.choice(OTHER)

    def val():
        return ' '.join(tok() for _ in range(rng.choice([1, 1, 1, 2, 2, 3, 4])))
    v = val()
    if rng.random() < 0.15:
        v += ', ' + val()
    if rng.random() < 0.25:
        v += '|' + rng.choice(['auto', val(), 'none|' + tok()])
    return v


def rand_default_table(rng):
    names = rng.sample(NAMES, rng.randint(1, 3))
    return {n: rng.choice(PROPS) + ':' + rand_default_value(rng) for n in names}


def rand_default_abbr(rng, table):
    names = list(table)
    n = rng.choice(names)
    r = rng.random()
    if r < 0.5:
        return n                                            # the default value is written
    if r < 0.6:
        return n + '!'
    if r < 0.75:
        return '+'.join(rng.choice(names + ['m0', 'p0p']) for _ in range(rng.randint(2, 3)))
    if r < 0.95:
        # a typed value at the same boundaries
        v = rng.choice(ZERO_PLAIN[:3] + ZERO_ALIAS + NUM_PLAIN[:4] + NUM_ALIAS[:5] + ['0px', '10px'])
        a = n + v
        if rng.random() < 0.3:
            a += '-' + rng.choice(ZERO_ALIAS[:4] + ['0', '10p', '1.5'])
        return a
    # built-in snippets, value typed at the boundaries / documented defaults (m, p, t, lh, z, op; zoo -> zoom:1)
    return rng.choice(['m0', 'm0p', 'p0-0x', 't0e', 'lh0', 'z0', 'op0', 'zoo', 'w0r', 'm-0p', 'p0.0e'])


def rand_default_value_history(rng, max_len=6):
    ncaches = rng.choice([1, 1, 1, 2])
    table = rand_default_table(rng)
    syntax = rng.choice([None, None, None, 'scss', 'sass', 'less', 'stylus', 'sss'])
    dicts = [dv_dict(table, rng.choice(DV_OPTIONS), rng.randrange(ncaches), syntax) for _ in range(rng.randint(2, 4))]
    if rng.random() < 0.2:
        # same cache dict, another table that uses the same names
        dicts.append(dv_dict({n: rng.choice(PROPS) + ':' + rand_default_value(rng) for n in table}, rng.choice(DV_OPTIONS), 0, syntax))
    if rng.random() < 0.15:
        dicts[-1].pop('cache', None)
    objs = [i for i in range(len(dicts)) if rng.random() < 0.25]

    def call(abbr=None):
        r = rng.random()
        a = abbr if abbr is not None else rand_default_abbr(rng, table)
        if objs and r < 0.2:
            return {'abbr': a, 'via': 'obj', 'd': rng.randrange(len(objs))}
        via = 'dict' if r < 0.75 else ('copy' if r < 0.93 else 'nocache')
        return {'abbr': a, 'via': via, 'd': rng.randrange(len(dicts))}
    calls = [call() for _ in range(rng.randint(1, max_len))]
    probe = call()
    if rng.random() < 0.6:
        # the probe names what an earlier call named, through another configuration sharing the cache
        probe = call(rng.choice(calls)['abbr'])
    return {'dicts': dicts, 'ncaches': ncaches, 'objs': objs, 'calls': calls, 'probe': probe}


# ---------------------------------------------------------------------- evidence
def _spec(h, c):
    if c['via'] == 'default':
        return None
    return h['dicts'][h['objs'][c['d']] if c['via'] == 'obj' else c['d']]


def default_value_shapes(h):
    """evidence only: which boundary shapes the default values of the user snippet tables of `h` hold, and whether one
    cache dict is used by configurations with equal snippets and differing number-writing options"""
    shapes = set()
    for d in h['dicts']:
        for v in (d.get('snippets') or {}).values():
            if not isinstance(v, str) or ':' not in v:
                continue
            for t in v.split(':', 1)[1].replace('|', ' ').replace(',', ' ').replace('(', ' ').replace(')', ' ').split():
                if t in ZERO_ALIAS:
                    shapes.add('zero_with_unit_alias')
                elif t in ZERO_PLAIN:
                    shapes.add('zero_without_unit')
                elif t in ZERO_UNIT:
                    shapes.add('zero_with_unit')
                elif t in NUM_ALIAS:
                    shapes.add('nonzero_with_unit_alias')
                elif t in NUM_PLAIN:
                    shapes.add('nonzero_without_unit')
                elif t in NUM_UNIT:
                    shapes.add('nonzero_with_unit')
                elif t.startswith('${'):
                    shapes.add('field')
                elif t.startswith('#'):
                    shapes.add('colour')
    per_cache = {}
    for c in list(h['calls']) + [h['probe']]:
        d = _spec(h, c)
        if d is None or d.get('cache') is None or c['via'] == 'nocache':
            continue
        per_cache.setdefault((d['cache'], json.dumps(d.get('snippets'), sort_keys=True)), set()).add(
            json.dumps(d.get('options'), sort_keys=True))
    shared = any(len(v) > 1 for v in per_cache.values())
    return shapes, shared


def names_default(h, c):
    """evidence only: the call names a user snippet of its configuration without a value (the default is written)"""
    d = _spec(h, c)
    if d is None:
        return False
    return any(p.rstrip('!') in (d.get('snippets') or {}) for p in c.get('abbr', '').split('+'))
