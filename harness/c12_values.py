"""C12 only, class 7: option VALUES at the edges of their documented type and range.

The statement quantifies over "random assignments of all output.* formatting options, comment options and self-closing
styles".  The other classes draw every option from its documented values (three style words, True / False, a handful of
small numbers).  A caller, though, also hands over

* for the ENUMERATED option output.selfClosingStyle (documented: 'html' | 'xhtml' | 'xml'; Emmet documentation,
  "Options", emmetio/emmet src/config.ts `selfClosingStyle: 'html' | 'xhtml' | 'xml'`, repeated in the py-emmet README):
  a value outside the three words -- None for "not set", the empty string, another spelling or letter case ('XML',
  'Xhtml', 'xhtml ' with a blank), an unknown word ('none', 'sgml'), a value of another type (False, 0, 1);
* for the SWITCHES output.format, output.formatLeafNode, comment.enabled (documented: boolean): the values Python code
  uses for on / off besides True / False -- 1, 0, None, '';
* for the NUMBER output.inlineBreak (documented: number, 0 = never break): 0, 1, a number far beyond every sibling count,
  None / False for "off", True, a negative number;
* for the comment templates and the trigger list: None for "not set".

What the statement says about them does not depend on what such a value "means": whatever two values of the self-closing
style are compared, the outputs differ only in the ` /` or `/` before `>`; whatever value a formatting option has, the
content is the same; with formatting ON (a true value) the indentation is the depth; comments switched on by a true
value only add comment text to the output of a false value.  Which mark an undocumented style word writes is NOT laid
down anywhere and is not judged.

Not part of the class: None for the string options output.indent / output.newline / output.baseIndent (documented type:
string; the library multiplies / measures / writes them as they are -- see STRING_OPTIONS_NONE below) and None for the
list options output.formatSkip / output.formatForce (`name in None` raises).
"""
import copy
import re

import abbr_gen as g
import format_util as fu

DOCUMENTED_STYLES = ['html', 'xhtml', 'xml']

# (value, sub-class name for the coverage record)
OTHER_STYLES = [
    (None, 'none'), ('', 'empty-string'),
    ('XML', 'other-case'), ('XHTML', 'other-case'), ('Html', 'other-case'), ('Xhtml', 'other-case'),
    ('xhtml ', 'other-spelling'), (' xml', 'other-spelling'), ('x-html', 'other-spelling'), ('xhtml/', 'other-spelling'),
    ('none', 'unknown-word'), ('sgml', 'unknown-word'), ('html5', 'unknown-word'), ('default', 'unknown-word'),
    (False, 'non-string'), (True, 'non-string'), (0, 'non-string'), (1, 'non-string'),
]


def style_class(v):
    if isinstance(v, str) and v in DOCUMENTED_STYLES:
        return 'documented'
    for w, nm in OTHER_STYLES:
        if type(w) is type(v) and w == v:
            return nm
    return 'other'


TRUTHY = [True, 1]
FALSY = [False, 0, None, '']
SWITCHES = ['output.format', 'output.formatLeafNode', 'comment.enabled']
INLINE_BREAK_EDGES = [0, 1, 2, 3, 50, 1000, None, False, True, -1]

# output.newline given as None is written into the output as the word `None` by the unchanged library
# (expand('div>p', {'options': {'output.newline': None}}) -> '<div>None\t<p></p>None</div>'), output.indent /
# output.baseIndent given as None raise TypeError.  The documented type of the three is string; None is outside the
# configurations the statement quantifies over.  Kept as a switch (off) so that the class can be turned on.
STRING_OPTIONS_NONE = False


def same_truth(rng, v):
    """Another spelling of the same switch position."""
    return rng.choice(TRUTHY if v else FALSY)


def edge_values(rng, opts, p=0.6):
    """The cosmetic option set `opts` with its switches respelled (same truth value) and the inline-break number moved
    to an edge of its range; switches that are absent are, in a fifth of the draws, given explicitly."""
    o = copy.deepcopy(opts)
    for k in ('output.format', 'output.formatLeafNode'):
        if k in o and rng.random() < p:
            o[k] = same_truth(rng, o[k])
        elif k not in o and rng.random() < 0.2:
            o[k] = rng.choice(TRUTHY + FALSY)
    if rng.random() < p:
        o['output.inlineBreak'] = rng.choice(INLINE_BREAK_EDGES)
    if STRING_OPTIONS_NONE and rng.random() < 0.2:
        o['output.newline'] = None
    return o


def rand_style(rng, p_other=0.75):
    if rng.random() < p_other:
        return rng.choice(OTHER_STYLES)[0]
    return rng.choice(DOCUMENTED_STYLES)


def rand_style_pair(rng):
    """Two different values of output.selfClosingStyle; in three quarters of the draws at least one lies outside the
    documented words, in a quarter of those both do."""
    k = rng.random()
    if k < 0.25:
        a, b = rng.sample(DOCUMENTED_STYLES, 2)
    elif k < 0.8:
        a, b = rng.choice(OTHER_STYLES)[0], rng.choice(DOCUMENTED_STYLES)
        if rng.random() < 0.5:
            a, b = b, a
    else:
        (a, _), (b, _) = rng.sample(OTHER_STYLES, 2)
    return a, b


# ---------------------------------------------------------------- abbreviations with self-closing elements
# snippet names of the documented html snippet table that stand for ONE element written without closing tag
# (Emmet cheat sheet, "HTML": img, br, hr, input, link, meta ...) -- used as names only; whether the library self-closes
# them is not assumed anywhere: the oracle compares two runs of the library
VOID_SNIPPETS = ['img', 'br', 'hr', 'input', 'link', 'meta', 'input:text', 'input:checkbox', 'area', 'col', 'base', 'param', 'source']

SELF_CLOSING_ABBRS = [
    'img', 'br', 'x/', 'p>img+br/+span', 'ul>li*2>input[type=text name=n$]/', 'div>hr/+p{text}',
    'div.c>span/+em#i/', 'input[disabled.]/+b/', 'link+meta/+custom[a=b]/', 'table>tr>td*2>br', 'section>(p>img)*2+hr',
    'xsl:apply-templates[select=x]/+b/', 'p{t}/', 'div>p/>span',
]


def mark_leaves(rng, stmt, p):
    """`/` on elements without `>` child, text-free ones preferred."""
    n = 0
    for unit, op in stmt:
        if isinstance(unit, g.Group):
            n += mark_leaves(rng, unit.items, p)
        elif op != '>' and unit.name and rng.random() < (p if unit.text is None else p / 3):
            unit.self_close = True
            n += 1
    return n


def rand_selfclosing_abbr(rng, level):
    """Statement of the given level in which self-closing elements are frequent: about a third of the leaves carry the
    `/` mark; at level 'c12' a third of the names are snippet names of void elements."""
    names = g.safe_names()
    if level != 'depth':
        names = names + fu.SNIPPET_NAMES + VOID_SNIPPETS * 2
    st = g.rand_stmt(rng, names, rng.randint(1, 7), max_depth=3, rep_max=3, decorate=fu.decorator(rng, level))
    mark_leaves(rng, st, 0.35)
    return g.render(st)


VOID_RE = re.compile(r'(?<![\w:\-])(?:%s)(?![\w\-])' % '|'.join(re.escape(n) for n in sorted(VOID_SNIPPETS, key=len, reverse=True)))


def asks_for_self_closing(abbr):
    """Does the abbreviation ask for an element without closing tag (a `/` mark or a void snippet name)?  Read from
    the abbreviation; for the coverage record only."""
    return bool(re.search(r'[\w\]}]/', abbr) or VOID_RE.search(abbr))


def selfclose_sweep(per_pair_syntaxes):
    """(abbr, syntax, value, other value): every value outside the documented words x every abbreviation of
    SELF_CLOSING_ABBRS, against a documented word (rotating) and -- every fourth -- against another outside value;
    `per_pair_syntaxes` syntaxes per pair (rotating; 6 = full cross)."""
    k = 0
    for i, abbr in enumerate(SELF_CLOSING_ABBRS):
        for j, (v, _nm) in enumerate(OTHER_STYLES):
            for s in range(per_pair_syntaxes):
                syn = fu.HTML_SYNTAXES[(i + j + s) % len(fu.HTML_SYNTAXES)]
                if k % 4 == 3:
                    w = OTHER_STYLES[(j + 1 + i) % len(OTHER_STYLES)][0]
                else:
                    w = DOCUMENTED_STYLES[k % 3]
                yield abbr, syn, v, w
                k += 1


SWITCH_SWEEP_ABBRS = ['div>p>span+em^ul>li*2', 'section#i>div.c>p{t}+img', 'html>body>p+p', 'p>a+b+i+u', 'ul#m>li.k*2>a{x}']


def switch_sweep():
    """(abbr, options with the respelled value, options with the documented spelling, option, value): every switch x
    every other spelling of on / off, and every inline-break edge against the documented default 3."""
    for i, abbr in enumerate(SWITCH_SWEEP_ABBRS):
        for k in ('output.format', 'output.formatLeafNode'):
            for v in TRUTHY[1:] + FALSY[1:]:
                yield abbr, {k: v}, {k: bool(v)}, k, v
        for v in INLINE_BREAK_EDGES:
            yield abbr, {'output.inlineBreak': v}, {'output.inlineBreak': 3}, 'output.inlineBreak', v


def comment_switch_sweep():
    """(abbr, comment-on options, comment-off options): comment.enabled in every spelling of on x every spelling of
    off; trigger list and templates unset, None ("not set") or given."""
    extra = [{}, {'comment.trigger': None}, {'comment.before': None}, {'comment.after': None, 'comment.before': '<!-- [#ID] -->'},
             {'comment.trigger': ['id']}]
    n = 0
    for abbr in SWITCH_SWEEP_ABBRS:
        for on in TRUTHY:
            for off in FALSY:
                e = extra[n % len(extra)]
                n += 1
                yield abbr, dict(e, **{'comment.enabled': on}), dict(e, **{'comment.enabled': off})


def value_name(v):
    return '%s-%r' % (type(v).__name__, v)
