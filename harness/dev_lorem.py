"""Development driver: run the lorem streams of harness/lorem_util.py outside ./check."""
import sys, os, json, time
sys.path.insert(0, os.path.dirname(os.path.abspath(__file__)))
import common
sys.path.insert(0, os.environ.get('VERIF_REPO', '/repo'))
import lorem_util


def main():
    ctx = common.Ctx('C07', sys.argv[2] if len(sys.argv) > 2 else 'quick', int(sys.argv[1]) if len(sys.argv) > 1 else 1)
    t = time.time()
    lorem_util.run_lorem(ctx, None)
    print('time %.1f' % (time.time() - t))
    print(json.dumps(ctx.cov['correspondence'], indent=1))
    print('evaluations', ctx.cov['evaluations'], 'violations', len(ctx.violations), 'broken', len(ctx.broken))
    for v in ctx.violations[:8]:
        print('VIOLATION', v['what'][:600])
    d = ctx.cov['distribution']
    print({k: v for k, v in d.items() if not k.startswith('lorem-unit')})


main()
