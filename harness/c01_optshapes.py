"""C01: the VALUE TYPES in which a configuration reaches the library (used only by harness/props/c01.py).

The element tree depends on a few facts of the configuration: which names are inline elements (`inlineElements`, a
collection of names), the context element (`context`, a mapping with a `name`), the syntax and the self-closing style
(strings), formatting on / off (a truth value).  Python callers hand such values over in many types that offer the very
same operations as the documented `list` / `dict` / `str` / `bool`: a collection of names may be a tuple, a set, a
frozenset, the keys of a dict, a deque ...; a mapping may be an OrderedDict, a defaultdict, a read-only
MappingProxyType, a UserDict, a ChainMap; a string may be an instance of a str subclass or of a str-valued Enum; a
truth value may be 1 / 0.  The tree must be the denoted one under every such spelling of the SAME configuration.

Generator classes (`shape_cases`):

* collections: the inline-element collection (the documented default list, the default list plus a custom name, a small
  custom list, the empty collection) as EVERY collection type of COLLECTION_SHAPES, written in every configuration layer
  (the call's config, the global entry of the syntax, the global entry of the type `markup`), with nameless elements
  below inline / mapped / block / custom parents in several positions; the tree-neutral name collections
  (`output.formatSkip`, `output.formatForce`, `output.booleanAttributes`) in the same types;
* mappings: the call's config, its `options`, its `context`, the global config, a global entry and the `options` of a
  global entry as every mapping type of MAPPING_SHAPES;
* strings / truth values: `syntax` and `output.selfClosingStyle` as str subclass / str-valued Enum member,
  `output.format` as True / False / 1 / 0;
* random statements under random mixtures of all of these, through every call route of c01_routes.ROUTE_NAMES.

Never generated: a plain string as a name collection (`in` would search substrings: meaning not fixed by the
documentation), one-shot iterators / generators as collections (used up by the first lookup), unhashable or non-string
names.

A configuration is kept as a JSON "spec" (so that a replay file holds it): `{"$": <shape>, "v": <content>}` marks a
value of a non-default type, everything else is the plain JSON value.  `build(spec)` makes fresh Python objects for every
call (nothing is shared between calls, nothing needs copying).  Expectations come from c01_routes.denote_under with the
names of the collection as written in the spec -- independent of the library.
"""
import collections
import enum
import types

import abbr_gen as g
import c01_routes as routes


# ---------------------------------------------------------------- shapes
class NameBag:
    """A caller-defined container of names: membership test, iteration and length, nothing else."""

    def __init__(self, items):
        self._items = tuple(items)

    def __contains__(self, x):
        return x in self._items

    def __iter__(self):
        return iter(self._items)

    def __len__(self):
        return len(self._items)

    def __repr__(self):
        return 'NameBag(%r)' % (list(self._items),)


class Word(str):
    """A str subclass (what `str(...)`-like wrappers, numpy.str_, markupsafe etc. hand over)."""
    __slots__ = ()


def _enum_member(value):
    return enum.Enum('Choice', {'member': value}, type=str).member


COLLECTION_BUILDERS = {
    'list': list,
    'tuple': tuple,
    'set': set,
    'frozenset': frozenset,
    'dict-with-names-as-keys': lambda it: dict.fromkeys(it, True),
    'dict-keys-view': lambda it: dict.fromkeys(it).keys(),
    'OrderedDict': collections.OrderedDict.fromkeys,
    'deque': collections.deque,
    'Counter': collections.Counter,
    'user-defined-container': NameBag,
}
COLLECTION_SHAPES = list(COLLECTION_BUILDERS)

MAPPING_BUILDERS = {
    'dict': dict,
    'OrderedDict': collections.OrderedDict,
    'defaultdict': lambda d: collections.defaultdict(list, d),
    'MappingProxyType': lambda d: types.MappingProxyType(dict(d)),
    'UserDict': collections.UserDict,
    'ChainMap': lambda d: collections.ChainMap({}, dict(d)),
}
MAPPING_SHAPES = list(MAPPING_BUILDERS)

STRING_BUILDERS = {'str-subclass': Word, 'str-Enum-member': _enum_member}
STRING_SHAPES = list(STRING_BUILDERS)

MAPPING_SPOTS = ['options', 'context', 'global-entry-options', 'global-entry', 'config', 'global']      # inner ones first (wrap_mapping is applied in this order)
INLINE_LAYERS = ['user', 'global-syntax', 'global-type']
SYNTAXES = ['html', 'xhtml', 'xml']
# tree-neutral options whose value is a collection of names (documented defaults: formatSkip ['html'], formatForce
# ['body'], booleanAttributes a list of HTML boolean attribute names): they decide line breaks / attribute spelling only
NEUTRAL_COLLECTIONS = [('output.formatSkip', ['html']), ('output.formatSkip', []), ('output.formatSkip', ['div', 'ul']),
                       ('output.formatForce', ['body']), ('output.formatForce', ['div', 'em', 'p']), ('output.formatForce', []),
                       ('output.booleanAttributes', ['checked', 'disabled', 't']), ('output.booleanAttributes', [])]


def shaped(shape, value):
    return {'$': shape, 'v': value}


def build(spec):
    """Fresh Python objects from a spec."""
    if isinstance(spec, dict):
        if set(spec) == {'$', 'v'}:
            shape, v = spec['$'], spec['v']
            if isinstance(v, dict):
                return MAPPING_BUILDERS[shape]({k: build(x) for k, x in v.items()})
            if isinstance(v, list):
                return COLLECTION_BUILDERS[shape]([build(x) for x in v])
            return STRING_BUILDERS[shape](v)
        return {k: build(x) for k, x in spec.items()}
    if isinstance(spec, list):
        return [build(x) for x in spec]
    return spec


def show(spec):
    """The spec as the Python expression a caller would write (for messages)."""
    return repr(build(spec)) if spec is not None else 'None'


def plain(spec):
    """The spec with every shape mark removed (the same configuration in the documented default types)."""
    if isinstance(spec, dict):
        if set(spec) == {'$', 'v'}:
            return plain(spec['v'])
        return {k: plain(x) for k, x in spec.items()}
    if isinstance(spec, list):
        return [plain(x) for x in spec]
    return spec


def run_shape(route, abbr, user_spec, glob_spec):
    """One expansion through `route` with freshly built configuration objects; `glob_spec` None = no global argument."""
    import emmet
    from emmet.config import Config

    def call():
        u = build(user_spec)
        gl = build(glob_spec)
        if route == 'expand(abbr, dict, global)':
            return emmet.expand(abbr, u) if gl is None else emmet.expand(abbr, u, gl)
        cfg = Config(u) if gl is None else Config(u, gl)
        return routes._via(route, abbr, cfg)
    return routes._guard(call)


# ---------------------------------------------------------------- generators
def inline_variants(documented):
    """(label, names): the inline-element collections explored."""
    return [('documented-default', list(documented)), ('documented-default+custom', list(documented) + ['nx', 'x-y']),
            ('custom', ['x-y', 'custom', 'section']), ('empty', [])]


CUSTOM_NAMES = ['nx', 'x-y', 'custom', 'section']


def parents_for(rng, inline, mapped, block, documented, usable):
    """Parents for one configuration: names in the collection, mapped parents, block parents, and documented inline
    names that are NOT in the collection (these must give div).  `usable`: names that can have children."""
    ins = [n for n in inline if n not in mapped and n in usable]
    outs = [n for n in documented if n not in inline and n not in mapped and n in usable]
    pick = rng.sample(ins, min(3, len(ins))) + rng.sample(sorted(mapped), 2) + rng.sample(block, 1) + rng.sample(outs, min(2, len(outs)))
    return pick


def statements_for(rng, p, names):
    """Statements with nameless elements below parent p: direct child, below a repeated parent, inside a repeated group,
    after a climb, two levels of nameless elements."""
    E, G = g.El, g.Group
    decos = (dict(classes=['c']), dict(id='i'), dict(attrs=[('t', 'v', '')]))
    nl = lambda **kw: E(name=None, **dict(rng.choice(decos), **kw))
    o = lambda: E(name=rng.choice(names))
    return [
        [(E(name=p), '>'), (nl(), '')],
        [(E(name=p, repeat=2), '>'), (G([(nl(), '+'), (nl(), '')]), '')],
        [(G([(E(name=p), '>'), (nl(repeat=2), '')]), '+'), (o(), '')],
        [(o(), '>'), (E(name=p), '>'), (nl(), '^'), (o(), '')],
        [(E(name=p), '>'), (nl(), '>'), (nl(), '^^'), (nl(), '')],
        [(o(), '>'), (E(name=p), '>'), (o(), '>'), (o(), '^'), (nl(), '+'), (E(name=p), '>'), (nl(), '')],
    ]


def put_inline(user, glob, syntax, layer, spec):
    if layer == 'user':
        user.setdefault('options', {})['inlineElements'] = spec
    else:
        key = syntax if layer == 'global-syntax' else 'markup'
        glob.setdefault(key, {}).setdefault('options', {})['inlineElements'] = spec


def wrap_mapping(user, glob, spot, shape, syntax):
    """(user, glob) with the mapping at `spot` marked as `shape`; missing mappings are created (empty ones are valid).
    Several spots of one configuration: inner ones first (order of MAPPING_SPOTS)."""
    if spot == 'config':
        return shaped(shape, user), glob
    if spot == 'options':
        user = dict(user, options=shaped(shape, user.get('options') or {}))
        return user, glob
    if spot == 'context':
        if isinstance(user.get('context'), dict):
            user = dict(user, context=shaped(shape, user['context']))
        return user, glob
    glob = dict(glob or {})
    if spot == 'global':
        return user, shaped(shape, glob)
    key = 'markup' if 'markup' in glob or syntax not in glob else syntax
    entry = dict(glob.get(key) or {})
    if spot == 'global-entry-options':
        entry['options'] = shaped(shape, entry.get('options') or {})
        glob[key] = entry
    else:
        glob[key] = shaped(shape, entry)
    return user, glob


def shape_cases(ctx, names, documented, mapped, block, parents_ok, n_random):
    """-> list of (route, abbr, user_spec, glob_spec, meta).  `documented`: the hard-coded documented inline list,
    `mapped`: the documented mapped parents, `block`: block / unknown parent names, `names`: plain element names,
    `parents_ok`: the names among them that can stand as parent of a nameless element (no void snippets, no parents
    with a child name of their own that the statement does not mention)."""
    usable = set(parents_ok) | set(CUSTOM_NAMES)
    block = [n for n in block if n in usable]
    rng = ctx.rng
    cases = []
    k = 0
    variants = inline_variants(documented)
    context_names = sorted(mapped) + ['div', 'em', 'strong', 'custom', 'x-y', 'section']

    def add(stmt, user, glob, inline, ctx_name=None):
        nonlocal k
        route = routes.ROUTE_NAMES[k % len(routes.ROUTE_NAMES)]
        k += 1
        meta = routes.denote_under(stmt, ctx_name, inline)
        cases.append((route, g.render(stmt), user, glob if glob else (None if rng.random() < 0.5 else {}), meta))
        ctx.cover('optshape:route-%s' % route)

    def base(syntax, fmt):
        user = {}
        if syntax != 'html' or rng.random() < 0.5:
            user['syntax'] = syntax
        if fmt is not None:
            user['options'] = {'output.format': fmt}
        return user

    # (1) the inline collection in every collection type x every variant x every layer
    for shape in COLLECTION_SHAPES:
        for vlabel, inline in variants:
            for layer in INLINE_LAYERS:
                syntax = SYNTAXES[k % len(SYNTAXES)]
                user, glob = base(syntax, rng.choice([None, True, False])), {}
                put_inline(user, glob, syntax, layer, shaped(shape, list(inline)))
                for p in parents_for(rng, inline, mapped, block, documented, usable):
                    sts = statements_for(rng, p, names)
                    for st in rng.sample(sts, 2 if ctx.tier == 'quick' else len(sts)):
                        add(st, user, glob, inline)
                        ctx.cover('optshape:inlineElements-as-%s' % shape)
                        ctx.cover('optshape:inline-%s-from-%s' % (vlabel, layer))
    # (2) tree-neutral name collections in every collection type
    for shape in COLLECTION_SHAPES:
        for key, val in NEUTRAL_COLLECTIONS:
            syntax = SYNTAXES[k % len(SYNTAXES)]
            user, glob = base(syntax, True), {}
            tgt = user if rng.random() < 0.6 else glob.setdefault(rng.choice([syntax, 'markup']), {})
            tgt.setdefault('options', {})[key] = shaped(shape, list(val))
            p = rng.choice(['em', 'div', 'ul', 'p', 'strong', 'tr'])
            for st in rng.sample(statements_for(rng, p, names), 1 if ctx.tier == 'quick' else 3):
                add(st, user, glob, None)
                ctx.cover('optshape:%s-as-%s' % (key, shape))
    # (3) every mapping of the configuration in every mapping type
    for shape in MAPPING_SHAPES:
        for spot in MAPPING_SPOTS:
            for rep in range(2 if ctx.tier == 'quick' else 6):
                syntax = SYNTAXES[k % len(SYNTAXES)]
                user, glob = base(syntax, rng.choice([True, False])), {}
                vlabel, inline = rng.choice(variants)
                layer = rng.choice(INLINE_LAYERS[1:]) if spot.startswith('global') else 'user'
                put_inline(user, glob, syntax, layer, list(inline))
                ctx_name = None
                if spot == 'context' or rng.random() < 0.3:
                    ctx_name = rng.choice(context_names)
                    user['context'] = {'name': ctx_name}
                user2, glob2 = wrap_mapping(user, glob, spot, shape, syntax)
                p = rng.choice(parents_for(rng, inline, mapped, block, documented, usable))
                top = [(g.El(name=None, classes=['top']), '+')] if ctx_name is not None else []
                for st in rng.sample(statements_for(rng, p, names), 2):
                    add(top + st, user2, glob2, inline, ctx_name)
                    ctx.cover('optshape:%s-as-%s' % (spot, shape))
    # (4) strings and truth values in other types
    for shape in STRING_SHAPES:
        for key in ('syntax', 'output.selfClosingStyle'):
            for val in SYNTAXES:
                for fmt in (True, False, 1, 0):
                    user = {'options': {'output.format': fmt}}
                    if key == 'syntax':
                        user['syntax'] = shaped(shape, val)
                    else:
                        user['options'][key] = shaped(shape, val)
                    p = rng.choice(['em', 'div', 'ul', 'p', 'strong', 'tr', 'select'])
                    st = rng.choice(statements_for(rng, p, names))
                    if val != 'html':      # a style that writes childless elements self-closed: one `x/` leaf at the end
                        st = st[:-1] + [(st[-1][0], '+'), (g.El(name=rng.choice(names), self_close=True), '')]
                    add(st, user, {}, None)
                    ctx.cover('optshape:%s-as-%s' % (key, shape))
                    ctx.cover('optshape:output.format-as-%r' % (fmt,))
    # (5) random statements under random mixtures
    pool = [n for n in list(documented) + sorted(mapped) + block + CUSTOM_NAMES if n in usable]

    def decorate(rng, el):
        if rng.random() < 0.4:
            el.name = None
            el.classes = ['k']
    for _ in range(n_random):
        syntax = rng.choice(SYNTAXES)
        user, glob = base(syntax, rng.choice([None, True, False, 1, 0])), {}
        vlabel, inline = rng.choice(variants)
        cshape = rng.choice(COLLECTION_SHAPES)
        put_inline(user, glob, syntax, rng.choice(INLINE_LAYERS), shaped(cshape, list(inline)))
        if rng.random() < 0.4:
            key, val = rng.choice(NEUTRAL_COLLECTIONS)
            user.setdefault('options', {})[key] = shaped(rng.choice(COLLECTION_SHAPES), list(val))
        if rng.random() < 0.3:
            style = rng.choice(SYNTAXES)
            user.setdefault('options', {})['output.selfClosingStyle'] = shaped(rng.choice(STRING_SHAPES), style) if rng.random() < 0.6 else style
        if 'syntax' in user and rng.random() < 0.3:
            user['syntax'] = shaped(rng.choice(STRING_SHAPES), syntax)
        ctx_name = None
        if rng.random() < 0.35:
            ctx_name = rng.choice(context_names)
            user['context'] = {'name': ctx_name}
        for spot in sorted(rng.sample(MAPPING_SPOTS, rng.choice([0, 1, 1, 2, 3])), key=MAPPING_SPOTS.index):
            user, glob = wrap_mapping(user, glob, spot, rng.choice(MAPPING_SHAPES), syntax)
        st = g.rand_stmt(rng, pool, rng.randint(2, 9), max_depth=2, rep_max=3, decorate=decorate)
        if g.total_copies(g.unroll(g.denote_stmt(st))) > 200:
            continue
        add(st, user, glob, inline, ctx_name)
        ctx.cover('optshape:random')
        ctx.cover('optshape:random-inlineElements-as-%s' % cshape)
    return cases
