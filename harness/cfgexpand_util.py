"""C20, expand model tie: wires for the extracted expand model (coq/run/CfgexpandRun.v), Coq terms for the
in-Coq evaluation of the stylesheet half (coq/proofs/ConfigExpandCss.v), outcome classification."""
import config_util as cu
import configval_util as cv
from common import enc_str, enc_list, Reader


class XIds:
    """CaseIds that remembers the VALUE behind every caller id (< 0)."""

    def __init__(self, base_ids, cfgmod):
        self.ids = cu.CaseIds(base_ids)
        self.cfgmod = cfgmod
        self.extra = {}

    def id_of(self, v):
        i = self.ids.id_of(v)
        if i < 0 and i not in self.extra:
            self.extra[i] = cv.cval_of(v, self.cfgmod, other_id=i)
        return i


def _enc_dict_ids(ids, d):
    return enc_list(lambda kv: enc_str(kv[0]) + [ids.id_of(kv[1])], list(d.items()))


def _sections(layer):
    return [(k, v) for k, v in layer.items() if isinstance(v, dict) and k not in ('context',)]


def _enc_layer(ids, layer):
    return enc_list(lambda kv: enc_str(kv[0]) + _enc_dict_ids(ids, kv[1]), _sections(layer))


def _enc_opt_str(s):
    return [0] if s is None else [1] + enc_str(s)


def other_entries(user):
    """Entries of the call's own config that are no layer section and not type/syntax."""
    return [(k, v) for k, v in user.items() if k not in ('type', 'syntax') and (not isinstance(v, dict) or k == 'context')]


def wire_expand(tb, case, abbr):
    """case: plain-data case (aliases written out).  -> wire of command 1."""
    ids = XIds(tb.ids, tb.cfg)
    w = [1] + _enc_opt_str(case['type']) + _enc_opt_str(case['syntax'])
    w += _enc_layer(ids, case['user'])
    w += enc_list(lambda kv: enc_str(kv[0]) + _enc_layer(ids, kv[1]), list(case['global'].items()))
    w += enc_list(lambda p: [p[0]] + enc_str(p[1]) + enc_str(p[2]) + enc_str(p[3]) + [ids.id_of(p[4])], case['patches'])
    others = enc_list(lambda kv: enc_str(kv[0]) + [ids.id_of(kv[1])], other_entries(case['user']))
    w += enc_list(lambda iv: [iv[0]] + cv.wire_cval(iv[1]), sorted(ids.extra.items(), reverse=True))
    w += others
    w += enc_str(abbr)
    return w


def rich_outcome(f):
    """('ok', str) | ('err', kind, pos|None) | ('internal', type name)  -- what the model's `res str` can say."""
    from emmet.scanner import ScannerException
    from emmet.token_scanner import TokenScannerException
    try:
        r = f()
    except ScannerException as e:
        return ('err', 1, getattr(e, 'pos', None), type(e).__name__)
    except TokenScannerException as e:
        return ('err', 2, getattr(e, 'pos', None), type(e).__name__)
    except Exception as e:
        return ('internal', type(e).__name__)
    return ('ok', r)


def decode_expand(w):
    """model output -> None (bad wire) | ('outside',) | ('ok', str) | ('err', kind, pos|None) | ('internal', kind) | ('fuel',)"""
    if not w or w == [-99]:
        return None
    if w[0] == 0:
        return ('outside',)
    r = Reader(w[1:])
    tag = r.int()
    if tag == 0:
        return ('ok', r.str())
    if tag == 1:
        kind = r.int()
        pos = r.int() if r.int() else None
        return ('err', kind, pos)
    if tag == 2:
        return ('internal', r.int())
    return ('fuel',)


def agree(impl, model):
    """Observables the property speaks about: the output string; for errors the class (parse error kind and
    position / internal), never the message."""
    if model is None:
        return False
    if impl[0] == 'ok':
        return model == ('ok', impl[1]) if isinstance(impl[1], str) else False
    if impl[0] == 'err':
        return model[0] == 'err' and model[1] == impl[1] and (impl[2] is None or model[2] == impl[2])
    if impl[0] == 'internal':
        return model[0] == 'internal'
    return False


# ------------------------------------------------------------------ in-Coq evaluation (full model, stylesheet branch)
def _cs(s):
    return '(@nil N)' if s == '' else '[' + '; '.join('%d' % ord(c) for c in s) + ']%N'


def _copt(s):
    return 'None' if s is None else '(Some %s)' % _cs(s)


def _cdict(ids, d):
    return '[' + '; '.join('(%s, (%d)%%Z)' % (_cs(k), ids.id_of(v)) for k, v in d.items()) + ']'


def _clayer(ids, layer):
    return '[' + '; '.join('(%s, %s)' % (_cs(k), _cdict(ids, v)) for k, v in _sections(layer)) + ']'


def coq_case(tb, case, abbr):
    ids = XIds(tb.ids, tb.cfg)
    user = _clayer(ids, case['user'])
    glob_ = '[' + '; '.join('(%s, %s)' % (_cs(k), _clayer(ids, v)) for k, v in case['global'].items()) + ']'
    patches = '[' + '; '.join('{| p_tag := (%d)%%Z; p_name := %s; p_sec := %s; p_key := %s; p_val := (%d)%%Z |}'
                              % (p[0], _cs(p[1]), _cs(p[2]), _cs(p[3]), ids.id_of(p[4])) for p in case['patches']) + ']'
    other = '[' + '; '.join('(%s, (%d)%%Z)' % (_cs(k), ids.id_of(v)) for k, v in other_entries(case['user'])) + ']'
    extra = '[' + '; '.join('((%d)%%Z, %s)' % (i, cv.coq_cval(c)) for i, c in sorted(ids.extra.items(), reverse=True)) + ']'
    return '(mkXcase %s %s %s %s %s %s %s %s)' % (_copt(case['type']), _copt(case['syntax']), user, glob_, patches,
                                                   extra, other, _cs(abbr))


SHOW_HEADER = ('From Coq Require Import PrimFloat List ZArith NArith.\n'
               'From Emmet Require Import lib.Base lib.ConfigLib lib.ConfigVal run.ConfigRun run.CfgexpandShow.\n'
               'Import ListNotations.\n')


def coq_eval(terms, tag, shard=3, timeout=900):
    """Evaluate eval_case on the given Coq terms (shards of `shard` cases, all cores).  -> list of decoded
    results (None where the evaluation failed)."""
    import os
    import subprocess
    import common
    import style_util as su
    if not terms:
        return []
    d = os.path.join(common.BUILD, '%s-%d' % (tag, os.getpid()))
    os.makedirs(d, exist_ok=True)
    for fn in os.listdir(d):
        os.remove(os.path.join(d, fn))
    shards = [terms[i:i + shard] for i in range(0, len(terms), shard)]
    for si, sh in enumerate(shards):
        with open(os.path.join(d, 'cases_%d.v' % si), 'w') as f:
            f.write(SHOW_HEADER + 'Eval vm_compute in (eval_cases [\n' + ';\n'.join(sh) + ']).\n')
    cmd = ('ls cases_*.v | xargs -P%d -I{} sh -c \'timeout %d coqc -Q "%s" Emmet {} > {}.out 2>&1 || echo FAIL {}\''
           % (common.NPROC, timeout, common.COQ))
    subprocess.run(cmd, shell=True, cwd=d, stdout=subprocess.PIPE, stderr=subprocess.STDOUT, text=True)
    res = []
    for si, sh in enumerate(shards):
        try:
            with open(os.path.join(d, 'cases_%d.v.out' % si)) as f:
                lists = su.parse_coq_lists(f.read())
        except Exception:
            lists = []
        if len(lists) != len(sh):
            res += [None] * len(sh)
        else:
            res += [decode_show(w) for w in lists]
    return res


def decode_show(w):
    if not w:
        return None
    if w[0] == 8:
        return ('outside',)
    if w[0] == 0:
        return ('ok', ''.join(chr(c) for c in w[1:]))
    if w[0] == 1:
        return ('err', w[1], w[3] if w[2] else None)
    if w[0] == 2:
        return ('internal', w[1])
    return ('fuel',)
