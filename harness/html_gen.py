"""Generators for the HTML matcher properties (C09, C16 HTML half, C17 HTML half).

`gen_document(rng, xml)` renders a random element tree and returns the text with
the generator's OWN record of where everything lies (no emmet code involved):
elements with open/close ranges, attributes with name/value ranges, class
tokens, the expected tag events.  `gen_malformed` / `mutate` / `short_strings`
feed the totality property.

Domain of the well-formed generator (what "well-formed document" means here):
  * element names over the XML name alphabet, same case in open and close tag,
    close tags written `</name>` without white space;
  * void names (HTML5 list) only as single tags in HTML mode; in XML mode they
    are ordinary names (paired or self-closed);
  * attributes separated by white space, no white space around `=`; values are
    double/single quoted (free of that quote and of backslash, may contain
    `> < / =` and the other quote), unquoted over a safe alphabet (no quote,
    white space, `>`, `/`, `<`, `=`, backtick, not starting with a bracket) or
    `{...}` expressions with balanced braces and balanced quoted strings;
    attribute names may be Angular/React style (`*ngIf`, `#ref`, `[prop]`,
    `(click)`, `{...spread}`);
  * text is free of `<`; comments are free of `--`; CDATA free of `]]>`;
    processing instructions free of `?>` outside quoted strings (inside them `?>` may occur), quotes balanced;
  * script/style bodies are free of their own close tag; a script element whose
    type is not a JavaScript type carries ordinary markup children.
"""

VOID = ['img', 'meta', 'link', 'br', 'base', 'hr', 'area', 'wbr', 'col', 'embed', 'input', 'param', 'source', 'track']
NAMES = ['div', 'span', 'p', 'a', 'ul', 'li', 'b', 'i', 'h1', 'td', 'section', 'x-foo', 'ns:tag', 'A', 'Comp.Sub',
         '_u', 'é', 'a1', 'svg:g', 'my_el']
JS_TYPES = ['text/javascript', 'application/x-javascript', 'javascript', 'typescript', 'ts', 'coffee', 'coffeescript']
MARKUP_TYPES = ['text/x-template', 'text/html', 'text/template', 'x']
ATTR_NAMES = ['class', 'id', 'title', 'href', 'data-x', 'v-on:click', 'xml:lang', 'disabled', 'src', 'alt', 'type_',
              'class', 'aria-label', 'é', 'Class', 'classes']
FANCY_NAMES = ['*ngIf', '#ref', '[prop]', '(click)', '[(ngModel)]', '{...props}', '[a.b]', '[attr.x]', '(a.b)']
WS = [' ', ' ', ' ', '\n', '\t', '  ', ' \n  ', '\r\n', ' ']
QCH = list('abcxyz019 ') + ['>', '<', '/', '=', '{', '}', '[', ']', '(', ')', '!', '-', '?', '&', ';', ':', '.', ',', '#',
                            '<b>', '</a>', '/>', '-->', 'é', '*']
UCH = list('abcxyzABC0123456789-_.:#%&;+*!?,@$^|~')
TEXT = list('abc xyz\n') + ['>', '&amp;', '/', '=', '"', "'", '-->', '?>', 'text', '  ', '!', '-', ']', '[', '{', '}', 'é',
                            '\t', '\\', '&lt;b&gt;']
MARKUPISH = ['<div>', '</div>', '<b>', '</span>', '<br/>', '<img src="x">', 'a<b', 'x>y', '"', "'", ' ', 'text', '\n',
             '<a href=">">', '</', '<', '>', '/>', '<?', '<!', '{', '}', 'if (a < b && c > d) {}', '<p', '<script>',
             '<style>', '</a>', '\\', "it's", '<!-', ']]', '?', '-']


class Attr:
    __slots__ = ('name', 'ns', 'ne', 'value', 'vs', 've', 'inner', 'tokens')

    def __init__(self, name, ns, ne, value=None, vs=None, ve=None, inner=None, tokens=None):
        self.name, self.ns, self.ne, self.value, self.vs, self.ve = name, ns, ne, value, vs, ve
        self.inner = inner      # range of the unquoted value (quotes or one brace pair stripped)
        self.tokens = tokens    # white-space separated words of the unquoted value, as ranges

    def key(self):
        return (self.name, self.ns, self.ne, self.value, self.vs, self.ve)


class Elem:
    __slots__ = ('name', 'etype', 'open', 'close', 'attrs', 'children', 'parent')

    def __init__(self, name, etype, open_, close, attrs):
        self.name, self.etype, self.open, self.close, self.attrs = name, etype, open_, close, attrs
        self.children = []
        self.parent = None

    @property
    def start(self):
        return self.open[0]

    @property
    def end(self):
        return self.close[1] if self.close else self.open[1]

    def entry(self):
        return (self.name, self.open, self.close)


class Doc:
    __slots__ = ('text', 'xml', 'roots', 'elems', 'events', 'features')

    def __init__(self, text, xml, roots, elems, events, features):
        self.text, self.xml, self.roots, self.elems, self.events, self.features = text, xml, roots, elems, events, features


def _is_space(ch):
    return ch in ' \t \n\r'


def words(text, base):
    """white-space separated words of `text` as ranges shifted by `base`"""
    out = []
    i = 0
    n = len(text)
    while i < n:
        if _is_space(text[i]):
            i += 1
            continue
        j = i
        while j < n and not _is_space(text[j]):
            j += 1
        out.append((base + i, base + j))
        i = j
    return out


class _Builder:
    def __init__(self, rng, xml, max_nodes, max_depth, shape):
        self.rng = rng
        self.xml = xml
        self.buf = []
        self.pos = 0
        self.budget = max_nodes
        self.max_depth = max_depth
        self.shape = shape
        self.elems = []
        self.events = []
        self.features = set()

    def emit(self, s):
        self.buf.append(s)
        self.pos += len(s)

    # ---- pieces
    def quoted_body(self, other_quote):
        rng = self.rng
        n = rng.choice([0, 1, 1, 2, 3, 5, 8])
        parts = [rng.choice(QCH + [other_quote]) for _ in range(n)]
        s = ''.join(parts)
        if '>' in s:
            self.features.add('attr-value-with->')
        return s

    def expr_body(self, depth=0):
        rng = self.rng
        parts = []
        for _ in range(rng.choice([0, 1, 2, 3, 5])):
            r = rng.random()
            if r < 0.15 and depth < 2:
                parts.append('{' + self.expr_body(depth + 1) + '}')
            elif r < 0.3:
                q = rng.choice('"\'')
                inner = ''.join(rng.choice(list('ab >}{<') + ['/>', '</a>']) for _ in range(rng.randint(0, 4)))
                parts.append(q + inner + q)
            else:
                parts.append(rng.choice(list('abxy01 ') + ['>', '<', '=', '/', ' => ', '()', '[0]', '.', '<b>', '/>']))
        s = ''.join(parts)
        if '>' in s:
            self.features.add('attr-value-with->')
        return s

    def class_body(self):
        rng = self.rng
        n = rng.choice([0, 1, 2, 3, 4])
        toks = [rng.choice(['a', 'item', 'item_1', 'b-c', 'x', 'é', 'a>b', 'sm:p-2']) for _ in range(n)]
        lead = rng.choice(['', '', ' ', '\t'])
        trail = rng.choice(['', '', ' ', ' \n'])
        return lead + ''.join(t + rng.choice([' ', ' ', '  ', '\n', '\t', ' ']) for t in toks[:-1]) + (toks[-1] if toks else '') + trail

    def attribute(self, force_class=False):
        """emit one attribute at the current position, return its record"""
        rng = self.rng
        r = rng.random()
        if force_class:
            name = 'class'
        elif r < 0.12:
            name = rng.choice(FANCY_NAMES)
            self.features.add('attr-name-fancy')
        else:
            name = rng.choice(ATTR_NAMES)
        ns = self.pos
        self.emit(name)
        ne = self.pos
        form = rng.choice(['dq', 'dq', 'sq', 'unq', 'expr', 'none'])
        if name == '{...props}':
            form = 'none'
        if form == 'none':
            self.features.add('attr-boolean')
            return Attr(name, ns, ne)
        self.emit('=')
        vs = self.pos
        is_class = name == 'class'
        if form in ('dq', 'sq'):
            q = '"' if form == 'dq' else "'"
            other = "'" if form == 'dq' else '"'
            body = self.class_body() if is_class else self.quoted_body(other)
            self.emit(q + body + q)
            inner = (vs + 1, vs + 1 + len(body))
            self.features.add('attr-quoted')
        elif form == 'unq':
            body = ''.join(rng.choice(UCH) for _ in range(rng.randint(1, 6)))
            self.emit(body)
            inner = (vs, vs + len(body))
            self.features.add('attr-unquoted')
        else:
            body = self.class_body() if is_class else self.expr_body()
            self.emit('{' + body + '}')
            inner = (vs + 1, vs + 1 + len(body))
            self.features.add('attr-expression')
        ve = self.pos
        a = Attr(name, ns, ne, True, vs, ve, inner)   # value text filled in from the final document
        if is_class:
            self.features.add('attr-class')
        return a

    def open_tag(self, name, self_close, attrs_spec=None):
        """emit `<name attrs>` or `<name attrs/>`; returns (range, attrs)"""
        rng = self.rng
        start = self.pos
        self.emit('<' + name)
        attrs = []
        if attrs_spec is not None:
            for text_fn in attrs_spec:
                self.emit(rng.choice(WS))
                attrs.append(text_fn())
        else:
            for _ in range(rng.choice([0, 0, 0, 0, 1, 1, 2, 3, 5])):
                self.emit(rng.choice(WS))
                attrs.append(self.attribute(force_class=rng.random() < 0.15))
        if self_close:
            self.emit(rng.choice(['/', ' /', '\n/']))
        else:
            self.emit(rng.choice(['', '', '', ' ', '\n']))
        self.emit('>')
        return (start, self.pos), attrs

    def raw_attr(self, name, quoted_value):
        def fn():
            ns = self.pos
            self.emit(name)
            ne = self.pos
            self.emit('=')
            vs = self.pos
            self.emit(quoted_value)
            ve = self.pos
            if quoted_value[0] in '"\'':
                inner = (vs + 1, ve - 1)
            else:
                inner = (vs, ve)
            return Attr(name, ns, ne, True, vs, ve, inner)
        return fn

    def text(self):
        rng = self.rng
        self.emit(''.join(rng.choice(TEXT) for _ in range(rng.choice([0, 1, 1, 2, 4]))))

    def markupish(self, forbid):
        rng = self.rng
        for _ in range(20):
            s = ''.join(rng.choice(MARKUPISH) for _ in range(rng.choice([0, 1, 2, 3, 5, 8])))
            if not any(f in s for f in forbid):
                return s
        return ' x '

    def non_element(self):
        rng = self.rng
        r = rng.random()
        if r < 0.45:
            self.text()
        elif r < 0.65:
            body = self.markupish(['--'])
            if body[:1] in ('>', '-') or body.endswith('-'):
                body = ' ' + body + ' '
            self.emit('<!--' + body + '-->')
            self.features.add('comment')
        elif r < 0.8:
            self.emit('<![CDATA[' + self.markupish([']]>']) + ']]>')
            self.features.add('cdata')
        elif r < 0.95:
            # processing instruction: quotes balanced, no `?>` outside quotes; a quoted string may
            # contain `?>` (and markup after it): the scanner must skip the string as a whole
            parts = []
            for _ in range(rng.choice([0, 1, 2, 3])):
                if rng.random() < 0.4:
                    q = rng.choice('"\'')
                    inner = ''.join(rng.choice(['<b>', 'a', ' ', '</a>', '>', '1.0', 'é', '?>', '?><i>', '?'])
                                    for _ in range(rng.randint(0, 3)))
                    if '?>' in inner:
                        self.features.add('pi-quoted-terminator')
                    parts.append(q + inner + q)
                else:
                    parts.append(rng.choice([' ', 'version=', 'echo ', '<b>', 'a>b', ';', '? ', '<x y=1>', '</x>']))
            body = ''.join(parts)
            self.emit('<?' + rng.choice(['xml', 'php', 'x-y', '']) + ' ' + body + '?>')
            self.features.add('pi')
        else:
            self.emit(rng.choice(['<!DOCTYPE html>', '<!doctype x [ ]>', '<!ELEMENT a>']))
            self.features.add('doctype')

    # ---- tree
    def element(self, depth, parent):
        rng = self.rng
        self.budget -= 1
        r = rng.random()
        can_nest = depth < self.max_depth
        if r < 0.14 and not self.xml:
            # void element in HTML mode: `<br>` or `<br/>`
            name = rng.choice(VOID)
            self_close = rng.random() < 0.3
            rngs, attrs = self.open_tag(name, self_close)
            e = Elem(name, 3 if self_close else 1, rngs, None, attrs)
            self.features.add('void-selfclosed' if self_close else 'void')
        elif r < 0.28:
            name = rng.choice(NAMES + (VOID if self.xml else []))
            rngs, attrs = self.open_tag(name, True)
            e = Elem(name, 3, rngs, None, attrs)
            self.features.add('self-closed')
        elif r < 0.38:
            return self.special(depth, parent)
        else:
            name = rng.choice(NAMES + (VOID[:4] if self.xml else []))
            if self.xml and name in VOID:
                self.features.add('xml-void-name-paired')
            rngs, attrs = self.open_tag(name, False)
            e = Elem(name, 1, rngs, None, attrs)
            self.register(e, parent)
            if can_nest:
                self.children(depth + 1, e)
            else:
                self.text()
            cs = self.pos
            self.emit('</' + name + '>')
            e.close = (cs, self.pos)
            self.events.append((name, 2, cs, self.pos))
            self.features.add('paired')
            return e
        self.register(e, parent)
        return e

    def register(self, e, parent):
        e.parent = parent
        self.elems.append(e)
        self.events.append((e.name, e.etype, e.open[0], e.open[1]))
        if parent is not None:
            parent.children.append(e)

    def special(self, depth, parent):
        rng = self.rng
        name = rng.choice(['script', 'style', 'script'])
        spec = []
        markup_body = False
        extra = rng.random() < 0.3
        if extra:
            spec.append(lambda: self.attribute())
        if name == 'script':
            r = rng.random()
            if r < 0.35:
                t = rng.choice(JS_TYPES + [''])
                q = rng.choice(['"', "'"])
                spec.append(self.raw_attr('type', q + t + q))
            elif r < 0.45:
                spec.append(self.raw_attr('type', rng.choice(['coffee', 'ts', 'javascript'])))
            elif r < 0.7:
                t = rng.choice(MARKUP_TYPES)
                q = rng.choice(['"', "'", ''])
                spec.append(self.raw_attr('type', q + t.replace('/', '/' if q else '-') + q))
                markup_body = True
        elif rng.random() < 0.3:
            spec.append(self.raw_attr('type', '"text/css"'))
        if extra and rng.random() < 0.5:
            spec.reverse()
        rngs, attrs = self.open_tag(name, False, spec)
        e = Elem(name, 1, rngs, None, attrs)
        self.register(e, parent)
        if markup_body:
            self.features.add('script-with-markup-type')
            if depth < self.max_depth:
                self.children(depth + 1, e)
        else:
            self.emit(self.markupish(['</' + name + '>']))
            self.features.add('special-' + name)
        cs = self.pos
        self.emit('</' + name + '>')
        e.close = (cs, self.pos)
        self.events.append((name, 2, cs, self.pos))
        return e

    def children(self, depth, parent):
        rng = self.rng
        if self.shape == 'wide' and depth <= 2:
            n = rng.randint(8, 30)
        elif self.shape == 'deep':
            n = rng.choice([1, 1, 1, 2])
        else:
            n = rng.choice([0, 1, 1, 2, 2, 3, 4, 6])
        for _ in range(n):
            if rng.random() < 0.35:
                self.non_element()
            if self.budget <= 0:
                break
            self.element(depth, parent)
        if rng.random() < 0.3:
            self.non_element()


def gen_document(rng, xml=False, max_nodes=60, max_depth=8, shape=None):
    shape = shape or rng.choice(['mixed', 'mixed', 'mixed', 'wide', 'deep'])
    budget = rng.choice([1, 2, 3, 4, 6, 8, 10, 14, 20, 30, 45, 60])
    if shape == 'wide':
        budget = max(budget, 25)
    elif shape == 'deep':
        budget = max(budget, 8)
    b = _Builder(rng, xml, min(budget, max_nodes), max_depth, shape)
    if rng.random() < 0.2:
        b.non_element()
    roots = []
    n_roots = rng.choice([1, 1, 1, 2, 3]) if shape != 'wide' else rng.randint(3, 12)
    for _ in range(n_roots):
        if b.budget <= 0:
            break
        e = b.element(1, None)
        roots.append(e)
        if rng.random() < 0.4:
            b.non_element()
    text = ''.join(b.buf)
    # fill in attribute strings / class tokens from the final text
    for e in b.elems:
        for a in e.attrs:
            if a.value is not None:
                a.value = text[a.vs:a.ve]
                a.tokens = words(text[a.inner[0]:a.inner[1]], a.inner[0])
    b.features.add('shape-' + shape)
    b.features.add('xml' if xml else 'html')
    return Doc(text, xml, roots, b.elems, b.events, b.features)


# ---------------------------------------------------------------- ground-truth queries
def depth_of(e):
    d = 0
    while e.parent is not None:
        e = e.parent
        d += 1
    return d


def enclosing_chain(doc, pos):
    """elements strictly containing pos, innermost first"""
    out = []
    level = doc.roots
    while True:
        hit = None
        for e in level:
            if e.start < pos < e.end:
                hit = e
                break
        if hit is None:
            break
        out.append(hit)
        level = hit.children
    out.reverse()
    return out


def inward_candidates(doc, pos):
    """elements 'at the position': range contains pos (inclusive for pairs, strict
    for single tags) and no descendant does"""
    out = []

    def walk(level):
        found = False
        for e in level:
            inside = (e.start <= pos <= e.end) if e.close else (e.start < pos < e.end)
            if inside:
                found = True
                if not walk(e.children):
                    out.append(e)
            elif e.start > pos:
                break
        return found
    walk(doc.roots)
    return out


def first_child_chain(e):
    out = []
    while e.children:
        e = e.children[0]
        out.append(e)
    return out


# ---------------------------------------------------------------- malformed inputs
ALPHABET = ['<', '>', '/', 'a', 'b', '=', '"', "'", ' ', '!', '-', '[', ']', '?', '{', '}', '\\']
FRAGS = ['<a>', '</a>', '<b>', '</b>', '<b', '<a ', ' a="', '"', "'", '<!--', '-->', '<![CDATA[', ']]>', '<?', '?>', '/>',
         '>', '<', '</', 'a=b', ' b=', '{', '}', '[', ']', '(', ')', '\\', ' ', '\n', 'ab', '<ab>', '</ab>', '<a/>', '*a', '#b',
         'type=', 'type="a"', "type='", '<script>', '</script>', '<style>', '</style>', '<script type="x">', '<br>', '<img ',
         '=', '!', '-', '?', 'é', ' ', '\t', '<a b="\\', "<a b='>'>", '<a {>}>', '<a <b>>', '<!', '<!-', '<![', ']]',
         '--', '</a >', '< a>', '<a\\>', '<a b=\\>',
         '[*', '(#', '{*', '<#', '[* ', '(# ', '*', '#', ' *', ' #', ' "x"', " 'y'", '""', '<a [', '<a (', '[x]=', '(y)=', '{...z}']


def short_strings(max_len, alphabet=None):
    import itertools
    alphabet = alphabet or ALPHABET
    for n in range(0, max_len + 1):
        for tup in itertools.product(alphabet, repeat=n):
            yield ''.join(tup)


def gen_malformed(rng, max_len=40):
    r = rng.random()
    if r < 0.4:
        return ''.join(rng.choice(ALPHABET) for _ in range(rng.randint(1, max_len)))
    return ''.join(rng.choice(FRAGS) for _ in range(rng.randint(1, max(2, max_len // 3))))


def mutate(rng, text, max_len=400):
    s = text[:max_len]
    for _ in range(rng.choice([1, 1, 2, 3, 5])):
        if not s:
            s = rng.choice(FRAGS)
            continue
        i = rng.randrange(len(s) + 1)
        r = rng.random()
        if r < 0.3:
            j = min(len(s), i + rng.choice([1, 1, 2, 5]))
            s = s[:i] + s[j:]
        elif r < 0.55:
            s = s[:i] + rng.choice(ALPHABET) + s[i:]
        elif r < 0.75:
            s = s[:i] + rng.choice(FRAGS) + s[i:]
        elif r < 0.85:
            s = s[:i]                     # half-typed file
        elif r < 0.95 and i < len(s):
            s = s[:i] + rng.choice(ALPHABET) + s[i + 1:]
        else:
            j = rng.randrange(len(s) + 1)
            a, b = min(i, j), max(i, j)
            s = s[:b] + s[a:b][:30] + s[b:]
    return s[:max_len]


# ---------------------------------------------------------------- (de)serialisation for corpus / replay files
def doc_to_json(doc):
    def elem(e):
        return {'name': e.name, 'etype': e.etype, 'open': list(e.open), 'close': list(e.close) if e.close else None,
                'attrs': [{'name': a.name, 'ns': a.ns, 'ne': a.ne, 'value': a.value, 'vs': a.vs, 've': a.ve,
                           'inner': list(a.inner) if a.inner else None,
                           'tokens': [list(t) for t in a.tokens] if a.tokens is not None else None} for a in e.attrs],
                'children': [elem(c) for c in e.children]}
    return {'text': doc.text, 'xml': doc.xml, 'roots': [elem(e) for e in doc.roots],
            'events': [list(ev) for ev in doc.events], 'features': sorted(doc.features)}


def doc_from_json(obj):
    elems = []

    def elem(o, parent):
        attrs = [Attr(a['name'], a['ns'], a['ne'], a['value'], a['vs'], a['ve'],
                      tuple(a['inner']) if a['inner'] else None,
                      [tuple(t) for t in a['tokens']] if a['tokens'] is not None else None) for a in o['attrs']]
        e = Elem(o['name'], o['etype'], tuple(o['open']), tuple(o['close']) if o['close'] else None, attrs)
        e.parent = parent
        elems.append(e)
        for c in o['children']:
            e.children.append(elem(c, e))
        return e
    roots = [elem(o, None) for o in obj['roots']]
    return Doc(obj['text'], bool(obj['xml']), roots, elems, [tuple(ev) for ev in obj['events']], set(obj.get('features', [])))
