"""C01 helpers (used by harness/props/c01.py only): documented but RARE ways to write an element, in every position of
the operator grammar.

Three input classes:

  attr-forms  : an element (mostly a NAMELESS one, which must receive the implicit name of its parent) written with every
                documented form of the attribute set -- `[a]` (no value), `[a=v]`, `[a="v"]`, `[a='v']`, `[a={v}]`, `[a=]`,
                `[a=""]` (empty values written explicitly), `[a.]` (boolean), `[!a]` (implied: printed only when it has a
                value), `[!a.]`, `[!a=v]`, `["v"]` / `['v']` / `[v w]` (values for the default attributes), several
                attributes of one or of mixed forms, white space inside the brackets, two attribute sets in a row -- alone
                and next to a class / an id / a text;
  empty-units : a unit that is opened and closed at once or carries text only: `{}` (empty text), `{t}` (text node),
                `[]` / `[ ]` (empty attribute set), with and without `*N`, standing where an element may stand: first, last,
                between siblings, before climbs, at a group start / end, below repeated parents -- directly followed by
                every operator;
  open-groups : the same statements as typed so far, i.e. with the group(s) at the end not closed yet (`w>(x>{}+y`).

Documented facts used by the denotation (Emmet docs, "Abbreviations syntax": "Text: {}", "Custom attributes", "Implicit
tag names"), NOT read from the library:
  * `{...}` without a name in front is a text node: it writes its text and NO tag; the units written after it keep the
    place the operators give them (`x>{t}+y`: y is a child of x; `x>{t}>y`: y stands where the text stands, inside x);
    `{}` is the text node with empty text;
  * an element without a name that carries at least one attribute (of ANY of the forms above, `.class` and `#id`
    included) gets the implicit name of its parent ELEMENT (text nodes have no tag and are no parents);
  * `[]` names no attribute at all.  Whether this still counts as "written with attributes" is not fixed by the
    statement: BOTH readings are accepted (no element at all / one element with the implicit name);
  * an abbreviation whose last group(s) are not closed yet is outside the documented grammar: it may be rejected; when
    it is expanded, the tree must be the one the operators written so far denote (the open group has no `*N`).
"""
import json
import os

import abbr_gen as g

CORPUS = os.path.join(os.path.dirname(os.path.dirname(os.path.abspath(__file__))), 'corpus', 'C01')

# attribute sets as (label, [attrs in abbr_gen.El form: (name text, value or None, quote)])
ATTR_FORMS = [
    ('name-only', [('t', None, '')]),
    ('unquoted', [('t', 'v', '')]),
    ('double-quoted', [('t', 'v w', '"')]),
    ('single-quoted', [('t', 'v', "'")]),
    ('expression', [('t', 'v', '{')]),
    ('empty-unquoted', [('t', '', '')]),
    ('empty-quoted', [('t', '', '"')]),
    ('empty-single-quoted', [('t', '', "'")]),
    ('boolean', [('t.', None, '')]),
    ('implied', [('!t', None, '')]),
    ('implied-boolean', [('!t.', None, '')]),
    ('implied-valued', [('!t', 'v', '')]),
    ('implied-empty-quoted', [('!t', '', '"')]),
    ('default-value-quoted', [('"v"', None, '')]),
    ('default-value-single-quoted', [("'v'", None, '')]),
    ('default-value-empty', [('""', None, '')]),
    ('two-names', [('t', None, ''), ('u', None, '')]),
    ('two-implied', [('!t', None, ''), ('!u', None, '')]),
    ('two-boolean', [('t.', None, ''), ('u.', None, '')]),
    ('implied+boolean-implied', [('!t', None, ''), ('!u.', None, '')]),
    ('implied+plain', [('!t', None, ''), ('u', None, '')]),
    ('implied+valued', [('!t', None, ''), ('u', 'v', '')]),
    ('three-mixed', [('t', 'v', '"'), ('!u', None, ''), ('w.', None, '')]),
    ('spaces-inside', [(' t', None, ''), (' ', None, '')]),
    ('spaces-around-implied', [(' !t', None, ''), ('', None, '')]),
    ('dashed-name', [('data-t', 'v', '')]),
    ('namespaced-name', [('xml:t', 'v', '"')]),
    ('upper-case-name', [('T', None, '')]),
    ('implied-upper-case', [('!Title', None, '')]),
]
# what stands next to the attribute set on the same element
BESIDE = [('alone', {}), ('alone', {}), ('alone', {}), ('class', dict(classes=['c'])), ('id', dict(id='i')), ('text', dict(text='w'))]
TEXTS = ['t', 'some text', 'T', '1', 'a b c']
EMPTY_NODE_CHILDREN = True    # generator class "`{}` / `[]` directly followed by `>`" on / off (on since the repair "fix: the
                              # children of a text-only node are written also when its text is empty" of html.py element();
                              # on the unrepaired library the elements written below such a unit are not printed at all)
EMPTY_NODE_IMPLICIT_CHILD = True    # listed finding C01:implicit-name-below-empty-nameless-unit;   # sub-class of the above: an element WITHOUT NAME (implicit name) whose nearest written
                              # ancestor node is an empty `{}` / `[]` unit, e.g. `ol>{}>.c`.  Off: the library names it after the
                              # nameless unit (`div`) instead of after the enclosing element (`li`; `ol>{t}>.c` gives `li`): convert.py
                              # convert_element() moves the children of a text-only node up only when `elem.value` is truthy and `[]`
                              # is falsy in Python (truthy in the JS original).  Open: see known_findings.d/emptynode.json "notes".


# ---------------------------------------------------------------- the units
def text_unit(text, repeat=None):
    return g.El(name=None, text=text, repeat=repeat)


def bracket_unit(inner='', repeat=None):
    """`[]` (inner '') or `[ ]` (inner ' ')."""
    return g.El(name=None, attrs=[(inner, None, '')], repeat=repeat)


def is_text_unit(el):
    return el is not None and not el.name and el.id is None and not el.classes and not el.attrs and el.text is not None


def is_bracket_unit(el):
    return (el is not None and not el.name and el.id is None and not el.classes and el.text is None and bool(el.attrs)
            and all(v is None and not n.strip() for n, v, q in el.attrs))


def is_empty_unit(el):
    return is_bracket_unit(el) or (is_text_unit(el) and el.text == '')


def transparent(nodes, brackets_are_elements):
    """Denotation of text nodes / empty attribute sets: they write no tag, the units below them keep their place (for
    the element tree exactly what a group does)."""
    out = []
    for n in nodes:
        m = g.Node(n.el, n.repeat)
        m.kids = transparent(n.kids, brackets_are_elements)
        if is_text_unit(n.el) or (is_bracket_unit(n.el) and not brackets_are_elements):
            m.el = None
        out.append(m)
    return out


def has_bracket_unit(stmt):
    return any(has_bracket_unit(u.items) if isinstance(u, g.Group) else is_bracket_unit(u) for u, _ in stmt)


def denotations(stmt, parent_name=None):
    """Every acceptable (depth, name) preorder of the statement: one, or two when it holds a `[]` unit."""
    top = g.denote_stmt(stmt)
    readings = [False, True] if has_bracket_unit(stmt) else [False]
    out = []
    for rd in readings:
        p = g.preorder(g.unroll(transparent(top, rd), parent_name=parent_name))
        if p not in out:
            out.append(p)
    return out


def render_open(stmt):
    """The statement as typed so far: the group(s) that END it are still open (no `)`, hence no `*N`); None when the
    statement does not end in a group or that group carries a repeater."""
    if not stmt or not isinstance(stmt[-1][0], g.Group) or stmt[-1][0].repeat is not None:
        return None
    inner = stmt[-1][0].items
    tail = render_open(inner)
    return g.render(stmt[:-1]) + '(' + (tail if tail is not None else g.render(inner))


def implicit_below_empty(stmt):
    """ids of the empty units of `stmt` that are the nearest node above an element without name (the children of a text
    node with text are moved up beside it by the converter, groups write nothing)."""
    found = set()

    def scan(nodes, empty_parent):
        for n in nodes:
            if n.el is None:
                scan(n.kids, empty_parent)
            elif is_empty_unit(n.el):
                scan(n.kids, n)
            elif is_text_unit(n.el):
                scan(n.kids, empty_parent)
            else:
                if not n.el.name and empty_parent is not None:
                    found.add(id(empty_parent.el))
                scan(n.kids, None)
    scan(g.denote_stmt(stmt), None)
    return found


def fix_empty_children(stmt):
    """Unless EMPTY_NODE_CHILDREN: an empty unit is never directly followed by `>`.  Unless EMPTY_NODE_IMPLICIT_CHILD: the
    `>` after an empty unit becomes `+` where an element without name would stand directly below that unit."""
    if EMPTY_NODE_CHILDREN and EMPTY_NODE_IMPLICIT_CHILD:
        return stmt

    def rewrite(items, which):
        out = []
        for unit, op in items:
            if isinstance(unit, g.Group):
                unit = g.Group(rewrite(unit.items, which), unit.repeat)
            elif op == '>' and is_empty_unit(unit) and (which is None or id(unit) in which):
                op = '+'
            out.append((unit, op))
        return out
    if not EMPTY_NODE_CHILDREN:
        return rewrite(stmt, None)
    for _ in range(64):
        which = implicit_below_empty(stmt)
        if not which:
            break
        stmt = rewrite(stmt, which)
    return stmt


def size_ok(stmt, limit=300):
    return g.total_copies(g.unroll(g.denote_stmt(stmt))) <= limit


# ---------------------------------------------------------------- generators
def rare_cases(ctx, names, configs, parents):
    """-> list of (abbr, cfg, [acceptable preorders], may_reject).  `parents`: names used as parent of nameless elements
    (documented mapped parents, inline, block / unknown names)."""
    rng = ctx.rng
    quick = ctx.tier == 'quick'
    out = []
    seen = set()
    k = [0]
    # ---- corpus/C01/*.json: inputs that exposed defects ({"abbr", "config", "metas": [preorder, ...], "may_reject", "note"})
    if os.path.isdir(CORPUS):
        for fn in sorted(os.listdir(CORPUS)):
            if fn.endswith('.json'):
                with open(os.path.join(CORPUS, fn)) as f:
                    recs = json.load(f)
                for rec in (recs if isinstance(recs, list) else [recs]):
                    out.append((rec['abbr'], rec.get('config') or {}, [[tuple(x) for x in m] for m in rec['metas']], bool(rec.get('may_reject'))))
                    ctx.cover('rare:corpus')

    def emit(stmt, label, cfg=None):
        stmt = fix_empty_children(stmt)
        if not size_ok(stmt):
            return
        if cfg is None:
            cfg = configs[k[0] % len(configs)]
            k[0] += 1
        metas = denotations(stmt)
        abbr = g.render(stmt)
        if (abbr, id(cfg)) not in seen:
            seen.add((abbr, id(cfg)))
            out.append((abbr, cfg, metas, False))
            ctx.cover('rare:%s' % label)
        opened = render_open(stmt)
        if opened is not None and (opened, id(cfg)) not in seen and (label.startswith('empty-units') or rng.random() < 0.5):
            seen.add((opened, id(cfg)))
            out.append((opened, cfg, metas, True))
            ctx.cover('rare:open-groups')

    def other(rep=None):
        return g.El(name=rng.choice(names), repeat=rep)

    # ---- attr-forms: every form x where it stands x what stands beside it
    def attr_el(attrs, name=None, repeat=None, beside=None):
        kw = dict(beside if beside is not None else rng.choice(BESIDE)[1])
        return g.El(name=name, attrs=list(attrs), repeat=repeat, **kw)

    def attr_frames(p, mk):
        return [
            ('child', [(g.El(name=p), '>'), (mk(), '>'), (other(), '')]),
            ('leaf-child', [(g.El(name=p), '>'), (mk(), '')]),
            ('nested-twice', [(g.El(name=p), '>'), (mk(), '>'), (mk(), '>'), (other(), '')]),
            ('below-repeated-parent', [(other(), '>'), (g.El(name=p, repeat=2), '>'), (mk(), '+'), (mk(), '>'), (other(), '')]),
            ('repeated', [(g.El(name=p), '>'), (mk(repeat=2), '>'), (other(), '^'), (mk(), '')]),
            ('in-repeated-group', [(g.El(name=p), '>'), (g.Group([(mk(), '>'), (other(), '')], repeat=2), '+'), (mk(), '')]),
            ('after-climb', [(other(), '>'), (g.El(name=p), '>'), (other(), '>'), (other(), '^^'), (mk(), '>'), (other(), '')]),
            ('group-at-end', [(g.El(name=p), '>'), (other(), '+'), (g.Group([(mk(), '>'), (g.Group([(mk(), '+'), (other(), '')]), '')]), '')]),
            ('top-level', [(mk(), '>'), (g.El(name=p), '>'), (mk(), '')]),
        ]
    n_frames = 9
    j = 0
    for label, attrs in ATTR_FORMS:
        for p in parents:
            if quick and rng.random() < 0.55:
                continue
            for bl, beside in ([BESIDE[0]] + ([rng.choice(BESIDE[3:])] if rng.random() < 0.4 else [])):
                mk = lambda repeat=None, a=attrs, b=beside: attr_el(a, repeat=repeat, beside=b)
                for d in ((0, 4) if quick else range(n_frames)):
                    fl, st = attr_frames(p, mk)[(j + d) % n_frames]
                    emit(st, 'attr-forms:nameless-%s' % fl)
                    ctx.cover('rare:attr-form-%s' % label)
                    ctx.cover('rare:attr-set-%s' % bl)
                j += 1
        # the same form on a NAMED element keeps the written name
        nm = rng.choice(names)
        mk = lambda repeat=None, a=attrs: attr_el(a, name=nm, repeat=repeat)
        for fl, st in attr_frames(rng.choice(parents), mk)[:(3 if quick else n_frames)]:
            emit(st, 'attr-forms:named')
    # two attribute sets in a row on one element (`[!t][u]`): rendered as one element followed by nothing else
    # is not expressible in the AST; covered by several attributes in one set (ATTR_FORMS two-* / three-mixed).

    # ---- empty-units: each kind of unit directly followed by each operator, in each frame
    def units():
        return [('{}', lambda rep=None: text_unit('', rep)), ('{text}', lambda rep=None: text_unit(rng.choice(TEXTS), rep)),
                ('[]', lambda rep=None: bracket_unit('', rep)), ('[ ]', lambda rep=None: bracket_unit(' ', rep))]
    ops = ['>', '+', '^', '^^', ')', '']

    def unit_frames(u, op):
        tail = [(other(), '>'), (other(), '')] if rng.random() < 0.5 else [(other(), '')]
        nl = g.El(name=None, classes=['c'])
        if op == ')':
            return [
                ('group-end', [(other(), '>'), (g.Group([(other(), '>'), (u, '')], repeat=rng.choice([None, 2])), '+')] + tail),
                ('group-end', [(g.Group([(u, '')]), '+')] + tail),
                ('group-end', [(other(), '>'), (g.Group([(other(), '+'), (u, '')]), '^')] + tail),
            ]
        body = [(u, '')] if op == '' else [(u, op)] + tail
        p = rng.choice(parents)
        return [
            ('first', list(body)),
            ('child', [(other(), '>')] + body),
            ('between-siblings', [(other(), '>'), (other(), '+')] + body),
            ('two-levels-down', [(other(), '>'), (other(2), '>')] + body),
            ('before-nameless', [(g.El(name=p), '>'), (u, op or '+'), (nl, '>'), (other(), '')]),
            ('group-start', [(other(), '>'), (g.Group(body, repeat=rng.choice([None, 2])), '+'), (other(), '')]),
            ('in-group-at-end', [(other(), '>'), (g.Group([(other(), '>')] + body), '')]),
            ('in-nested-groups-at-end', [(other(), '>'), (g.Group([(other(), '>'), (g.Group([(other(), '>')] + body), '')]), '')]),
            ('after-climb', [(other(), '>'), (other(), '>'), (other(), '^')] + body),
        ]
    for ul, mku in units():
        for op in ops:
            for rep in (None, 2):
                if op == '>' and is_empty_unit(mku()) and not EMPTY_NODE_CHILDREN:
                    continue
                frames = unit_frames(mku(rep), op)
                for fl, st in frames:
                    if quick and rep and rng.random() < 0.5:
                        continue
                    emit(st, 'empty-units:%s' % fl)
                    ctx.cover('rare:unit-%s' % ul)
                    ctx.cover('rare:unit-before-%s' % {'': 'end', ')': 'group-end'}.get(op, op))

    # ---- exhaustive small skeletons with one or two positions taken by a unit / an attribute-only element
    def substitute(stmt, pos, make):
        n = [0]

        def go(items):
            res = []
            for unit, op in items:
                if isinstance(unit, g.Group):
                    unit = g.Group(go(unit.items), unit.repeat)
                else:
                    if n[0] in pos:
                        unit = make(unit.repeat)
                    n[0] += 1
                res.append((unit, op))
            return res
        return go(stmt)
    makers = [lambda rep: text_unit('', rep), lambda rep: text_unit('t', rep), lambda rep: bracket_unit('', rep),
              lambda rep: g.El(name=None, attrs=[('!t', None, '')], repeat=rep), lambda rep: g.El(name=None, attrs=[('t.', None, '')], repeat=rep)]
    for n_units in (2, 3):
        for i, st in enumerate(g.enum_stmts(n_units, names)):
            if n_units == 3 and (i + ctx.seed) % (12 if quick else 2):
                continue
            for pos in range(n_units):
                mk = makers[(i + pos) % len(makers)]
                emit(substitute(st, {pos}, mk), 'skeleton-%d-units' % n_units)

    # ---- random statements: all of it mixed
    def decorate(rng, el):
        r = rng.random()
        if r < 0.30:
            el.name = None if rng.random() < 0.8 else el.name
            el.attrs = list(rng.choice(ATTR_FORMS)[1])
            for key, val in rng.choice(BESIDE)[1].items():
                setattr(el, key, val)
        elif r < 0.42:
            el.name, el.text = None, rng.choice(TEXTS)
        elif r < 0.52:
            el.name, el.text = None, ''
        elif r < 0.58:
            el.name, el.attrs = None, [(rng.choice(['', ' ']), None, '')]
    pool = names + [p for p in parents if p not in names]
    for _ in range(350 if quick else 6000):
        st = g.rand_stmt(rng, pool, rng.randint(2, 10), max_depth=3, rep_max=3, decorate=decorate)
        # the statement ends in open groups more often than rand_stmt alone would make it
        if rng.random() < 0.4:
            st = st + [(g.Group(g.rand_stmt(rng, pool, rng.randint(1, 4), max_depth=1, rep_max=2, decorate=decorate)), '')]
            st[-2] = (st[-2][0], '+' if isinstance(st[-2][0], g.Group) else rng.choice(['>', '+', '^']))
        emit(st, 'random', rng.choice(configs))
    return out


def judge(html_preorder, metas, may_reject, r):
    """Property oracle for a rare case: the element tree of the output is (one of) the denoted tree(s)."""
    if r[0] != 'ok':
        return None if may_reject and r[0] == 'err' else 'expand did not return a string: %r' % (r,)
    got, depth = html_preorder(r[1])
    if depth != 0:
        return 'unbalanced tags in output %r' % r[1]
    if not any(got == [tuple(x) for x in m] for m in metas):
        return 'element tree (depth, name) %r differs from the denoted tree %r%s' % (
            got[:12], [tuple(x) for x in metas[0]][:12], ' (and from the other accepted reading of `[]`)' if len(metas) > 1 else '')
    return None
