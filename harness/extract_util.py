"""Helpers of the C11 check (extract_abbreviation): implementation observer, the
property oracles (stated literally, independent of the Coq model), the stated
round-trip grammar as a recogniser, and the generators."""
import itertools
import json
import os

from common import enc_str, enc_bool, enc_opt, Reader, VERIF

CLOSERS = ')]}'
TRIM = '>+^*'


# ------------------------------------------------------------------ implementation observer
def impl_extract(line, pos, opts):
    """Canonical observable of emmet.extract_abbreviation.extract_abbreviation."""
    from emmet.extract_abbreviation import extract_abbreviation
    try:
        r = extract_abbreviation(line, pos, dict(opts))
    except Exception as e:  # the function has no documented error: never equal to a model result
        return ('internal', type(e).__name__)
    if r is None:
        return None
    return (r.abbreviation, r.location, r.start, r.end)


def impl_is_html(text):
    from emmet.extract_abbreviation import is_at_html_tag
    from emmet.extract_abbreviation.reader import BackwardScanner
    try:
        s = BackwardScanner(text)
        ok = bool(is_at_html_tag(s))
        if s.pos != len(text):
            return ('moved', s.pos)
        return ok
    except Exception as e:
        return ('internal', type(e).__name__)


def impl_consume_quoted(text):
    from emmet.extract_abbreviation.is_html import consume_quoted
    from emmet.extract_abbreviation.reader import BackwardScanner
    try:
        s = BackwardScanner(text)
        ok = bool(consume_quoted(s))
        if not ok:
            return None if s.pos == len(text) else ('moved', s.pos)
        return s.pos
    except Exception as e:
        return ('internal', type(e).__name__)


def full_opts(opts):
    o = {'type': 'markup', 'lookAhead': True, 'prefix': ''}
    o.update(opts)
    return o


def enc_case(line, pos, opts):
    o = full_opts(opts)
    return [1] + enc_str(line) + enc_opt(lambda z: [z], pos) + enc_str(o['type']) + \
        enc_bool(bool(o['lookAhead'])) + enc_str(o['prefix'])


def dec_result(w):
    r = Reader(w)
    t = r.int()
    if t == 0 and r.done():
        return None
    if t != 1:
        return ('bad', w)
    a = r.str()
    out = (a, r.int(), r.int(), r.int())
    return out if r.done() else ('bad', w)


# ------------------------------------------------------------------ property oracle: consistency
def clamp(line, pos):
    return len(line) if pos is None else min(len(line), max(0, pos))


def consistency_oracle(line, pos, opts, res):
    """The consistency clauses of C11, literally.  None = holds, else a description."""
    if res is None:
        return None
    if res[0] == 'internal':
        return 'extract_abbreviation raised %s' % res[1]
    o = full_opts(opts)
    abbr, loc, start, end = res
    for nm, v in (('location', loc), ('start', start), ('end', end)):
        if not isinstance(v, int) or isinstance(v, bool):
            return '%s is not an integer: %r' % (nm, v)
    if not isinstance(abbr, str):
        return 'abbreviation is not a string: %r' % (abbr,)
    if not (0 <= start <= loc <= end <= len(line)):
        return 'not 0 <= start(%d) <= location(%d) <= end(%d) <= len(%d)' % (start, loc, end, len(line))
    if abbr != line[loc:end]:
        return 'abbreviation %r differs from line[location:end] = %r' % (abbr, line[loc:end])
    if abbr[:1] and abbr[0] in TRIM:
        return 'abbreviation %r begins with a dangling operator' % abbr
    prefix = o['prefix']
    if prefix:
        if line[start:start + len(prefix)] != prefix:
            return 'text at start %d is %r, not the prefix %r' % (start, line[start:start + len(prefix)], prefix)
        if start + len(prefix) > loc:
            return 'abbreviation at %d is not to the right of the prefix %r found at %d' % (loc, prefix, start)
    c = clamp(line, pos)
    if not o['lookAhead']:
        if end != c:
            return 'without look-ahead end %d differs from the caret %d' % (end, c)
    else:
        if end < c:
            return 'end %d is left of the caret %d' % (end, c)
        moved = line[c:end]
        rest = moved[1:] if moved[:1] in ('"', "'") and moved else moved
        if any(ch not in CLOSERS for ch in rest):
            return 'look-ahead moved the end across %r (more than one quote and closing brackets)' % moved
    return None


# ------------------------------------------------------------------ the stated round-trip grammar
def is_abbr_char(c):
    """Characters an abbreviation may contain outside brackets (the stated grammar, fixed here)."""
    return ('a' <= c <= 'z') or ('A' <= c <= 'Z') or c.isdecimal() or c in '#.*:$-_!@%^+>/'


class Reject(Exception):
    pass


def _cu(s, i):
    """after '{': balanced w.r.t. curly braces only; returns index after the matching '}'"""
    while i < len(s):
        c = s[i]
        if c == '}':
            return i + 1
        i = _cu(s, i + 1) if c == '{' else i + 1
    raise Reject('bracket')


def _sq(s, i, closer):
    """inside [...]: balanced w.r.t. all three kinds; inside a nested {...} only curly braces count"""
    while i < len(s):
        c = s[i]
        if c == closer:
            return i + 1
        if c == '(':
            i = _sq(s, i + 1, ')')
        elif c == '[':
            i = _sq(s, i + 1, ']')
        elif c == '{':
            i = _cu(s, i + 1)
        elif c in CLOSERS:
            raise Reject('bracket')
        else:
            i += 1
    raise Reject('bracket')


def items_ok(content):
    """flat (char | q ... q)*: quotes pair up, and outside quoted strings there is no '<' and no backslash"""
    i = 0
    while i < len(content):
        c = content[i]
        if c in '"\'':
            j = content.find(c, i + 1)
            if j < 0:
                return False
            i = j + 1
        elif c in '<\\':
            return False
        else:
            i += 1
    return True


def _top(s, i, markup, closer):
    while i < len(s):
        c = s[i]
        if closer and c == closer:
            return i + 1
        if c == '(':
            i = _top(s, i + 1, markup, ')')
        elif markup and c in '[{':
            j = _sq(s, i + 1, ']') if c == '[' else _cu(s, i + 1)
            if not items_ok(s[i + 1:j - 1]):
                raise Reject('content')
            i = j
        elif c == ')' or (markup and c in ']}'):
            raise Reject('bracket')
        elif is_abbr_char(c):
            i += 1
        else:
            raise Reject('char')
    if closer:
        raise Reject('bracket')
    return i


def grammar_reject(abbr, markup):
    """None if [abbr] belongs to the grammar for which extract_roundtrip is proved,
    else the reason: 'bracket' | 'content' | 'char' | 'start'."""
    if not abbr or abbr[0] in TRIM:
        return 'start'
    try:
        _top(abbr, 0, markup, None)
    except Reject as e:
        return e.args[0]
    return None


def left_safe(left):
    """[safe (rev left)] of the Coq statement: walking left from the abbreviation one meets a '>'
    (or the start of the line) before any '<', backslash or unpaired quote."""
    i = len(left) - 1
    while i >= 0:
        c = left[i]
        if c == '>':
            return True
        if c in '"\'':
            j = left.rfind(c, 0, i)
            if j < 0:
                return False
            i = j - 1
        elif c in '<\\':
            return False
        else:
            i -= 1
    return True


FINDING_KEYS = {
    'bracket': 'roundtrip:unbalanced-bracket-inside-attributes-or-text',
    'content': 'roundtrip:angle-bracket-backslash-or-unpaired-quote-inside-attributes-or-text',
    'char': 'roundtrip:character-outside-extractor-alphabet',
}


# ------------------------------------------------------------------ round-trip cases
class RT:
    """One round-trip case: line = left + abbr + right, caret `back` characters before the end of
    the abbreviation (back > 0 only with look-ahead: the auto-closed tail), options."""
    __slots__ = ('left', 'abbr', 'right', 'back', 'opts', 'lkind', 'rkind')

    def __init__(self, left, abbr, right, back, opts, lkind, rkind):
        self.left, self.abbr, self.right, self.back, self.opts = left, abbr, right, back, opts
        self.lkind, self.rkind = lkind, rkind

    def __repr__(self):
        return '(%r, %r, %r)' % (self.line, self.pos, self.opts)

    @property
    def line(self):
        return self.left + self.abbr + self.right

    @property
    def pos(self):
        return len(self.left) + len(self.abbr) - self.back

    def to_json(self):
        return {'left': self.left, 'abbr': self.abbr, 'right': self.right, 'back': self.back, 'opts': self.opts,
                'lkind': self.lkind, 'rkind': self.rkind}

    @staticmethod
    def from_json(d):
        return RT(d['left'], d['abbr'], d['right'], d.get('back', 0), d.get('opts', {}), d.get('lkind', '?'),
                  d.get('rkind', '?'))


def roundtrip_oracle(rt, res):
    """The round-trip clause of C11 on one embedded abbreviation.  None = holds."""
    if res is None:
        return 'extract returned None instead of %r' % rt.abbr
    if res[0] == 'internal':
        return 'extract_abbreviation raised %s' % res[1]
    abbr, loc, start, end = res
    L = len(rt.left)
    if abbr != rt.abbr or loc != L or end != L + len(rt.abbr):
        return 'extracted %r at %d..%d instead of %r at %d..%d' % (abbr, loc, end, rt.abbr, L, L + len(rt.abbr))
    prefix = full_opts(rt.opts)['prefix']
    if prefix and start != L - len(prefix):
        return 'start %d is not where the prefix %r begins (%d)' % (start, prefix, L - len(prefix))
    return None


def valid_abbreviation(abbr, markup):
    from emmet import expand
    try:
        expand(abbr, {'type': 'markup' if markup else 'stylesheet'})
        return True
    except Exception:
        return False


# ------------------------------------------------------------------ generators
NAMES = ['a', 'div', 'ul', 'li', 'x1', 'foo-bar', 'ns:t', 'h1', 'p', 'span', 'br', 'img', 'A', 'b_c', 'td', 'Foo']
IDENTS = ['a', 'b', 'cls', 'c-d', 'i1', 'e_f', '$', '$$', 'x$', 'a$@-3', 'c@2', 'item$']
ANAMES = ['a', 'title', 'data-x', 'x:y', 'b1', 'href']
TAME_TEXT = list('ab1 =/.#*+^-:!$@%,;?&|~é٣') + [' ']
WILD_TEXT = TAME_TEXT + list('<>"\'[](){}\\<>"\'')
VAL_UNQ = list('ab1-_:.#$@!%/')


def balance_curly(t):
    d = 0
    out = []
    for c in t:
        if c == '{':
            d += 1
            out.append(c)
        elif c == '}':
            if d > 0:
                d -= 1
                out.append(c)
        else:
            out.append(c)
    return ''.join(out) + '}' * d


EMPTY_PAIR_RATE = 0.15      # share of attribute lists / text nodes / (half of it) groups generated EMPTY: [] {} ()


class AbbrGen:
    def __init__(self, rng, wild=False):
        self.rng = rng
        self.text_alpha = WILD_TEXT if wild else TAME_TEXT
        self.wild = wild

    def text(self):
        rng = self.rng
        t = ''.join(rng.choice(self.text_alpha) for _ in range(rng.randint(0, 7)))
        if not self.wild and rng.random() < 0.2:
            t += rng.choice(['"q"', "'s'", '{n}', '(p)', '[s]', 'a > b', '"<b>"', '"\\"', '(a, b)', 'f(x y)', '[u v]', '(p [q r] s)'])
        return balance_curly(t)

    def qval(self, q):
        rng = self.rng
        v = ''.join(rng.choice([c for c in self.text_alpha if c != q and c != '\\']) for _ in range(rng.randint(0, 5)))
        if not self.wild and rng.random() < 0.25:
            v += rng.choice(['(x)', '[y]', '{z}', '<b>', 'a>b', '</i>', "'" if q == '"' else '"', 'f(x, y)', '(a b)', '[c, d]', '{e f}',
                             "go('x')" if q == '"' else 'go("x")', '([k l])', '{(m n)}'])
        return v

    def attr(self):
        rng = self.rng
        r = rng.random()
        nm = rng.choice(ANAMES)
        if r < 0.2:
            return nm
        if r < 0.45:
            return nm + '=' + ''.join(rng.choice(VAL_UNQ) for _ in range(rng.randint(1, 4)))
        if r < 0.8:
            return nm + '="' + self.qval('"') + '"'
        if r < 0.92:
            return nm + "='" + self.qval("'") + "'"
        return nm + '.'

    def element(self):
        rng = self.rng
        s = rng.choice(NAMES) if rng.random() < 0.8 else ''
        for _ in range(rng.randint(0, 3)):
            r = rng.random()
            if r < 0.3:
                s += '.' + rng.choice(IDENTS)
            elif r < 0.5:
                s += '#' + rng.choice(IDENTS)
            elif r < 0.78:
                if rng.random() < EMPTY_PAIR_RATE:     # empty attribute list, written explicitly
                    s += rng.choice(['[]', '[]', '[ ]'])
                else:
                    s += '[' + ' '.join(self.attr() for _ in range(rng.randint(1, 3))) + ']'
            else:
                if rng.random() < EMPTY_PAIR_RATE:     # empty text node (also the state while typing p{|})
                    s += '{}'
                else:
                    s += '{' + self.text() + '}'
        if not s:
            s = rng.choice(NAMES)
        r = rng.random()
        if r < 0.25:
            s += '*' + str(rng.randint(1, 12))
        elif r < 0.3:
            s += '*'
        if rng.random() < 0.05:
            s += '/'
        return s

    def markup(self, depth=0):
        rng = self.rng
        parts = []
        for _ in range(rng.randint(1, 4)):
            if depth < 2 and rng.random() < 0.15:
                g = '()' if rng.random() < EMPTY_PAIR_RATE / 2 else '(' + self.markup(depth + 1) + ')'
                if rng.random() < 0.4:
                    g += '*' + str(rng.randint(1, 5))
                parts.append(g)
            else:
                parts.append(self.element())
        s = parts[0]
        for p in parts[1:]:
            s += rng.choice(['>', '>', '+', '+', '^', '^^']) + p
        if rng.random() < 0.04:
            s += '+'
        return s

    def css_value(self):
        rng = self.rng
        r = rng.random()
        if r < 0.35:
            return str(rng.randint(0, 120)) + rng.choice(['', '', 'p', 'e', 'x', 'px', '%', 'r'])
        if r < 0.45:
            return '-' + str(rng.randint(1, 20))
        if r < 0.55:
            return rng.choice(['1.5', '.5', '0.25']) + rng.choice(['', 'e'])
        if r < 0.7:
            return '#' + rng.choice(['f', 'fc0', 'ff0000', 'f.5', '0', 'a1'])
        if r < 0.8:
            return rng.choice(['a', 'n', 'b', 'auto', 's'])
        if r < 0.88:
            return '$' + rng.choice(['a', 'foo', 'x-y'])
        if self.wild or rng.random() < 0.3:
            return rng.choice(['lg(#fff,#000)', 'rgb(0, 0, 0)', 'lg(top, a)', 'f(a)']) if self.wild else \
                rng.choice(['f(a)', 'lg(a)', 'c(#f00)', 'g(1)', 'f()'])
        return str(rng.randint(1, 9))

    def css_prop(self):
        rng = self.rng
        nm = rng.choice(['m', 'p', 'bd', 'c', 'w', 'h', 'fz', 'bg', 'pos', 'd', 'mt', 'trf', 'fl', '@k', '@m', 'bgc', 'lh', 'op'])
        r = rng.random()
        if r < 0.15:
            s = nm
        elif r < 0.3:
            s = nm + ':' + rng.choice(['a', 'n', 'r', 'l'])
        else:
            s = nm + self.css_value()
            for _ in range(rng.randint(0, 2)):
                s += '-' + self.css_value()
        if rng.random() < 0.1:
            s += '!'
        return s

    def stylesheet(self):
        rng = self.rng
        return '+'.join(self.css_prop() for _ in range(rng.randint(1, 3)))


# left contexts: (kind, text).  Each is [safe] in the sense of the statement.
LEFTS = [
    ('sol', ''),
    ('ws', ' '), ('ws', 'foo '), ('ws', '\t'), ('ws', 'x=1 \t'), ('ws', 'a > b '), ('ws', '<p>hi</p> '),
    ('ws', 'say "hi" '), ('ws', 'ul>li '),
    ('tag', '<div>'), ('tag', '<a href="x">'), ('tag', '</p>'), ('tag', '<br/>'), ('tag', '<br />'),
    ('tag', '<div title=x>'), ('tag', '<div a=b c="d e">'), ('tag', '<input disabled>'), ('tag', 'text <b>'),
    ('tag', '<p>hi</p>'), ('tag', "<a title='<>' x>"), ('tag', '<ns:el data-a="1" b=2 c />'), ('tag', '</foo-bar >'),
    ('tag', '<p a="" >'), ('tag', '>>> <i\tb>'),
    ('tag', '<div  a=b>'), ('tag', '<div \ta=b  c>'), ('tag', '<a   href="x"   >'), ('tag', '<td  colspan=2  \t>'),
]


def gen_clean_tag(rng):
    """a complete, well-formed HTML tag with arbitrary white-space runs between its parts"""
    def ws(lo=1):
        return ''.join(rng.choice(' \t') for _ in range(rng.randint(lo, 3)))
    nm = rng.choice(['div', 'a', 'br', 'foo-bar', 'ns:el', 'h1', 'x', 'td'])
    if rng.random() < 0.15:
        return '</' + nm + ws(0) + '>'
    s = '<' + nm
    for _ in range(rng.randint(0, 3)):
        s += ws()
        an = rng.choice(['a', 'title', 'data-x', 'x:y', 'b1', 'hidden'])
        r = rng.random()
        if r < 0.25:
            s += an
        elif r < 0.55:
            s += an + '=' + rng.choice(['b', 'c1', 'x-y', 'x_1', '10', 'true'])
        elif r < 0.85:
            s += an + '="' + rng.choice(['', 'b', 'b c', '<>', "it's", 'a=b', 'x > y', ' ']) + '"'
        else:
            s += an + "='" + rng.choice(['', 'b', 'b c', '"', '>', 'a=']) + "'"
    s += rng.choice(['', '', ws(), ws() + '/', '/'])
    return s + '>'
RIGHTS = [('eol', ''), ('ws-text', ' tail'), ('ws-text', '\tx>y'), ('ws-text', ' <b>'), ('text', 'foo'), ('text', '<i>')]
PREFIXES = ['<', '>>>', '!!', 'x-', '=', '</', '\\']


def auto_closed_tail(abbr, markup):
    """lengths of the tails of [abbr] an editor could have auto-inserted: quote? closer*"""
    closers = CLOSERS if markup else ')'
    n = 0
    while n < len(abbr) and abbr[len(abbr) - 1 - n] in closers:
        n += 1
    out = list(range(1, n + 1))
    if n < len(abbr) and abbr[len(abbr) - 1 - n] in '"\'':
        out.append(n + 1)
    return out


def rt_cases(rng, abbr, markup, budget):
    """Embeddings of one abbreviation: left x right x look-ahead x prefix."""
    ty = 'markup' if markup else 'stylesheet'
    closers = CLOSERS if markup else ')'
    combos = []
    for lk, left in LEFTS:
        for rk, right in RIGHTS:
            combos.append((lk, left, rk, right))
    rng.shuffle(combos)
    for _ in range(2):
        combos.insert(rng.randint(0, max(0, min(budget, len(combos)) - 1)), ('tag', gen_clean_tag(rng)) + rng.choice(RIGHTS))
    out = []
    for lk, left, rk, right in combos[:budget]:
        for look in (True, False):
            out.append(RT(left, abbr, right, 0, {'type': ty, 'lookAhead': look}, lk, rk))
        # auto-closed tail under look-ahead
        tails = auto_closed_tail(abbr, markup)
        if tails:
            back = rng.choice(tails)
            if not (right[:1] and right[0] in closers):
                out.append(RT(left, abbr, right, back, {'type': ty, 'lookAhead': True}, lk, 'auto-closed+' + rk))
    # prefix: the prefix is the left context; anything may precede it
    usable = [p for p in PREFIXES if p[-1] not in abbr]
    for _ in range(2):
        if not usable:
            break
        p = rng.choice(usable)
        before = rng.choice(['', 'foo', 'x ', '<div>', 'a[b]', p])
        rk, right = rng.choice(RIGHTS)
        look = rng.random() < 0.5
        out.append(RT(before + p, abbr, right, 0, {'type': ty, 'lookAhead': look, 'prefix': p}, 'prefix', rk))
    return out


def gen_tag(rng):
    """a (mostly) complete HTML tag, for the is_html stream"""
    nm = rng.choice(['div', 'a', 'br', 'foo-bar', 'ns:el', 'h1', 'x'])
    if rng.random() < 0.2:
        return '</' + nm + rng.choice(['', ' ', '\t']) + '>'
    s = '<' + nm
    for _ in range(rng.randint(0, 3)):
        s += rng.choice([' ', '  ', '\t', ' \t'])
        an = rng.choice(['a', 'title', 'data-x', 'x:y', 'b1'])
        r = rng.random()
        if r < 0.25:
            s += an
        elif r < 0.5:
            s += an + '=' + rng.choice(['b', 'c1', 'x-y', '^b$', 'a]$', '{c}', '(d)', '/e', 'f/', 'привет', 'a>b', 'a<b', '[q', 'é'])
        elif r < 0.85:
            s += an + '="' + rng.choice(['', 'b', 'b c', '<>', "it's", 'a=b', '\\', 'x\\', '{', ']']) + '"'
        else:
            s += an + "='" + rng.choice(['', 'b', 'b c', '"', '>', 'a=']) + "'"
    s += rng.choice(['', '', ' ', '\t', '/', ' /'])
    return s + '>'


# ------------------------------------------------------------------ prefix round trip (prefix search)
# The statement proved on the model (C11_extract_roundtrip_prefix_partial) puts NO condition on the text
# left of the prefix: whatever precedes it -- unmatched or matched brackets of every kind, quotes, tags,
# earlier occurrences of the prefix (whole or in part), an earlier prefixed abbreviation -- the
# abbreviation directly right of the prefix comes back exactly, with start at the prefix.  Its conditions
# are on the prefix and the abbreviation only (prefix_rt_applicable).
PREFIXES_RICH = ['!', '&&', '>>>', '<', '@@', 'em:', '::', '$', '=', '{', '[', '(', '! ', 'x-', '</', 'é', '٣x', '"', "]'", '}!',
                 '{{', '[!', '-- ']

# shapes of bracket pairs as the prefix search meets them walking left from the caret: none, empty,
# non-empty, nested, adjacent, empty inside non-empty, a pair followed by more text
PREFIX_SHAPES = ['p', 'p{}', 'a[]', 'p{x}', 'a[b]', 'a[]{}', 'ul>li{}', 'a[b=""]{}', 'p{a{b}}', 'p{{}}', '(a[])', 'a()',
                 'p{}+q{y}', 'a[b]{c}*2>d[]', 'p{[a]}', 'a[b="{}"]', '{}', 'a[]>b', 'p{}*3']
PREFIX_SHAPES_CSS = ['m10', 'f()', 'c(#f00)', 'p10+m(a)']

# alphabet of the exhaustive left texts ('P' = the whole prefix, 'Q' = its last character)
BEFORE_ALPHA = ['{', '}', '[', ']', '(', ')', ' ', 'a', '"', 'P', 'Q']

BEFORE_FRAGS = ['{', '}', '[', ']', '(', ')', '{', '[', '{}', '[]', '()', '{x}', '[a]', '(b)', 'fn(){ ', 'x[0] ', 'arr[i] = [ ',
                'a{b} ', '<i class={c}> ', 'if (x) { ', '} else { ', '];', '});', 'p{', 'a[', 'a[b="', ' ', '\t', '\n', 'foo',
                '<div>', '</p>', '<br />', '"', "'", 'a="b"', '\\', 'ul>li', '>', '+', 'é', '٣', '${', '{{ x }}', '[[', ']]']


def prefix_rt_applicable(abbr, prefix):
    """The conditions of the prefix round trip: the last character of the prefix is not ] } or a
    backslash and does not occur in the abbreviation, and the first ] / } of the abbreviation (hence
    every one) has a [ / { somewhere to its left inside the abbreviation."""
    x = prefix[-1:]
    if not x or x in ']}\\' or x in abbr:
        return False
    for cl, op in ((']', '['), ('}', '{')):
        i = abbr.find(cl)
        if i >= 0 and op not in abbr[:i]:
            return False
    return True


def before_kind(before, prefix):
    """bucket of a text left of the prefix, for the coverage record"""
    ks = []
    for op, cl, nm in (('{', '}', 'curly'), ('[', ']', 'square')):
        d = 0
        un_open = un_close = False
        for c in before:
            if c == op:
                d += 1
            elif c == cl:
                if d:
                    d -= 1
                else:
                    un_close = True
        un_open = d > 0
        if un_open:
            ks.append('unmatched-open-' + nm)
        if un_close:
            ks.append('unmatched-close-' + nm)
        if op in before and not un_open and not un_close:
            ks.append('matched-' + nm)
    if prefix and prefix in before:
        ks.append('earlier-prefix')
    elif prefix and (prefix[-1] in before):
        ks.append('part-of-prefix')
    return ks or ['no-bracket']


def pair_kinds(abbr):
    ks = []
    for e, nm in (('{}', 'empty-curly'), ('[]', 'empty-square'), ('()', 'empty-round')):
        if e in abbr:
            ks.append(nm)
    if not ks and any(c in abbr for c in '{[('):
        ks.append('non-empty-pairs-only')
    return ks or ['no-pair']


def rand_before(rng, prefix, abbr, others):
    """a random text left of the prefix: code-like fragments with brackets of every kind, matched and
    unmatched, whole and partial earlier occurrences of the prefix, an earlier prefixed abbreviation"""
    dyn = [prefix, prefix, prefix[:-1], prefix[1:], prefix[-1], prefix + rng.choice(others) + ' ',
           prefix + abbr + ' ', abbr, prefix + 'x{ ', prefix + 'y[ ', prefix + abbr[:max(1, len(abbr) // 2)]]
    out = []
    for _ in range(rng.randint(0, 4)):
        out.append(rng.choice(dyn) if rng.random() < 0.3 else rng.choice(BEFORE_FRAGS))
    return ''.join(out)


def _carets(abbr, markup, right, all_tails, rng):
    """(back, lookAhead) pairs: caret at the end with and without look-ahead, and before an
    auto-closed tail (one quote + closing brackets) with look-ahead"""
    closers = CLOSERS if markup else ')'
    out = [(0, True), (0, False)]
    tails = auto_closed_tail(abbr, markup)
    if tails and not (right[:1] and right[0] in closers):
        out += [(b, True) for b in (tails if all_tails else [rng.choice(tails)])]
    return out


def prefix_rt_exhaustive(rng, max_len):
    """every left text of length <= max_len over BEFORE_ALPHA x the bracket-pair shapes x prefixes x
    caret (end / before each auto-closed tail) x look-ahead"""
    out = []
    k = 0
    for markup, shapes in ((True, PREFIX_SHAPES), (False, PREFIX_SHAPES_CSS)):
        ty = 'markup' if markup else 'stylesheet'
        for abbr in shapes:
            for p in ('!', '&&'):
                if not prefix_rt_applicable(abbr, p):
                    continue
                for n in range(0, max_len + 1):
                    for tup in itertools.product(BEFORE_ALPHA, repeat=n):
                        before = ''.join(p if c == 'P' else p[-1] if c == 'Q' else c for c in tup)
                        k += 1
                        rk, right = RIGHTS[k % len(RIGHTS)] if k % 3 == 0 else RIGHTS[0]
                        for back, look in _carets(abbr, markup, right, True, rng):
                            out.append(RT(before + p, abbr, right, back, {'type': ty, 'lookAhead': look, 'prefix': p},
                                          'prefix-exhaustive', ('auto-closed+' if back else '') + rk))
    return out


def prefix_rt_random(rng, abbr, markup, others, n):
    """n random embeddings of one abbreviation right of a prefix"""
    ty = 'markup' if markup else 'stylesheet'
    usable = [p for p in PREFIXES_RICH if prefix_rt_applicable(abbr, p)]
    out = []
    if not usable:
        return out
    for _ in range(n):
        p = rng.choice(usable)
        before = rand_before(rng, p, abbr, others)
        rk, right = rng.choice(RIGHTS)
        back, look = rng.choice(_carets(abbr, markup, right, False, rng))
        out.append(RT(before + p, abbr, right, back, {'type': ty, 'lookAhead': look, 'prefix': p},
                      'prefix-random', ('auto-closed+' if back else '') + rk))
    return out


# consistency stream
EX_ALPHA =list('a1>+*^()[]{}"\'</= .\\') + ['-']
FRAGS = ['ul>li', 'a', 'div', '[', ']', '(', ')', '{', '}', '"', "'", '<', '>', '</', '/>', '=', ' ', '\t', '*3', '*', '+', '^',
         '.c', '#i', 'a=b', 'a="b c"', "x='y'", '\\', '\\"', '<div>', '<a href="x">', '</p>', '<br />', 'title=x', '$', '@',
         '!', ':', '-', '_', '%', '/', 'é', '٣', ' ', '\n', ',', ';', '?', '&&', '{x}', '[a]', '(b)', '{}', '[]', '()',
         '"]', '"}', "')"]
OPT_PREFIXES = ['', '', '<', '>>', 'a', '[', '}', '\\', '="', 'ab']


# look-ahead tails: text left of the caret that leaves brackets / a quote open (so that the backward scan
# can succeed once look-ahead has moved the end), then EVERY run of quotes, closing brackets and other
# characters right of the caret.  The statement allows look-ahead to cross one quote and then closing
# brackets only.
LA_LEFTS = ['a[b="', 'a[b=', "a[b='c", 'a{b', 'a{b[c', '(a', '(a[b="c', 'a{"b', 'ul>li[a="x" b="', 'm(', 'a', '']
LA_ALPHA = ['"', "'", ')', ']', '}', ' ', 'x']
LA_RESTS = ['', ' y']


def lookahead_tail_cases(max_len):
    out = []
    k = 0
    for left in LA_LEFTS:
        for n in range(0, max_len + 1):
            for tup in itertools.product(LA_ALPHA, repeat=n):
                tail = ''.join(tup)
                k += 1
                line = left + tail + LA_RESTS[k % len(LA_RESTS)]
                out.append((line, len(left), {'type': 'markup', 'lookAhead': True}))
                out.append((line, len(left), [{'type': 'stylesheet', 'lookAhead': True}, {'type': 'markup', 'lookAhead': False},
                                              {'type': 'markup'}, {'type': 'stylesheet', 'lookAhead': False}][k % 4]))
    return out


def positions(line, rng=None):
    n = len(line)
    ps = list(range(0, n + 1))
    return ps


def odd_positions(line):
    n = len(line)
    return [None, -1, -n - 3, n + 1, n + 7]


def load_corpus(pid):
    d = os.path.join(VERIF, 'corpus', pid)
    out = []
    if os.path.isdir(d):
        for fn in sorted(os.listdir(d)):
            if fn.endswith('.json'):
                with open(os.path.join(d, fn), encoding='utf-8') as f:
                    obj = json.load(f)
                obj['_file'] = fn
                out.append(obj)
    return out


# a non-terminating implementation call must not block the check (see common.limited)
import common as _common  # noqa: E402
_common.limit_impl(globals(), ['impl_extract', 'impl_is_html', 'impl_consume_quoted'])


# ------------------------------------------------------------------ complete HTML tags in every spelling of their names
# Round trip after a complete HTML tag whose NAMES are spelled with every character an HTML name is made of.
# Documented facts used here (HTML Living Standard; nothing is read from the library):
#   * 13.1.2 Elements: "Tags contain a tag name ... HTML elements all have names that only use ASCII alphanumerics.
#     In the HTML syntax, tag names, even those for foreign elements, may be written with any mix of lower- and
#     uppercase letters" (<DIV>, <Div> and <div> are the same start tag; the tag name starts with a letter).
#   * 13.1.2.3 Attributes: attribute names "may be written with any mix of ASCII lower and ASCII upper alphas";
#     SVG / MathML attributes and elements have mixed-case canonical names (viewBox, preserveAspectRatio,
#     foreignObject, linearGradient, clipPath -- 13.2.6.5 lists them), JSX-like templates write onClick / className.
#   * 4.13.3 valid custom element names contain '-'; XML-style names (xlink:href, xml:lang, xsl:template) contain ':'.
#   * 13.1.2.3 unquoted attribute values: any characters but white space, " ' = < > `.
# Hence the identifier alphabet of a tag: ASCII letters of BOTH cases, ASCII digits, '-' and ':'.
ASCII_UPPER = 'ABCDEFGHIJKLMNOPQRSTUVWXYZ'
ASCII_LOWER = 'abcdefghijklmnopqrstuvwxyz'
ASCII_DIGITS = '0123456789'
TAG_IDENT_CHARS = ASCII_UPPER + ASCII_LOWER + ASCII_DIGITS + '-:'

# Further characters that HTML allows in attribute names (everything but white space, " ' > / = and controls:
# data_x, v-on:click.prevent, @click, [prop], #ref) and in custom element names after the hyphen ('_', '.').
# OFF: this class fails on the UNCHANGED library (and in upstream Emmet): is_html.is_ident() knows letters, digits,
# '-' and ':' only, so '<a data_x>p' gives 'data_x>p' and '<a data_x=1>p' gives '1>p' (a tag ending in a quoted
# value is still right because a quote is no abbreviation character).  Reported, not listed; switch on to see it.
TAG_NAME_CHARS_BEYOND_IDENT = True      # listed finding roundtrip:tag-name-character-outside-letters-digits-dash-colon
TAG_EXTRA_NAME_CHARS = '_.@#'

# '@' marks the place of the swept character; (position kind, shape, letters only?)
TAG_CHAR_SHAPES = [
    ('tag-name', '<@>', True), ('tag-name', '</@>', True), ('tag-name', '<@x>', True),
    ('tag-name', '<x@>', False), ('tag-name', '<x@y>', False), ('tag-name', '</x@>', False), ('tag-name', '</x@ >', False),
    ('tag-name', '<x@/>', False), ('tag-name', '<x@ />', False), ('tag-name', '<x@ a="b">', False), ('tag-name', '<x@\tb>', False),
    ('tag-name', 'text <x@>', False), ('tag-name', '<p>hi</p><x@ c=d>', False),
    ('attribute-name', '<a @>', False), ('attribute-name', '<a b@>', False), ('attribute-name', '<a @b>', False),
    ('attribute-name', '<a b@ c>', False), ('attribute-name', '<a b@/>', False), ('attribute-name', '<a b@ />', False),
    ('attribute-name', '<a b@="v">', False), ('attribute-name', "<a @b='v w'>", False), ('attribute-name', '<a b@=v>', False),
    ('attribute-name', '<a @=v c>', False), ('attribute-name', '<a b@=v />', False), ('attribute-name', '<a c="d" b@>', False),
    ('unquoted-value', '<a b=@>', False), ('unquoted-value', '<a b=v@>', False), ('unquoted-value', '<a b=@v>', False),
    ('unquoted-value', '<a b=v@ c>', False), ('unquoted-value', '<a b=@ c="d">', False), ('unquoted-value', '<a b=v@ />', False),
    ('unquoted-value', '<a c b=@\t>', False),
]
# abbreviations embedded right of the swept tags (accepted by the parser: checked at run time), rotating
TAG_SWEEP_ABBRS = ['bar', 'ul>li*3', 'A.b', 'h1#id.cls', 'p{t}', 'a[b=c]', 'x-y:z', '(a+b)', 'Foo>Bar', 'li*']
TAG_SWEEP_ABBRS_CSS = ['m10', 'c#f00', 'p10-20!']


def char_class(c):
    if c in ASCII_UPPER:
        return 'upper-case-letter'
    if c in ASCII_LOWER:
        return 'lower-case-letter'
    if c in ASCII_DIGITS:
        return 'digit'
    return {'-': 'dash', ':': 'colon'}.get(c, 'other-name-character')


def tag_char_lefts():
    """(kind, left text): every shape of TAG_CHAR_SHAPES with every identifier character in the marked place"""
    chars = TAG_IDENT_CHARS + (TAG_EXTRA_NAME_CHARS if TAG_NAME_CHARS_BEYOND_IDENT else '')
    out = []
    for where, shape, letters_only in TAG_CHAR_SHAPES:
        for c in chars:
            if letters_only and c not in ASCII_UPPER + ASCII_LOWER:
                continue
            out.append(('tag:%s:%s' % (where, char_class(c)), shape.replace('@', c)))
    return out


def tag_char_sweep(markup_abbrs, css_abbrs):
    """round-trip cases: every swept tag x (rotating abbreviation) x look-ahead on/off, markup and stylesheet"""
    out = []
    k = 0
    for lk, left in tag_char_lefts():
        k += 1
        a = markup_abbrs[k % len(markup_abbrs)]
        rk, right = RIGHTS[k % len(RIGHTS)] if k % 4 == 0 else RIGHTS[0]
        for look in (True, False):
            out.append(RT(left, a, right, 0, {'type': 'markup', 'lookAhead': look}, lk, rk))
        a = css_abbrs[k % len(css_abbrs)]
        out.append(RT(left, a, right, 0, {'type': 'stylesheet', 'lookAhead': bool(k % 2)}, lk, rk))
    return out


# names as they are really written (HTML 13.2.6.5 SVG tables, DOM event handler attributes, JSX, XML namespaces)
CASED_TAG_NAMES = ['DIV', 'Div', 'dIV', 'A', 'P', 'H1', 'TD', 'BR', 'Br', 'UL', 'MyComponent', 'svg', 'foreignObject',
                   'linearGradient', 'clipPath', 'feGaussianBlur', 'X-Foo', 'my-Element', 'Ns:El', 'xsl:Template', 'SVG:Rect',
                   'h2', 'H2h', 'a1B2']
CASED_ATTR_NAMES = ['viewBox', 'onClick', 'onclick', 'ONCLICK', 'tabIndex', 'className', 'data-X', 'DATA-ID', 'aria-Label',
                    'xlink:Href', 'xml:Lang', 'preserveAspectRatio', 'gradientUnits', 'B1', 'Hidden', 'v-bind:Foo', 'A', 'x', 'Z9']
CASED_UNQUOTED = ['Go', 'TRUE', 'X-1', '10PX', 'Abc', 'camelCase', 'A', 'b', '1', 'x:Y', 'Foo_Bar', '#Top', 'a.B', '100%', 'UTF-8']
CASED_QUOTED = ['', 'B', 'Hello World', '0 0 10 10', 'go()', 'A>B', "It's", 'x', 'URL(#G)']


def gen_cased_tag(rng):
    """a complete, well-formed HTML tag whose tag / attribute names and unquoted values mix both letter cases"""
    def ws(lo=1):
        return ''.join(rng.choice(' \t') for _ in range(rng.randint(lo, 2)))
    nm = rng.choice(CASED_TAG_NAMES)
    if rng.random() < 0.15:
        return '</' + nm + ws(0) + '>'
    s = '<' + nm
    for _ in range(rng.randint(0, 3)):
        s += ws()
        an = rng.choice(CASED_ATTR_NAMES)
        r = rng.random()
        if r < 0.3:
            s += an
        elif r < 0.65:
            s += an + '=' + rng.choice(CASED_UNQUOTED)
        elif r < 0.9:
            s += an + '="' + rng.choice([v for v in CASED_QUOTED if '"' not in v]) + '"'
        else:
            s += an + "='" + rng.choice([v for v in CASED_QUOTED if "'" not in v]) + "'"
    s += rng.choice(['', '', ws(), ws() + '/', '/'])
    return s + '>'


RECASE_MODES = ['upper', 'title', 'random', 'inner']


def recase(text, rng, mode=None):
    """[text] with its ASCII letters in another case: all upper / first letter of each word upper / each letter at
    random / one letter inside each word upper (camelCase).  Returns (mode, new text)."""
    mode = mode or rng.choice(RECASE_MODES)
    if mode == 'upper':
        return mode, text.upper() if text.isascii() else ''.join(c.upper() if c in ASCII_LOWER else c for c in text)
    out = []
    i = 0
    n = len(text)
    while i < n:
        if text[i] in ASCII_LOWER + ASCII_UPPER:
            j = i
            while j < n and text[j] in ASCII_LOWER + ASCII_UPPER:
                j += 1
            w = text[i:j]
            if mode == 'title':
                w = w[0].upper() + w[1:]
            elif mode == 'random':
                w = ''.join(c.upper() if rng.random() < 0.5 else c.lower() for c in w)
            else:
                p = rng.randint(0, len(w) - 1) if len(w) < 2 else rng.randint(1, len(w) - 1)
                w = w[:p] + w[p].upper() + w[p + 1:]
            out.append(w)
            i = j
        else:
            out.append(text[i])
            i += 1
    return mode, ''.join(out)


def tag_case_rt(rng, abbr, markup, n):
    """n embeddings of one abbreviation right of a complete HTML tag spelled in mixed case: tags built from
    really used mixed-case names, and the lower-case tag contexts of LEFTS / gen_clean_tag re-cased"""
    ty = 'markup' if markup else 'stylesheet'
    closers = CLOSERS if markup else ')'
    tags = [t for k, t in LEFTS if k == 'tag']
    out = []
    for _ in range(n):
        r = rng.random()
        if r < 0.45:
            lk, left = 'tag:mixed-case-names', gen_cased_tag(rng)
        elif r < 0.75:
            m, left = recase(gen_clean_tag(rng), rng)
            lk = 'tag:re-cased:' + m
        else:
            m, left = recase(rng.choice(tags), rng)
            lk = 'tag:re-cased:' + m
        if rng.random() < 0.25:
            left = rng.choice(['x ', 'Some Text ', '<P>Hi</P>', '\t', 'A>B ', '<I>']) + left
        rk, right = rng.choice(RIGHTS)
        for look in (True, False):
            out.append(RT(left, abbr, right, 0, {'type': ty, 'lookAhead': look}, lk, rk))
        tails = auto_closed_tail(abbr, markup)
        if tails and rng.random() < 0.5 and not (right[:1] and right[0] in closers):
            out.append(RT(left, abbr, right, rng.choice(tails), {'type': ty, 'lookAhead': True}, lk, 'auto-closed+' + rk))
    return out
