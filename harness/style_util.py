"""Shared helpers of the stylesheet checks (C05, C06, C07-css, C18-css):
canonical observables of the implementation, decoders of the extracted model's
wire format, and the in-Coq evaluation of the full pipeline (which uses
PrimFloat and is therefore not extracted)."""
import os
import re
import subprocess
import time

import common
from common import Reader, enc_str
from c18_css import canon_float, read_ckind, canon_dec  # noqa: F401

EK = {1: 'scanner', 2: 'token'}
IK = {10: 'IndexError', 11: 'TypeError', 12: 'ValueError', 13: 'Exception', 14: 'AttributeError', 15: 'KeyError'}


# ------------------------------------------------------------------ parser observable
def canon_token(t):
    ty = t.type
    if ty == 'Literal':
        k = ('Literal', t.value)
    elif ty == 'CustomProperty':
        k = ('CustomProperty', t.value)
    elif ty == 'NumberValue':
        k = ('NumberValue', canon_float(t.value), t.raw_value, t.unit)
    elif ty == 'ColorValue':
        k = ('ColorValue', t.r, t.g, t.b, canon_float(t.a), t.raw)
    elif ty == 'StringValue':
        k = ('StringValue', t.value, t.quote == 'single')
    elif ty == 'Field':
        k = ('Field', t.name, t.index)
    elif ty == 'Bracket':
        k = ('Bracket', bool(t.open))
    elif ty == 'Operator':
        k = ('Operator', t.operator)
    elif ty == 'WhiteSpace':
        k = ('WhiteSpace',)
    else:
        k = ('?', ty)
    return k


def canon_val(v):
    if type(v).__name__ == 'FunctionCall':
        return ('fn', v.name, [[canon_val(x) for x in a.value] for a in v.arguments])
    return ('tok', canon_token(v), v.start, v.end)


def canon_prop(p):
    return (p.name, [[canon_val(x) for x in cv.value] for cv in p.value], bool(p.important), p.snippet is not None)


def classify_exc(e, n):
    """Outcome class of an exception raised by the library for an input of length n."""
    from emmet.scanner import ScannerException
    from emmet.token_scanner import TokenScannerException
    if isinstance(e, ScannerException):
        return ('scanner', e.pos)
    if isinstance(e, TokenScannerException):
        return ('token', e.pos)
    return ('internal', type(e).__name__)


def impl_parse(s, value_mode):
    from emmet.css_abbreviation import parse
    try:
        props = parse(s, {'value': value_mode})
    except Exception as e:
        return classify_exc(e, len(s))
    return ('ok', [canon_prop(p) for p in props])


def read_cval(r):
    if r.int() == 0:
        k = read_ckind(r)
        return ('tok', k, r.opt(r.int), r.opt(r.int))
    name = r.str()
    return ('fn', name, [[read_cval(r) for _ in range(r.int())] for _ in range(r.int())])


def read_prop(r):
    name = r.opt(r.str)
    vals = [[read_cval(r) for _ in range(r.int())] for _ in range(r.int())]
    return (name, vals, r.bool(), r.bool())


def read_res(r, payload):
    tag = r.int()
    if tag == 0:
        return ('ok', payload(r))
    if tag == 1:
        kind = r.int()
        pos = r.opt(r.int)
        return (EK.get(kind, 'parse-err-%d' % kind), pos)
    if tag == 2:
        k = r.int()
        return ('internal', IK.get(k, 'model:%d' % k))
    if tag == 3:
        return ('out-of-fuel',)
    return ('bad',)


def decode_parse(w):
    r = Reader(w)
    return read_res(r, lambda r: [read_prop(r) for _ in range(r.int())])


def enc_parse_case(s, value_mode):
    return [2, 1 if value_mode else 0] + enc_str(s)


# ------------------------------------------------------------------ full pipeline: configurations
SYNTAXES = ['css', 'scss', 'sass', 'less', 'sss', 'stylus']

OPTION_OV = {
    'stylesheet.keywords': ('OvKeywords', 'strlist'), 'stylesheet.unitless': ('OvUnitless', 'strlist'),
    'stylesheet.shortHex': ('OvShortHex', 'bool'), 'stylesheet.between': ('OvBetween', 'str'),
    'stylesheet.after': ('OvAfter', 'str'), 'stylesheet.intUnit': ('OvIntUnit', 'str'),
    'stylesheet.floatUnit': ('OvFloatUnit', 'str'), 'stylesheet.unitAliases': ('OvAliases', 'strdict'),
    'stylesheet.json': ('OvJson', 'bool'), 'stylesheet.jsonDoubleQuotes': ('OvJsonDq', 'bool'),
    'stylesheet.skipUnmatched': ('OvSkipUnmatched', 'bool'), 'stylesheet.fuzzySearchMinScore': ('OvMinScore', 'float'),
    'output.format': ('OvFormat', 'bool'), 'output.newline': ('OvNewline', 'str'),
    'output.baseIndent': ('OvBaseIndent', 'str'), 'output.indent': ('OvIndent', 'str'),
}


def tabstop_field(index, placeholder, **kwargs):
    """The harness' output.field callback (FieldTabstop of the model)."""
    return '${%s%s}' % ('' if index is None else index, ':' + placeholder if placeholder else '')


class Cfg:
    """One stylesheet configuration: syntax + user options + user snippets + context name + field style.
    Hashable by value; builds the implementation's config dict and the model's Coq term."""

    def __init__(self, syntax='css', options=None, snippets=None, context=None, tabstop=False):
        self.syntax = syntax
        self.options = dict(options or {})
        self.snippets = dict(snippets or {})
        self.context = context
        self.tabstop = tabstop

    def key(self):
        return repr((self.syntax, sorted((k, repr(v)) for k, v in self.options.items()), list(self.snippets.items()),
                     self.context, self.tabstop))

    def to_json(self):
        return {'syntax': self.syntax, 'options': self.options, 'snippets': self.snippets, 'context': self.context,
                'tabstop': self.tabstop}

    @staticmethod
    def from_json(o):
        return Cfg(o.get('syntax', 'css'), o.get('options'), o.get('snippets'), o.get('context'), o.get('tabstop', False))

    def impl_config(self):
        """A fresh config dict (fresh Config is made by expand; no shared cache)."""
        opts = dict(self.options)
        if self.tabstop:
            opts['output.field'] = tabstop_field
        c = {'type': 'stylesheet', 'syntax': self.syntax, 'options': opts}
        if self.snippets:
            c['snippets'] = dict(self.snippets)
        if self.context is not None:
            c['context'] = {'name': self.context}
        return c

    def coq(self):
        ovs = []
        for k, v in self.options.items():
            name, ty = OPTION_OV[k]
            if ty == 'str':
                a = cstr(v)
            elif ty == 'bool':
                a = 'true' if v else 'false'
            elif ty == 'strlist':
                a = '[' + '; '.join(cstr(x) for x in v) + ']'
            elif ty == 'strdict':
                a = '[' + '; '.join('(%s, %s)' % (cstr(x), cstr(y)) for x, y in v.items()) + ']'
            else:
                a = '(%s)%%float' % float(v).hex()
            ovs.append('%s %s' % (name, a))
        user = '[' + '; '.join('(%s, %s)' % (cstr(k), cstr(v)) for k, v in self.snippets.items()) + ']'
        ctx = 'None' if self.context is None else '(Some %s)' % cstr(self.context)
        return '(mk_cfg %s [%s] %s %s %s)' % (cstr(self.syntax), '; '.join(ovs), user, ctx, 'true' if self.tabstop else 'false')


def cstr(s):
    return '(@nil N)' if s == '' else '[' + ';'.join('%d' % ord(c) for c in s) + ']'


def impl_expand(abbr, cfg):
    """Outcome of emmet.expand on a fresh configuration: ('ok', text) | ('scanner', pos) | ('token', pos) |
    ('internal', type name)."""
    from emmet import expand
    try:
        return ('ok', expand(abbr, cfg.impl_config()))
    except Exception as e:
        return classify_exc(e, len(abbr))


# ------------------------------------------------------------------ full pipeline: evaluation inside Coq
SHARD_HEADER = ('From Coq Require Import PrimFloat.\n'
                'From Emmet Require Import lib.Base lib.StyleLib model.CssResolve run.StyleShow.\n'
                'Local Open Scope N_scope.\n')


def parse_coq_lists(text):
    """Parse the printed value of `Eval vm_compute in (... : list (list N))`."""
    i = text.index('=')
    j = text.rindex(': list')
    body = text[i + 1:j]
    out = []
    cur = None
    depth = 0
    for m in re.finditer(r'\[|\]|\d+', body):
        tok = m.group(0)
        if tok == '[':
            depth += 1
            if depth == 2:
                cur = []
        elif tok == ']':
            if depth == 2:
                out.append(cur)
                cur = None
            depth -= 1
        else:
            if depth == 2:
                cur.append(int(tok))
    return out


def decode_show(w):
    if not w:
        return ('bad', w)
    if w[0] == 0:
        return ('ok', ''.join(chr(c) for c in w[1:]))
    if w[0] == 1:
        return (EK.get(w[1], 'parse-err-%d' % w[1]), w[3] if w[2] else None)
    if w[0] == 2:
        return ('internal', IK.get(w[1], 'model:%d' % w[1]))
    if w[0] == 3:
        return ('out-of-fuel',)
    return ('bad', w)


def coq_expand(ctx, cases, tag='style', shard_cases=400):
    """Run (Cfg, abbr) cases through the Coq model of the full pipeline.  Returns the decoded results in order,
    or None when the evaluation failed (reported into ctx.broken)."""
    if not cases:
        return []
    # group by configuration, keep first-seen order
    groups = {}
    order = []
    for idx, (cfg, abbr) in enumerate(cases):
        k = cfg.key()
        if k not in groups:
            groups[k] = (cfg, [])
            order.append(k)
        groups[k][1].append((idx, abbr))
    # shards: bounded by case count; a user table costs a conversion of the whole table (~2 s)
    shards = []
    cur, weight = [], 0
    for k in order:
        cfg, items = groups[k]
        gcost = 150 if cfg.snippets else 5
        pos = 0
        while pos < len(items):
            room = shard_cases - weight - gcost
            if room <= 0 and cur:
                shards.append(cur)
                cur, weight = [], 0
                continue
            take = items[pos:pos + max(room, 50)]
            cur.append((cfg, take))
            weight += gcost + len(take)
            pos += len(take)
            if weight >= shard_cases:
                shards.append(cur)
                cur, weight = [], 0
    if cur:
        shards.append(cur)
    d = os.path.join(common.BUILD, tag + '-%d' % os.getpid())
    os.makedirs(d, exist_ok=True)
    for fn in os.listdir(d):
        os.remove(os.path.join(d, fn))
    for si, sh in enumerate(shards):
        parts = []
        for cfg, items in sh:
            parts.append('(%s, %s, [%s])' % (cfg.coq(), 'false' if cfg.snippets else 'true',
                                             '; '.join(cstr(a) for _, a in items)))
        with open(os.path.join(d, 'cases_%d.v' % si), 'w') as f:
            f.write(SHARD_HEADER + 'Eval vm_compute in (run_groups [\n' + ';\n'.join(parts) + ']).\n')
    t0 = time.time()
    cmd = ('ls cases_*.v | xargs -P%d -I{} sh -c \'timeout 1200 coqc -Q "%s" Emmet {} > {}.out 2>&1 || echo FAIL {}\''
           % (common.NPROC, common.COQ))
    p = subprocess.run(cmd, shell=True, cwd=d, stdout=subprocess.PIPE, stderr=subprocess.STDOUT, text=True)
    res = [None] * len(cases)
    for si, sh in enumerate(shards):
        path = os.path.join(d, 'cases_%d.v.out' % si)
        try:
            with open(path) as f:
                text = f.read()
            lists = parse_coq_lists(text)
        except Exception as e:
            ctx.say('COQ SHARD FAILED %s: %s\n%s' % (path, e, open(path).read()[-1500:] if os.path.exists(path) else ''))
            ctx.broken.append({'kind': 'model-evaluation', 'file': 'cases_%d.v' % si,
                               'log_tail': (open(path).read()[-800:] if os.path.exists(path) else repr(e))})
            return None
        n = sum(len(items) for _, items in sh)
        if len(lists) != n:
            ctx.broken.append({'kind': 'model-evaluation', 'file': 'cases_%d.v' % si,
                               'log_tail': 'expected %d results, got %d' % (n, len(lists))})
            return None
        it = iter(lists)
        for cfg, items in sh:
            for idx, _ in items:
                res[idx] = decode_show(next(it))
    ctx.cov.setdefault('coq_eval', []).append({'cases': len(cases), 'shards': len(shards), 'groups': len(order),
                                              'wall_s': round(time.time() - t0, 1)})
    import shutil
    shutil.rmtree(d, ignore_errors=True)      # kept only when the evaluation failed (for diagnosis)
    return res


# ------------------------------------------------------------------ implementation runner with a primed snippet cache
class ImplRunner:
    """Runs emmet.expand for (Cfg, abbr) cases.

    A fresh Config converts the whole snippet table on every call (~15 ms).  To afford tens of thousands of cases the
    runner hands every call of one configuration the same `cache` dict (a supported config key), so the table is
    converted once per configuration.  The one known impurity of that path -- resolve_numeric_value writing units into
    NumberValue tokens that belong to cached snippets (a C08 matter, owned by another check) -- is undone after every
    call by restoring the units recorded right after conversion.  `selfcheck` re-runs a sample with completely fresh
    configurations and reports any difference as a broken tie."""

    def __init__(self):
        self.state = {}

    @staticmethod
    def _numbers(snippets):
        out = []

        def walk(v):
            tn = type(v).__name__
            if tn == 'NumberValue':
                out.append((v, v.unit))
            elif tn == 'FunctionCall':
                for a in v.arguments:
                    for x in a.value:
                        walk(x)
        for s in snippets:
            if getattr(s, 'type', None) == 'Property':
                for alt in s.value:
                    for cv in alt:
                        for x in cv.value:
                            walk(x)
                for v in s.keywords.values():
                    walk(v)
        return out

    def expand(self, abbr, cfg):
        from emmet import expand
        k = cfg.key()
        st = self.state.get(k)
        if st is None:
            st = {'cache': {}, 'numbers': None}
            self.state[k] = st
        conf = cfg.impl_config()
        conf['cache'] = st['cache']
        try:
            r = ('ok', expand(abbr, conf))
        except Exception as e:
            r = classify_exc(e, len(abbr))
        if st['numbers'] is None and 'stylesheet_snippets' in st['cache']:
            # first successful conversion: the tokens may already carry units written by this very call;
            # re-read them from a fresh conversion of the same table
            from emmet.stylesheet import convert_snippets
            from emmet.config import Config
            fresh = convert_snippets(Config(cfg.impl_config()).snippets)
            st['cache']['stylesheet_snippets'] = fresh
            st['numbers'] = self._numbers(fresh)
        elif st['numbers']:
            for tok, unit in st['numbers']:
                tok.unit = unit
        return r

    def selfcheck(self, ctx, cases, results, rate=0.02, always=()):
        """Compare a sample of cached results with fresh-configuration runs."""
        n = 0
        bad = 0
        idxs = set(always)
        for i in range(len(cases)):
            if ctx.rng.random() < rate:
                idxs.add(i)
        for i in sorted(idxs):
            cfg, abbr = cases[i]
            n += 1
            fresh = impl_expand(abbr, cfg)
            if fresh != results[i]:
                bad += 1
                if bad <= 3:
                    ctx.say('CACHE SELF-CHECK differs for %r under %s\n  cached %r\n  fresh  %r' % (abbr, cfg.to_json(), results[i], fresh))
                    ctx.broken.append({'kind': 'impl-cache-selfcheck', 'file': 'style_util.ImplRunner', 'input': abbr,
                                       'config': cfg.to_json(), 'cached': repr(results[i])[:300], 'fresh': repr(fresh)[:300]})
        ctx.cov['correspondence']['impl_cache_selfcheck'] = {'cases': n, 'differences': bad}


def _impl_chunk(chunk):
    r = ImplRunner()
    return [r.expand(abbr, cfg) for cfg, abbr in chunk]


def impl_expand_many(cases, procs=None):
    """ImplRunner over many cases, in parallel processes for large batches (order preserved)."""
    cases = list(cases)
    if len(cases) < 4000:
        return _impl_chunk(cases)
    import multiprocessing
    procs = procs or common.NPROC
    size = max(500, (len(cases) + procs * 4 - 1) // (procs * 4))
    chunks = [cases[i:i + size] for i in range(0, len(cases), size)]
    with multiprocessing.get_context('fork').Pool(procs) as pool:
        outs = pool.map(_impl_chunk, chunks)
    return [x for o in outs for x in o]


def outcome_class(r):
    """ok | scanner pos | token pos | internal type -- the C07 observable (no text, no messages)."""
    if r[0] == 'ok':
        return ('ok',)
    return tuple(r)


def c07_oracle(abbr, r):
    """The C07 statement on one implementation outcome; None or a description."""
    if r[0] == 'ok':
        if not isinstance(r[1], str):
            return 'expand returned %r, not a string' % (type(r[1]).__name__,)
        return None
    if r[0] in ('scanner', 'token'):
        p = r[1]
        if p is None:
            return None
        if not isinstance(p, int) or isinstance(p, bool) or p < 0 or p > len(abbr):
            return '%s error position %r outside input of length %d' % (r[0], p, len(abbr))
        return None
    return 'expand raised %s (not one of the two parse errors)' % (r[1],)


# ------------------------------------------------------------------ obligations of float-using property files
# Print Assumptions lists the kernel's primitive types and operations (PrimFloat.float, PrimFloat.div, PrimInt63.int,
# ...) under "Axioms:" because they have no body.  They are declared with `Primitive` in theories/Floats/PrimFloat.v and
# theories/Numbers/Cyclic/Int63/PrimInt63.v -- files that contain no Axiom/Parameter at all (checked below on the
# installed sources) -- and are part of the kernel named in the trusted base (DESIGN section 6).  Everything else
# (FloatAxioms.*, Uint63.*_spec, any axiom of ours) is still rejected by common.Ctx.obligations.
KERNEL_PRIMITIVE = re.compile(r'^(PrimFloat|PrimInt63)\.[\w.\']+$')
COQCHK_STDLIB = re.compile(r'^Coq\.(Floats\.PrimFloat|Numbers\.Cyclic\.Int63\.PrimInt63|Numbers\.Cyclic\.Int63\.Uint63)\.[\w.\']+$')


def kernel_primitive_files_clean():
    rc, where = common.sh(['coqc', '-where'], timeout=60)
    if rc != 0:
        return False
    root = where.strip().splitlines()[-1]
    for rel in ('theories/Floats/PrimFloat.v', 'theories/Numbers/Cyclic/Int63/PrimInt63.v'):
        p = os.path.join(root, rel)
        if not os.path.exists(p):
            return False
        with open(p, encoding='utf-8') as f:
            body = common.strip_coq_comments(f.read())
        if re.search(r'\b(Axiom|Axioms|Parameter|Parameters|Conjecture|Hypothesis|Variable)\b', body):
            return False
    return True


def obligations(ctx, props_file):
    """ctx.obligations, accepting theorems whose only assumptions are kernel primitives (named in the evidence)."""
    n0 = len(ctx.broken)
    ctx.obligations(props_file)
    clean = None
    keep = []
    for b in ctx.broken[n0:]:
        if b.get('kind') == 'axiom' and b.get('axioms') and all(KERNEL_PRIMITIVE.match(a) for a in b['axioms']):
            if clean is None:
                clean = kernel_primitive_files_clean()
            if clean:
                ctx.cov['discharged'] += 1
                continue
        if b.get('kind') == 'coqchk' and b.get('axioms') and not b.get('unsafe'):
            # thorough tier: `coqchk -o` lists every axiom of every LOADED library, used or not.  Loading the scorer
            # loads Coq's PrimFloat / PrimInt63 (primitives) and Uint63 (the stdlib's specification axioms of the
            # primitive integers, needed for Uint63.of_Z).  None of the Uint63 axioms is used by a property theorem:
            # the per-theorem Print Assumptions above lists primitives only.  Accept iff coqchk itself succeeded and
            # the list contains nothing else (in particular nothing from Emmet.*).
            mod = 'Emmet.' + props_file[:-2].replace('/', '.')
            rc = ctx.cov.get('coqchk', {}).get(mod, {}).get('rc')
            if rc == 0 and all(COQCHK_STDLIB.match(a) for a in b['axioms']):
                if clean is None:
                    clean = kernel_primitive_files_clean()
                if clean:
                    ctx.cov['discharged'] += 1
                    ctx.cov['coqchk'][mod]['accepted'] = 'only kernel primitives and Coq.Numbers.Cyclic.Int63.Uint63 stdlib axioms (loaded, unused)'
                    ctx.say('coqchk %s: succeeded; its axiom list holds only kernel primitives (PrimFloat, PrimInt63) and the stdlib '
                            'axioms of Uint63, loaded with the scorer and used by no property theorem -- accepted' % mod)
                    continue
        keep.append(b)
    ctx.broken[n0:] = keep
    note = ('kernel primitives PrimFloat.* / PrimInt63.* (declared `Primitive`, no axiom in those files) appear under Print '
            'Assumptions of theorems that mention the scorer or the configuration record; accepted, listed per theorem')
    if note not in ctx.cov['trusted_base']:
        ctx.cov['trusted_base'].append(note)
    return not keep
