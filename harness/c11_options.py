"""C11 -- the OPTION VALUES and CALL FORMS a caller may use (helper of harness/props/c11.py only).

The other streams of the check write every option the same way: `lookAhead` is the constant True or False, `type` is
always given, `prefix` is a non-empty string or absent, and the call is always extract_abbreviation(line, pos, dict).
The property speaks about ANY options.  This module adds, in every look-ahead sensitive situation (a caret directly
before a quote / closing brackets, and the round trip with and without an auto-closed tail):

  * every kind of VALUE of `lookAhead`: the documented type is bool ("lookAhead: bool ... Default is `true`", docstring
    of extract_abbreviation and the README of Emmet's extract-abbreviation); as everywhere in Python (and in the
    JavaScript original, `if (options.lookAhead)`) a flag is read by its truth value, so 0, 0.0, None, '', [], {} switch
    look-ahead OFF like False, and 1, 2, -1, 1.0, non-empty strings (also 'false' and '0': non-empty), non-empty
    lists / dicts switch it ON like True; an ABSENT key means the documented default (on).
    Nothing of this is read from the library: the two lists below are the Python truth-value rules
    (https://docs.python.org/3/library/stdtypes.html#truth-value-testing), `look_ahead_requested` applies bool().
  * every FORM of each option: key absent (default) / key present with the default value / `prefix` present but empty
    ('' or None = no prefix, "prefix: A string that should precede abbreviation ... If given")
  * `type` values other than the two documented ones (consistency part only: the clauses about the returned fields do
    not depend on the type; the round trip is stated for markup and stylesheet only)
  * every FORM OF THE CALL for default options: options omitted, options None, options {}, only the line (caret = end
    of the line), keyword arguments, and the public name emmet.extract (observe_at of the property)

All values are JSON values, so a replay file holds exactly the value used.
"""
import extract_util as U
from common import enc_str, enc_bool, enc_opt
import common as _common

# Python truth-value rules, fixed here
LOOK_AHEAD_OFF = [False, 0, None, '', 0.0, [], {}]
LOOK_AHEAD_ON = [True, 1, 2, -1, 1.0, 0.5, 'yes', 'false', '0', ' ', [0], [False], {'a': 0}]
ABSENT = ('absent',)          # marker: the key is not in the options dict (documented default: on)

UNKNOWN_TYPES = ['css', 'MARKUP', 'Stylesheet', 'html', '', 'markup ']     # consistency only
EMPTY_PREFIXES = ['', None]

CALL_FORMS = ['positional', 'options-omitted', 'options-none', 'options-empty', 'line-only', 'keywords',
              'emmet.extract', 'emmet.extract-options-omitted']


def vname(v):
    """bucket name of a look-ahead value"""
    if v is ABSENT:
        return 'absent'
    return '%s:%r' % (type(v).__name__, v)


def look_ahead_requested(opts):
    """documented default when absent, else the truth value"""
    return True if 'lookAhead' not in opts else bool(opts['lookAhead'])


def with_look_ahead(opts, v):
    o = {k: x for k, x in opts.items() if k != 'lookAhead'}
    if v is not ABSENT:
        o['lookAhead'] = v
    return o


def vary_forms(opts, k):
    """The same settings written in another form: defaults left out / written out, an empty prefix written out.
    k rotates through the forms."""
    o = dict(opts)
    if o.get('type') == 'markup' and k % 2 == 0:
        del o['type']                                  # absent = markup
    elif 'type' not in o and k % 2 == 1:
        o['type'] = 'markup'
    if not o.get('prefix'):
        o.pop('prefix', None)
        if k % 3 == 1:
            o['prefix'] = EMPTY_PREFIXES[(k // 3) % 2]  # present but empty = no prefix
    return o


def enc_case(line, pos, opts):
    """wire encoding for the extracted model of the SETTINGS the options mean (None when the model has no notion
    of them: a type that is not a string)"""
    o = U.full_opts(opts)
    if not isinstance(o['type'], str):
        return None
    return [1] + enc_str(line) + enc_opt(lambda z: [z], pos) + enc_str(o['type']) + \
        enc_bool(bool(o['lookAhead'])) + enc_str(o['prefix'] or '')


# ------------------------------------------------------------------ generators
def sensitive_lines(max_len):
    """(line, caret) with the caret directly before every run over U.LA_ALPHA of length <= max_len (quotes, closers,
    other characters) after every left text of U.LA_LEFTS (texts that leave a bracket / quote open)."""
    seen = []
    have = set()
    for line, pos, _ in U.lookahead_tail_cases(max_len):
        if (line, pos) not in have:
            have.add((line, pos))
            seen.append((line, pos))
    return seen


def look_ahead_value_cases(rng, exhaustive_len, rotating_len):
    """consistency cases: every look-ahead value x both types on every sensitive (line, caret) with a tail of length
    <= exhaustive_len; for longer tails the values rotate.  A third of the cases carries a prefix that occurs in
    the line (forms of the other options rotate as well)."""
    out = []
    values = LOOK_AHEAD_OFF + LOOK_AHEAD_ON + [ABSENT]
    short = set(sensitive_lines(exhaustive_len))
    k = 0
    for line, pos in sensitive_lines(rotating_len):
        if (line, pos) in short:
            vs = values
        else:
            k += 1
            vs = [LOOK_AHEAD_OFF[k % len(LOOK_AHEAD_OFF)], LOOK_AHEAD_ON[k % len(LOOK_AHEAD_ON)]]
        for v in vs:
            for ty in ('markup', 'stylesheet'):
                k += 1
                o = {'type': ty}
                if k % 3 == 0 and pos > 0:
                    i = rng.randint(0, pos - 1)
                    o['prefix'] = line[i:i + 1 + k % 2]
                out.append((line, pos, with_look_ahead(vary_forms(o, k), v)))
    return out


def unknown_type_cases(rng, lines):
    out = []
    k = 0
    for line, pos in lines:
        k += 1
        o = {'type': UNKNOWN_TYPES[k % len(UNKNOWN_TYPES)]}
        vs = LOOK_AHEAD_OFF + LOOK_AHEAD_ON
        out.append((line, pos, with_look_ahead(o, vs[k % len(vs)])))
    return out


def rt_value_cases(rng, rt_cases, per_value):
    """From the round-trip cases of the main stream (abbreviations accepted by the parser, embedded):
      * caret at the end of the abbreviation: the look-ahead value does not matter (the right contexts do not begin
        with a quote or closer) -> the same round trip with every kind of value, ON and OFF
      * caret before an auto-closed tail: round trip with every ON value; with every OFF value the caret must stay
        the end -> consistency cases
    returns (round-trip cases, consistency cases)"""
    rts, cons = [], []
    ends = [c for c in rt_cases if c[0].back == 0]
    tails = [c for c in rt_cases if c[0].back > 0]
    values = LOOK_AHEAD_OFF + LOOK_AHEAD_ON + [ABSENT]
    k = 0
    for v in values:
        for rt, wild in (rng.sample(ends, min(per_value, len(ends))) if ends else []):
            k += 1
            o = with_look_ahead(vary_forms(rt.opts, k), v)
            rts.append((U.RT(rt.left, rt.abbr, rt.right, 0, o, rt.lkind, rt.rkind), wild))
    for v in LOOK_AHEAD_ON + [ABSENT]:
        for rt, wild in (rng.sample(tails, min(per_value, len(tails))) if tails else []):
            k += 1
            o = with_look_ahead(vary_forms(rt.opts, k), v)
            rts.append((U.RT(rt.left, rt.abbr, rt.right, rt.back, o, rt.lkind, rt.rkind), wild))
    for v in LOOK_AHEAD_OFF:
        for rt, wild in (rng.sample(tails, min(per_value, len(tails))) if tails else []):
            k += 1
            cons.append((rt.line, rt.pos, with_look_ahead(vary_forms(rt.opts, k), v)))
    return rts, cons


# ------------------------------------------------------------------ call forms
def impl_call(line, pos, form):
    """extract with DEFAULT options, called in one of CALL_FORMS; canonical observable as U.impl_extract.
    `line-only` ignores pos (the documented default caret is the end of the line)."""
    try:
        if form.startswith('emmet.extract'):
            from emmet import extract as f
        else:
            from emmet.extract_abbreviation import extract_abbreviation as f
        if form in ('positional', 'options-empty', 'emmet.extract'):
            r = f(line, pos, {})
        elif form in ('options-omitted', 'emmet.extract-options-omitted'):
            r = f(line, pos)
        elif form == 'options-none':
            r = f(line, pos, None)
        elif form == 'line-only':
            r = f(line)
        elif form == 'keywords':
            r = f(line=line, pos=pos, options={})
        else:
            raise ValueError(form)
    except Exception as e:
        return ('internal', type(e).__name__)
    if r is None:
        return None
    return (r.abbreviation, r.location, r.start, r.end)


_common.limit_impl(globals(), ['impl_call'])


def call_form_cases(rng, lines):
    """(line, pos, form): every call form on every given (line, caret)"""
    out = []
    for line, pos in lines:
        for form in CALL_FORMS:
            out.append((line, None if form == 'line-only' else pos, form))
    return out
