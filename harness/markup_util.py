"""Shared helpers for the markup-pipeline properties (C01-C04, C07, C08, C12-C15):
config encoding for the extracted model, implementation runners, result decoding."""
import copy
import re

from common import enc_str, enc_bool, enc_opt, enc_list, Reader

RE_LOREM = re.compile(r'^lorem([a-z]*)(\d*)(-\d*)?$', re.I)


class NotModelled(Exception):
    pass


def _s(x):
    if x is None:
        return ''
    if not isinstance(x, str):
        raise NotModelled('non-string option %r' % (x,))
    return x


def _strs(x):
    if x is None:
        return []
    if not isinstance(x, (list, tuple)) or not all(isinstance(i, str) for i in x):
        raise NotModelled('non-list option %r' % (x,))
    return list(x)


def enc_pairs(d):
    return enc_list(lambda kv: enc_str(kv[0]) + enc_str(kv[1]), list(d.items()))


def enc_config(user_config, draws=()):
    """Encode the *resolved* Config (built by the real emmet.config.Config) for the model.
    Raises NotModelled for configurations outside the model (callbacks that change text, option values
    of a type the library does not document, ...).
    `draws`: the raw draws of the randint oracle of lorem text (harness/lorem_util.py); empty for lorem-free cases."""
    from emmet.config import Config
    from emmet.snippets import markup_snippets, xsl_snippets, pug_snippets
    uc = copy.deepcopy(user_config)
    cfg = Config(uc)
    if cfg.type != 'markup':
        raise NotModelled('type')
    o = cfg.options
    syntax = _s(cfg.syntax)
    user_snips = dict(uc.get('snippets') or {})
    base = dict(markup_snippets)
    sel = 1
    if syntax == 'xsl':
        base.update(xsl_snippets)
        sel = 2
    elif syntax == 'pug':
        base.update(pug_snippets)
        sel = 3
    merged = dict(base)
    merged.update(user_snips)
    if merged != cfg.snippets:
        sel = 0
        user_snips = dict(cfg.snippets)
    for k, v in user_snips.items():
        if not isinstance(k, str) or not isinstance(v, str):
            raise NotModelled('snippet types')
    variables = cfg.variables
    for k, v in variables.items():
        if not isinstance(k, str) or not isinstance(v, str):
            raise NotModelled('variable types')
    text = cfg.get('text')
    if text is None:
        enc_text = [0]
    elif isinstance(text, str):
        enc_text = [1] + enc_str(text)
    elif isinstance(text, list) and all(isinstance(t, str) for t in text):
        enc_text = [2] + enc_list(enc_str, text)
    else:
        raise NotModelled('text type')
    max_repeat = cfg.get('maxRepeat') or cfg.get('max_repeat')
    max_repeat_snip = uc.get('max_repeat')
    for m in (max_repeat, max_repeat_snip):
        if m is not None and (not isinstance(m, int) or isinstance(m, bool) or m < 0):
            raise NotModelled('max_repeat type')
    ctx = cfg.get('context')
    ctx_name = None
    if ctx:
        ctx_name = ctx.get('name', '')
        if not isinstance(ctx_name, str):
            raise NotModelled('context name')
    # BEM addon: bem.enabled / bem.element / bem.modifier and the class attribute of the context
    bem_enabled = bool(o.get('bem.enabled'))
    bem_element = o.get('bem.element')
    bem_modifier = o.get('bem.modifier')
    if bem_enabled and not (isinstance(bem_element, str) and isinstance(bem_modifier, str)):
        raise NotModelled('bem separators')
    ctx_class = None
    if bem_enabled and cfg.context is not None:     # only the BEM addon reads it
        if not isinstance(cfg.context, dict):
            raise NotModelled('context type')
        c_attrs = cfg.context.get('attributes', {})
        if not isinstance(c_attrs, dict):
            raise NotModelled('context attributes')
        ctx_class = c_attrs.get('class', '')
        if ctx_class is None:
            ctx_class = ''                   # parse_bem: `class_value.split() if class_value else []`
        if not isinstance(ctx_class, str):
            raise NotModelled('context class')
    ib = o.get('output.inlineBreak')
    if ib is None or ib is False:
        ib = 0
    if not isinstance(ib, int) or isinstance(ib, bool) or ib < 0:
        raise NotModelled('inlineBreak')
    ma = o.get('markup.attributes')
    vp = o.get('markup.valuePrefix')
    w = []
    w += enc_str(syntax)
    w += [sel]
    w += enc_pairs(user_snips)
    w += enc_pairs(variables)
    w += enc_text
    w += enc_opt(lambda x: [x], max_repeat)
    w += enc_opt(lambda x: [x], max_repeat_snip)
    w += enc_bool(bool(o.get('jsx.enabled')))
    w += enc_opt(enc_str, ctx_name)
    w += enc_list(enc_str, _strs(o.get('inlineElements')))
    w += enc_bool(bool(o.get('output.reverseAttributes', False)))
    w += enc_bool(bool(o.get('markup.href')))
    w += enc_str(_s(o.get('output.indent')))
    w += enc_str(_s(o.get('output.baseIndent')))
    w += enc_str(_s(o.get('output.newline')))
    w += enc_str(_s(o.get('output.tagCase')))
    w += enc_str(_s(o.get('output.attributeCase')))
    w += enc_str(_s(o.get('output.attributeQuotes')))
    w += enc_bool(bool(o.get('output.format')))
    w += enc_bool(bool(o.get('output.formatLeafNode')))
    w += enc_list(enc_str, _strs(o.get('output.formatSkip')))
    w += enc_list(enc_str, _strs(o.get('output.formatForce')))
    w += [ib]
    w += enc_bool(bool(o.get('output.compactBoolean')))
    w += enc_list(enc_str, _strs(o.get('output.booleanAttributes')))
    w += enc_str(_s(o.get('output.selfClosingStyle')))
    w += enc_bool(bool(o.get('comment.enabled')))
    w += enc_list(enc_str, _strs(o.get('comment.trigger')))
    w += enc_str(_s(o.get('comment.before')))
    w += enc_str(_s(o.get('comment.after')))
    w += enc_opt(enc_pairs, ma if ma else None)
    w += enc_opt(enc_pairs, vp if vp else None)
    w += enc_bool(bem_enabled)
    w += enc_str(_s(bem_element) if bem_enabled else '')
    w += enc_str(_s(bem_modifier) if bem_enabled else '')
    w += enc_opt(enc_str, ctx_class)
    w += [len(draws)] + [int(d) for d in draws]
    return w


def classify_exc(e):
    from emmet.scanner import ScannerException
    from emmet.token_scanner import TokenScannerException
    if isinstance(e, ScannerException):
        return ('err', 1, e.pos)
    if isinstance(e, TokenScannerException):
        return ('err', 2, e.pos)
    if isinstance(e, RecursionError):
        return ('recursion',)
    return ('internal', type(e).__name__)


CALL_LIMIT_S = 10


class cpu_time_limit:
    """Like common.time_limit, but counts the CPU time of this process (ITIMER_PROF), not wall time: a call that is
    merely descheduled on a loaded machine does not count as a hang, a loop that does not terminate still does."""

    def __init__(self, seconds):
        self.seconds = seconds

    def _fire(self, signum, frame):
        from common import Hang
        raise Hang('no result after %s s of CPU time' % self.seconds)

    def __enter__(self):
        import signal
        import threading
        self.active = threading.current_thread() is threading.main_thread()
        if self.active:
            self.old = signal.signal(signal.SIGPROF, self._fire)
            signal.setitimer(signal.ITIMER_PROF, self.seconds)
        return self

    def __exit__(self, *a):
        if self.active:
            import signal
            signal.setitimer(signal.ITIMER_PROF, 0)
            signal.signal(signal.SIGPROF, self.old)
        return False


def _limited_call(fn):
    """fn() under the per-call limit (CPU time of this process: common.time_limit)."""
    from common import time_limit
    with time_limit(CALL_LIMIT_S):
        return fn()


def _under_oracle(abbr, user_config, fn):
    """fn() with emmet.markup.lorem.randint bound to the deterministic oracle of this case (harness/lorem_oracle.py):
    lorem text becomes a function of (abbr, config), the same draws go to the extracted model (model_draws)."""
    import lorem_oracle as lo
    with lo.patched(lo.Oracle(lo.seed_of(abbr, user_config))):
        return fn()


def impl_expand(abbr, user_config):
    from emmet import expand
    from common import Hang
    from lorem_oracle import OracleLimit
    try:
        return ('ok', _limited_call(lambda: _under_oracle(abbr, user_config, lambda: expand(abbr, copy.deepcopy(user_config)))))
    except Hang:
        return ('hang', CALL_LIMIT_S)
    except OracleLimit:
        return ('oracle-limit',)            # a lorem count beyond the draw limit: not compared
    except Exception as e:  # noqa
        return classify_exc(e)


def impl_events(abbr, user_config):
    """Run expand with recording callbacks that return the documented defaults."""
    from emmet import expand
    uc = copy.deepcopy(user_config)
    events = []

    def field(index, placeholder, offset=None, line=None, column=None, **kw):
        events.append(('field', index, placeholder, offset, line, column))
        return placeholder

    def text(t, offset=None, line=None, column=None, **kw):
        events.append(('text', t, offset, line, column))
        return t
    uc.setdefault('options', {})
    uc['options'] = dict(uc['options'])
    uc['options']['output.field'] = field
    uc['options']['output.text'] = text
    from common import Hang

    def call():
        del events[:]
        return expand(abbr, copy.deepcopy(uc))
    from lorem_oracle import OracleLimit
    try:
        out = _limited_call(lambda: _under_oracle(abbr, user_config, call))
        return ('ok', out, events)
    except Hang:
        return ('hang', CALL_LIMIT_S)
    except OracleLimit:
        return ('oracle-limit',)
    except Exception as e:  # noqa
        return classify_exc(e)


def decode_res(w, payload):
    r = Reader(w)
    tag = r.int()
    if tag == 0:
        return ('ok', payload(r))
    if tag == 1:
        kind = r.int()
        pos = r.opt(r.int)
        return ('err', kind, pos)
    if tag == 2:
        return ('internal', r.int())
    if tag == 3:
        return ('outoffuel',)
    return ('bad', w[:10])


def decode_expand(w):
    return decode_res(w, lambda r: r.str())


def decode_events(w):
    def ev(r):
        if r.int() == 0:
            return ('text', r.str(), r.int(), r.int(), r.int())
        return ('field', r.int(), r.str(), r.int(), r.int(), r.int())
    return decode_res(w, lambda r: r.list(lambda: ev(r)))


def mentions_lorem(abbr, user_config):
    """Conservative test: could a node name match the lorem pattern (random text)?  Such cases ARE compared with the model
    (run_cases: the implementation runs under the oracle of harness/lorem_oracle.py and the model gets the same draws); the
    test is kept for streams whose statement is about lorem-free abbreviations."""
    if 'lorem' in abbr.lower():
        return True
    for v in (user_config.get('snippets') or {}).values():
        if isinstance(v, str) and 'lorem' in v.lower():
            return True
    return False


def run_cases(ctx, model, cases, label, oracle=None, mode='expand', compare_model=True):
    """cases: list of (abbr, user_config, meta).  Runs the implementation on every case, the
    property oracle (if any) on every implementation result, and the extracted model on every
    case it covers; compares model and implementation on the observable of `mode`.
    Returns list of implementation results."""
    impl = []
    wires = []
    idx = []
    for k, (abbr, cfg, meta) in enumerate(cases):
        r = impl_events(abbr, cfg) if mode == 'events' else impl_expand(abbr, cfg)
        impl.append(r)
        ctx.count_eval()
        ctx.cover('%s:%s' % (label, r[0] if r[0] != 'err' else 'err%d' % r[1]))
        if oracle is not None:
            bad = oracle(abbr, cfg, meta, r)
            if bad:
                # an oracle may name the listed finding class its verdict belongs to (a str with a `key` attribute)
                ctx.property_failure(getattr(bad, 'key', None) or '%s:%s|%s' % (label, abbr, canon_cfg(cfg)),
                                     '%s expand(%r, %s): %s' % (label, abbr, canon_cfg(cfg), bad),
                                     {'component': label, 'abbr': abbr, 'config': cfg, 'impl': repr(r)[:500], 'why': str(bad)})
        if compare_model and model is not None:
            try:
                from lorem_oracle import model_draws
                wires.append([3 if mode == 'events' else 2] + enc_config(cfg, model_draws(abbr, cfg)) + enc_str(abbr))
                idx.append(k)
            except NotModelled:
                ctx.cover(label + ':not-modelled')
    dis = 0
    if wires:
        outs = model.run(wires)
        for k, w in zip(idx, outs):
            abbr, cfg, meta = cases[k]
            if mode == 'events':
                mo = decode_events(w)
                r = impl[k]
                im = ('ok', [tuple(e) for e in r[2]]) if r[0] == 'ok' else r
            else:
                mo = decode_expand(w)
                im = impl[k]
            if im[0] in ('recursion', 'oracle-limit'):
                continue
            if mo != im:
                dis += 1
                if dis <= 5:
                    ctx.say('DISAGREE %s %r cfg=%s\n  impl  %r\n  model %r' % (label, abbr, canon_cfg(cfg), str(im)[:400], str(mo)[:400]))
                    ctx.broken.append({'kind': 'correspondence', 'file': 'markup-%s' % label, 'input': abbr,
                                       'config': canon_cfg(cfg), 'impl': repr(im)[:300], 'model': repr(mo)[:300]})
    c = ctx.cov['correspondence'].setdefault('markup_' + label, {'cases': 0, 'disagreements': 0})
    c['cases'] += len(wires)
    c['disagreements'] += dis
    return impl


def canon_cfg(cfg):
    import json
    return json.dumps(cfg, sort_keys=True, default=str)
