"""C01: the SAME abbreviation through every documented call route and every carrier of the configuration.

Two generator classes (used only by harness/props/c01.py):

* call routes x global-config layers (`route_cases`): `expand(abbr, dict, global_config)`, `expand(abbr, Config(dict, global))`,
  `expand_markup(abbr, Config)`, the two-step `markup.parse` + `markup.stringify`, and a pre-parsed `Abbreviation` tree
  handed to `markup.parse`; the global config carries entries for the abbreviation type (`markup`), for the syntax, for
  both, for an unrelated syntax / type, with `options` / `variables` / `snippets` sections (also empty ones) that must not
  change the element tree; the options the tree does depend on (self-closing style, inline element list, format on/off)
  are carried by the built-in syntax profile, by the call's own config, by the global syntax entry or by the global type
  entry.
* long-lived configuration objects (`sessions`): ONE `Config` object (or one caller-owned dict) is used for a whole
  sequence of expansions; between the calls the caller re-assigns its public state (`context` moved to another parent /
  removed, entries of `options` changed); every expansion must give the tree denoted under the state of that moment.

Everything the expectations depend on is hard-coded here from the documentation, never read from the library:
  BUILTIN_STYLE  -- self-closing style of the built-in syntax profiles (Emmet docs "Syntax profiles" / upstream emmet
                    src/config.ts `syntaxConfig`: xhtml -> xhtml, xml -> xml, xsl -> xml; html and everything else -> html)
  layer order    -- a value given by the call's own config wins over the global entry for the syntax, which wins over the
                    built-in profile of that syntax (README "global config"); the generators never create a conflict
                    between the global TYPE entry and a built-in SYNTAX profile (their relative order is C20's subject).
"""
import copy

import abbr_gen as g

BUILTIN_STYLE = {'html': 'html', 'xhtml': 'xhtml', 'xml': 'xml', 'xsl': 'xml'}
SYNTAXES = ['html', 'xhtml', 'xml', 'xsl']
LEAFY_STYLES = ('xhtml', 'xml')
# options that cannot change which elements are written or how they nest
NEUTRAL_OPTIONS = [('output.indent', '  '), ('output.indent', '\t\t'), ('output.newline', '\r\n'), ('output.attributeQuotes', 'single'),
                   ('output.compactBoolean', True), ('output.reverseAttributes', True), ('output.inlineBreak', 0),
                   ('output.formatLeafNode', True), ('output.baseIndent', ' '), ('bem.enabled', False), ('markup.href', False)]
NEUTRAL_VARIABLES = [('lang', 'de'), ('charset', 'latin1'), ('zzv', 'x')]
NEUTRAL_SNIPPETS = [('zzq', 'zzq[t=v]'), ('zzw', 'zzw.k'), ('zz:e', 'zz:e/')]      # keys no generated statement uses
CONTEXT_NAMES = sorted(g.IMPLICIT_DOC) + ['div', 'section', 'li', 'td', 'em', 'strong', 'sub', 'b', 'custom', 'UL', 'Table', 'P', 'Em', '']
CUSTOM_INLINE = [['x-y', 'custom'], ['section', 'li'], []]

ROUTE_NAMES = ['expand(abbr, dict, global)', 'expand(abbr, Config(dict, global))', 'expand_markup(abbr, Config(dict, global))',
               'markup.parse + markup.stringify', 'pre-parsed Abbreviation -> markup.parse -> markup.stringify']
SESSION_ROUTES = ['expand(abbr, cfg)', 'expand_markup(abbr, cfg)', 'markup.parse + markup.stringify',
                  'pre-parsed Abbreviation -> markup.parse -> markup.stringify']


# ---------------------------------------------------------------- denotation helpers
def denote_under(stmt, parent=None, inline=None):
    """(depth, name) preorder of the tree `stmt` denotes when the top-level elements stand below `parent` (the context
    element) and the inline elements are `inline` (None: the documented default the caller installed in abbr_gen.INLINE)."""
    saved = set(g.INLINE)
    if inline is not None:
        g.INLINE.clear()
        g.INLINE.update(inline)            # looked up as given (all lower-case here)
    try:
        return g.preorder(g.unroll(g.denote_stmt(stmt), parent_name=parent))
    finally:
        g.INLINE.clear()
        g.INLINE.update(saved)


def effective_option(syntax, user, glob, key, builtin=None):
    """Value of option `key` by the documented layering (see module docstring; conflict-free by construction)."""
    v = builtin
    for lay in (glob.get('markup'), glob.get(syntax), user):
        if isinstance(lay, dict) and key in (lay.get('options') or {}):
            v = lay['options'][key]
    return v


def effective_style(user, glob):
    syntax = user.get('syntax', 'html')
    return effective_option(syntax, user, glob, 'output.selfClosingStyle', BUILTIN_STYLE.get(syntax, 'html'))


def xsl_keys():
    """Names the xsl syntax turns into other elements (generator hygiene only: such names are not used under xsl)."""
    from emmet.snippets import xsl_snippets
    out = set()
    for k in xsl_snippets:
        out.update(k.split('|'))
    return out


# ---------------------------------------------------------------- runners
def _guard(fn):
    from markup_util import _limited_call, classify_exc, CALL_LIMIT_S
    from common import Hang
    try:
        return ('ok', _limited_call(fn))
    except Hang:
        return ('hang', CALL_LIMIT_S)
    except Exception as e:  # noqa
        return classify_exc(e)


def _via(route, abbr, cfg):
    """Expand `abbr` with the resolved Config object `cfg` through one of the Config-taking routes."""
    import emmet
    import emmet.markup as mk
    if route.startswith('expand(abbr'):
        return emmet.expand(abbr, cfg)
    if route.startswith('expand_markup'):
        return emmet.expand_markup(abbr, cfg)
    if route.startswith('markup.parse'):
        return mk.stringify(mk.parse(abbr, cfg), cfg)
    if route.startswith('pre-parsed'):
        tree = emmet.parse_markup_abbreviation(abbr)
        return emmet.stringify_markup(emmet.markup_abbreviation(tree, cfg), cfg)
    raise ValueError(route)


def run_route(route, abbr, user, glob):
    """One expansion through `route`; `glob` None = the route is used without a global config argument."""
    import emmet
    from emmet.config import Config
    u = copy.deepcopy(user)
    gl = copy.deepcopy(glob)

    def call():
        if route == 'expand(abbr, dict, global)':
            return emmet.expand(abbr, u) if gl is None else emmet.expand(abbr, u, gl)
        cfg = Config(u) if gl is None else Config(u, gl)
        return _via(route, abbr, cfg)
    return _guard(call)


def run_session(sess, upto=None):
    """Run the call sequence of `sess` on ONE configuration object; returns the list of results (one per step)."""
    import emmet
    from emmet.config import Config
    u = copy.deepcopy(sess['config'])
    gl = copy.deepcopy(sess['global'])
    carrier = sess['carrier']
    if carrier == 'Config':
        obj = Config(u) if gl is None else Config(u, gl)
    else:
        obj = u
    out = []
    for step in sess['steps'][:upto]:
        if 'set_context' in step:
            c = copy.deepcopy(step['set_context'])
            if carrier == 'Config':
                obj.context = c
            else:
                obj['context'] = c
        for k, v in (step.get('set_options') or {}).items():
            if carrier == 'Config':
                obj.options[k] = copy.deepcopy(v)
            else:
                obj.setdefault('options', {})[k] = copy.deepcopy(v)
        if carrier == 'Config':
            out.append(_guard(lambda: _via(step['route'], step['abbr'], obj)))
        elif gl is None:
            out.append(_guard(lambda: emmet.expand(step['abbr'], obj)))
        else:
            out.append(_guard(lambda: emmet.expand(step['abbr'], obj, gl)))
    return out


def reduce_session(sess, k, with_options=True):
    """The session cut down to step k alone, preceded by the state changes made before it (merged into that step; the
    option changes only when `with_options`)."""
    merged = {}
    opts = {}
    for step in sess['steps'][:k + 1]:
        if 'set_context' in step:
            merged['set_context'] = step['set_context']
        opts.update(step.get('set_options') or {})
    last = dict(sess['steps'][k])
    last.pop('set_context', None)
    last.pop('set_options', None)
    last.update(merged)
    if opts and with_options:
        last['set_options'] = opts
    return dict(sess, steps=[last])


# ---------------------------------------------------------------- generators
def neutral_layer(rng):
    """A global-config entry (for a type or a syntax) that must leave the element tree alone."""
    lay = {}
    r = rng.random()
    if r < 0.08:
        return lay                      # entry present but empty
    secs = ['options'] if r < 0.55 else rng.sample(['options', 'variables', 'snippets'], rng.randint(1, 3))
    for s in secs:
        src = {'options': NEUTRAL_OPTIONS, 'variables': NEUTRAL_VARIABLES, 'snippets': NEUTRAL_SNIPPETS}[s]
        lay[s] = dict(rng.sample(src, rng.randint(0 if rng.random() < 0.15 else 1, 2)))
    return lay


GLOBAL_SHAPES = ['type', 'syntax', 'type+syntax', 'other-entries-only', 'syntax+other-entries', 'empty-global']


def make_config(rng, syntax=None, shape=None, style_from=None, allow_inline=True):
    """(user, glob, info): a call config + global config whose effective self-closing style / inline list are known.
    style_from: where `output.selfClosingStyle` is written -- 'builtin' (nowhere: the syntax profile decides), 'user',
    'global-syntax', 'global-type' (only with a syntax that has no profile of its own)."""
    syntax = syntax or rng.choice(SYNTAXES)
    shape = shape or rng.choice(GLOBAL_SHAPES)
    user = {}
    if syntax != 'html' or rng.random() < 0.5:
        user['syntax'] = syntax
    if rng.random() < 0.15:
        user['type'] = 'markup'
    glob = {}
    if 'type' in shape:
        glob['markup'] = neutral_layer(rng)
    if 'syntax' in shape:
        glob[syntax] = neutral_layer(rng)
    if 'other' in shape:
        # entries for syntaxes / types that are not in force: whatever they say must not matter
        for other in rng.sample([s for s in ['html', 'xhtml', 'xml', 'xsl', 'pug', 'jsx', 'stylesheet', 'css'] if s != syntax], rng.randint(1, 2)):
            lay = neutral_layer(rng)
            lay.setdefault('options', {})['output.selfClosingStyle'] = rng.choice(['html', 'xhtml', 'xml'])
            lay['options']['inlineElements'] = ['div', 'section', 'ul']
            glob[other] = lay
    # where the style is written
    choices = ['builtin', 'builtin', 'user']
    if syntax in glob:
        choices += ['global-syntax', 'global-syntax']
    if 'markup' in glob and syntax == 'html':
        choices += ['global-type', 'global-type']
    style_from = style_from if style_from in choices else rng.choice(choices)
    style = rng.choice(['html', 'xhtml', 'xml'])
    if style_from == 'user':
        user.setdefault('options', {})['output.selfClosingStyle'] = style
    elif style_from == 'global-syntax':
        glob[syntax].setdefault('options', {})['output.selfClosingStyle'] = style
    elif style_from == 'global-type':
        glob['markup'].setdefault('options', {})['output.selfClosingStyle'] = style
    # format on / off: in the call's config, in a global entry, or left to the default
    r = rng.random()
    if r < 0.35:
        user.setdefault('options', {})['output.format'] = rng.random() < 0.4
    elif r < 0.55 and glob:
        key = rng.choice(sorted(k for k in glob if k in ('markup', syntax)) or [None])
        if key:
            glob[key].setdefault('options', {})['output.format'] = False
    # a user-defined inline list in one of the layers
    inline = None
    inline_from = 'default'
    if allow_inline and rng.random() < 0.2:
        inline = rng.choice(CUSTOM_INLINE)
        spots = ['user'] + (['global-syntax'] if syntax in glob else []) + (['global-type'] if 'markup' in glob else [])
        inline_from = rng.choice(spots)
        tgt = user if inline_from == 'user' else glob[syntax] if inline_from == 'global-syntax' else glob['markup']
        tgt.setdefault('options', {})['inlineElements'] = list(inline)
    if rng.random() < 0.1:
        user['cache'] = {}
    if shape == 'empty-global':
        glob = {}
    info = {'syntax': syntax, 'shape': shape, 'style_from': style_from, 'inline_from': inline_from, 'inline': inline,
            'style': effective_style(dict(user, syntax=syntax), glob)}
    return user, glob, info


def fixed_statements(rng, names, voids, leafy):
    """Shapes in which a lost style / lost layer shows: void snippet elements and `x/` elements as leaves (only under the
    styles that write leaves self-closed), as parents, below repeated parents, inside repeated groups, after climbs."""
    E, G = g.El, g.Group
    n = lambda: rng.choice(names)
    nl = lambda **kw: E(name=None, classes=['k'], **kw)
    out = [
        [(E(name=n()), '>'), (E(name=n(), repeat=2), '>'), (nl(), '+'), (E(name=n()), '')],
        [(G([(E(name=n()), '>'), (nl(), '')], repeat=2), '+'), (nl(), '>'), (E(name=n()), '^^'), (E(name=n()), '')],
    ]
    if leafy:
        v = lambda: E(name=rng.choice(voids)) if rng.random() < 0.7 else E(name=n(), self_close=True)
        out += [
            [(E(name=n()), '>'), (v(), '')],
            [(E(name=n()), '>'), (v(), '+'), (E(name=n()), '')],
            [(E(name=n()), '>'), (E(name=n(), repeat=2), '>'), (v(), '')],
            [(E(name=n()), '>'), (G([(E(name=n()), '>'), (v(), '')], repeat=2), '+'), (v(), '')],
            [(E(name=n()), '>'), (E(name=n()), '>'), (v(), '^^'), (v(), '')],
            [(v(), '+'), (nl(), '>'), (v(), '+'), (nl(), '')],
        ]
    return out


def route_cases(ctx, names, snips, n_random):
    """-> list of (route, abbr, user, glob, meta)."""
    rng = ctx.rng
    xsl = xsl_keys()
    cases = []
    k = 0

    def pools(syntax):
        ok = (lambda w: w not in xsl) if syntax == 'xsl' else (lambda w: True)
        plain = [w for w in names if ok(w)]
        nonvoid = plain + [s for s, void in snips if not void and ok(s)]
        voids = [s for s, void in snips if void and ok(s)]
        return plain, nonvoid, voids

    def add(stmt, user, glob, info, route=None):
        nonlocal k
        route = route or ROUTE_NAMES[k % len(ROUTE_NAMES)]
        k += 1
        use_glob = glob
        if not glob and rng.random() < 0.5:
            use_glob = None                    # the route without the global argument at all
        meta = denote_under(stmt, None, info['inline'])
        cases.append((route, g.render(stmt), user, use_glob, meta))
        ctx.cover('routes:route-%s' % route)
        ctx.cover('routes:global-%s' % info['shape'])
        ctx.cover('routes:syntax-%s' % info['syntax'])
        ctx.cover('routes:style-%s-from-%s' % (info['style'], info['style_from']))
        if info['inline_from'] != 'default':
            ctx.cover('routes:inline-list-from-%s' % info['inline_from'])

    # every syntax x every global shape x every place the style can be written, all routes in rotation
    for syntax in SYNTAXES:
        for shape in GLOBAL_SHAPES:
            for style_from in ('builtin', 'user', 'global-syntax', 'global-type'):
                user, glob, info = make_config(rng, syntax, shape, style_from)
                if info['style_from'] != style_from:
                    continue                   # this shape has no such layer
                plain, nonvoid, voids = pools(syntax)
                for st in fixed_statements(rng, nonvoid, voids, info['style'] in LEAFY_STYLES):
                    add(st, user, glob, info)
    # random statements under random configurations

    def decorate(rng, el):
        if rng.random() < 0.25:
            el.classes = ['k']
            if rng.random() < 0.6:
                el.name = None
    for _ in range(n_random):
        user, glob, info = make_config(rng)
        leafy = info['style'] in LEAFY_STYLES
        plain, nonvoid, voids = pools(info['syntax'])
        pool = (nonvoid + voids if leafy else nonvoid) if rng.random() < 0.6 else plain
        st = g.rand_stmt(rng, pool, rng.randint(2, 9), max_depth=3, rep_max=3, decorate=decorate)
        if g.total_copies(g.unroll(g.denote_stmt(st))) > 200:
            continue
        g.mark_self_close(st, rng, leafy, p=0.2 if leafy else 0.1)
        add(st, user, glob, info)
    return cases


def sessions(ctx, names, snips, n_sessions, steps_per):
    """-> list of session dicts {'carrier', 'config', 'global', 'steps': [{'set_context'?, 'set_options'?, 'route', 'abbr',
    'meta'}]}: the denotation of every step is computed from the state the CALLER has set up at that moment."""
    rng = ctx.rng
    xsl = xsl_keys()
    out = []
    for s in range(n_sessions):
        carrier = 'Config' if s % 3 else 'dict'
        user, glob, info = make_config(rng, syntax=rng.choice(['html', 'html', 'xhtml', 'xml', 'xsl']))
        syntax = info['syntax']
        ok = (lambda w: w not in xsl) if syntax == 'xsl' else (lambda w: True)
        plain = [w for w in names if ok(w)]
        nonvoid = plain + [w for w, void in snips if not void and ok(w)]
        voids = [w for w, void in snips if void and ok(w)]
        ctx_name = None
        r = rng.random()
        if r < 0.4:                            # built with a context: the one the first calls see, a stale one later
            ctx_name = rng.choice(CONTEXT_NAMES)
            user['context'] = {'name': ctx_name}
        elif r < 0.5:
            user['context'] = None
        if not glob and rng.random() < 0.5:
            glob = None
        style = info['style']
        inline = info['inline']
        steps = []
        for i in range(steps_per):
            step = {}
            r = rng.random()
            if r < 0.6:                        # the caller moves the context to another parent / takes it away
                if rng.random() < 0.12:
                    ctx_name = None
                    step['set_context'] = None
                    ctx.cover('session:context-removed')
                else:
                    ctx_name = rng.choice(CONTEXT_NAMES)
                    step['set_context'] = {'name': ctx_name}
                    if rng.random() < 0.2:
                        step['set_context']['attributes'] = {'class': 'blk'}
                    ctx.cover('session:context-moved')
            elif i:
                ctx.cover('session:context-kept')
            so = {}
            r = rng.random()
            if r < 0.12:
                style = rng.choice(['html', 'xhtml', 'xml'])
                so['output.selfClosingStyle'] = style
                ctx.cover('session:option-selfClosingStyle-changed')
            elif r < 0.24:
                so['output.format'] = rng.random() < 0.5
                ctx.cover('session:option-format-changed')
            elif r < 0.32:
                inline = rng.choice(CUSTOM_INLINE)
                so['inlineElements'] = list(inline)
                ctx.cover('session:option-inlineElements-changed')
            if so:
                step['set_options'] = so
            leafy = style in LEAFY_STYLES

            def decorate(rng, el):
                if rng.random() < 0.5:
                    el.classes = ['k']
                    if rng.random() < 0.75:
                        el.name = None
            pool = nonvoid + voids if leafy and rng.random() < 0.5 else nonvoid
            st = g.rand_stmt(rng, pool, rng.randint(1, 6), max_depth=2, rep_max=3, decorate=decorate)
            if rng.random() < 0.5:             # make sure the first top-level element is a nameless one
                head = st[0][0]
                while isinstance(head, g.Group):
                    head = head.items[0][0]
                if head.name in voids or head.self_close:
                    pass
                else:
                    head.name = None
                    head.classes = head.classes or ['top']
            if g.total_copies(g.unroll(g.denote_stmt(st))) > 150:
                st = [(g.El(name=None, classes=['item'], repeat=2), '')]
            g.mark_self_close(st, rng, leafy, p=0.1)
            step['route'] = rng.choice(SESSION_ROUTES) if carrier == 'Config' else 'expand(abbr, dict, global)'
            step['abbr'] = g.render(st)
            step['meta'] = denote_under(st, ctx_name, inline)
            steps.append(step)
            ctx.cover('session:route-%s' % step['route'])
        out.append({'carrier': carrier, 'config': user, 'global': glob, 'steps': steps})
        ctx.cover('session:carrier-%s%s' % (carrier, '' if 'context' not in user else '-built-with-context'))
    return out
