"""C08 generators for two further classes of histories (used by harness/props/c08.py only).

1. OPTION VALUES IN EVERY SHAPE THE LIBRARY ACCEPTS, THROUGH CONFIGURATIONS THE CALLER REUSES.  The options whose
   documented value is a list of names (inlineElements, output.formatSkip, output.formatForce,
   output.booleanAttributes, comment.trigger, stylesheet.keywords, stylesheet.unitless) are only ever asked
   `name in option`; the library therefore also takes the names written as ONE string (space- or comma-separated,
   one name alone, the empty string, with stray white space), an empty list, a one-element list, a list in another
   order.  Options that are switches are only asked for their truth value (0 / 1 / '' / 'yes' / None next to
   False / True), output.inlineBreak 0, dict-valued options (markup.attributes, markup.valuePrefix,
   stylesheet.unitAliases) empty.  What C08 says about them: a Config OBJECT the caller built once from such
   options -- or the caller's dict, or an equal copy -- gives the same result on the 1st, 2nd, ... n-th call.
   Explored here: per option and per value shape one caller-owned Config object used for 2..5 calls of abbreviations
   on which the option is visible (the same abbreviation again, other ones in between, a raising call in between),
   next to the same dict and an equal copy; random mixtures of several such options in one configuration.

2. MARKUP CONFIGURATIONS THAT SHARE ONE CACHE DICT.  `cache` is documented for stylesheet snippets, but it is a key of
   every configuration: an editor plugin keeps ONE dict and passes it with every call, markup included.  Explored
   here: markup configurations with `cache`: k that differ in ONE option of every family that decides what markup
   output looks like (comment.*, output.*, inlineElements, markup.*, bem.*, jsx.enabled, output.field), in syntax,
   snippets, variables, context or text; per variant the call made with the library defaults first and the variant
   second and the other way round, per family every variant once the FIRST caller of the cache (rotations of a ring),
   a stylesheet configuration on the same cache dict in between; the polluting call with no option at all; random
   histories over random combinations.

Nothing here is an expectation: the tables only steer the generators.  Every call is judged by history_util.oracle
(the same call alone in a pristine process, with a fresh cache dict and without cache; caller-owned dicts and Config
objects compared before and after every call).  Option names and value types are the documented ones (py-emmet README
"options", docs.emmet.io/customization/preferences): they are written down here, not read from emmet.config."""
import json


def _copy(o):
    return json.loads(json.dumps(o))


# ====================================================================== 1. option values in every accepted shape
# option -> (type, names the generator writes into it, extra options that make it visible, abbreviations on which it is visible)
LIST_OPTIONS = {
    'inlineElements': ('markup', ['div', 'p', 'foo', 'em'], None,
                       ['div>p>foo', 'section>div+p+foo', 'p>em+foo*3', 'ul>li>div>em', 'span>a+b']),
    'output.formatSkip': ('markup', ['html', 'body', 'div'], None,
                          ['html>body>p', 'div>p>span', 'html>head+body>div>p', 'body>ul>li*2']),
    'output.formatForce': ('markup', ['body', 'span', 'a', 'em'], None,
                           ['p>span', 'body>a', 'div>a+span', 'p>em>a', 'html>body']),
    'output.booleanAttributes': ('markup', ['foo', 'checked', 'data-x', 'open'], None,
                                 ['input[foo]', 'input[checked data-x]', 'p[foo bar]+details[open]', 'a[foo=1 open]']),
    'comment.trigger': ('markup', ['title', 'id', 'data-x'], {'comment.enabled': True},
                        ['div#a', 'div.b', 'p[title=x]', 'div#a.b>p.c', 'ul[data-x=1]>li#i*2']),
    'stylesheet.keywords': ('stylesheet', ['auto', 'bogus', 'inherit', 'zap'], None,
                            ['m:a', 'm0-a', 'w:bo', 'p:i', 'd:z', 'm:a+w:bo']),
    'stylesheet.unitless': ('stylesheet', ['z-index', 'line-height', 'margin', 'padding'], None,
                            ['lh2', 'm10', 'p5', 'z1', 'm10-20', 'lh2+m10', 'w10']),
}
LIST_SHAPES = ['list', 'space_separated_string', 'comma_separated_string', 'comma_space_separated_string', 'one_name_string',
               'empty_string', 'empty_list', 'one_name_list', 'reversed_list', 'string_with_stray_white_space',
               'newline_separated_string']


def shape_value(names, shape):
    if shape == 'list':
        return list(names)
    if shape == 'space_separated_string':
        return ' '.join(names)
    if shape == 'comma_separated_string':
        return ','.join(names)
    if shape == 'comma_space_separated_string':
        return ', '.join(names)
    if shape == 'one_name_string':
        return names[0]
    if shape == 'empty_string':
        return ''
    if shape == 'empty_list':
        return []
    if shape == 'one_name_list':
        return [names[1]]
    if shape == 'reversed_list':
        return list(reversed(names))
    if shape == 'string_with_stray_white_space':
        return '  ' + ' \t'.join(names) + ' '
    if shape == 'newline_separated_string':
        return '\n'.join(names)
    raise ValueError(shape)


# switches and numbers: documented type bool / int / str / dict, written in another shape with a truth value
SCALAR_SHAPES = [
    ('markup', {'output.format': 0}, ['div>p>span', 'ul>li*2']),
    ('markup', {'output.format': ''}, ['div>p>span']),
    ('markup', {'output.compactBoolean': 1}, ['input[disabled.]', 'input[checked. title=x]']),
    ('markup', {'output.compactBoolean': 'yes'}, ['input[disabled.]']),
    ('markup', {'comment.enabled': 1}, ['div#a.b', 'p.c>span#d']),
    ('markup', {'comment.enabled': 'yes', 'comment.before': None}, ['div#a.b']),
    ('markup', {'bem.enabled': 1}, ['.b>.-e', '.b_m>.-e>.--f']),
    ('markup', {'jsx.enabled': 1}, ['div.a[b={c}]', 'img.x']),
    ('markup', {'markup.href': 0}, ['a{http://emmet.io}', 'a{info@emmet.io}']),
    ('markup', {'markup.href': None}, ['a{http://emmet.io}']),
    ('markup', {'output.inlineBreak': 0}, ['p>a*4', 'div>span+em+b+i']),
    ('markup', {'output.reverseAttributes': 1}, ['a[title=x].c#d']),
    ('markup', {'output.formatLeafNode': 1}, ['div>p', 'ul>li*2']),
    ('markup', {'markup.attributes': {}}, ['div.a', 'label[for=x]']),
    ('markup', {'markup.valuePrefix': {}}, ['div.a', 'p..b']),
    ('stylesheet', {'stylesheet.shortHex': 0}, ['c#f', 'bgc#fc0']),
    ('stylesheet', {'stylesheet.json': 1}, ['m10', 'p10+c#f']),
    ('stylesheet', {'stylesheet.skipUnmatched': 0}, ['foo-bar10', 'qwx']),
    ('stylesheet', {'stylesheet.fuzzySearchMinScore': 1}, ['mt10', 'pos:a']),
    ('stylesheet', {'stylesheet.unitAliases': {}}, ['m10p', 'w5e-2x']),
]

# documented value types (README "options"): what a value must be for the pipeline MODELS to be asked about a call
DOC_TYPES = {
    'inlineElements': list, 'output.formatSkip': list, 'output.formatForce': list, 'output.booleanAttributes': list,
    'comment.trigger': list, 'stylesheet.keywords': list, 'stylesheet.unitless': list,
    'output.format': bool, 'output.formatLeafNode': bool, 'output.compactBoolean': bool, 'output.reverseAttributes': bool,
    'markup.href': bool, 'comment.enabled': bool, 'bem.enabled': bool, 'jsx.enabled': bool, 'stylesheet.shortHex': bool,
    'stylesheet.json': bool, 'stylesheet.jsonDoubleQuotes': bool, 'stylesheet.skipUnmatched': bool,
    'output.inlineBreak': int, 'stylesheet.fuzzySearchMinScore': (int, float),
    'output.indent': str, 'output.baseIndent': str, 'output.newline': str, 'output.tagCase': str, 'output.attributeCase': str,
    'output.attributeQuotes': str, 'output.selfClosingStyle': str, 'comment.before': str, 'comment.after': str,
    'bem.element': str, 'bem.modifier': str, 'stylesheet.between': str, 'stylesheet.after': str, 'stylesheet.intUnit': str,
    'stylesheet.floatUnit': str, 'markup.attributes': dict, 'markup.valuePrefix': dict, 'stylesheet.unitAliases': dict,
}


def documented_types(options):
    """every option value of `options` has its documented type (then the pipeline models are asked about the call;
    otherwise the call is judged by the oracle and the history state machine only)"""
    for k, v in (options or {}).items():
        t = DOC_TYPES.get(k)
        if t is None or v == '@tabstop':
            continue
        if t is bool:
            if not isinstance(v, bool):
                return False
        elif t is int:
            if isinstance(v, bool) or not isinstance(v, int) or v < 1:
                return False
        elif t is dict:
            if not isinstance(v, dict) or not v:
                return False
        elif not isinstance(v, t) or (t is not bool and isinstance(v, bool)):
            return False
    return True


def _shape_dict(opt, shape, names=None):
    typ, nm, extra, abbrs = LIST_OPTIONS[opt]
    d = {} if typ == 'markup' else {'type': 'stylesheet'}
    d['options'] = dict(extra or {}, **{opt: shape_value(names or nm, shape)})
    return d


def option_shape_pair_histories():
    """compact exhaustive part: per list-valued option and per value shape ONE caller-owned Config object (and the
    dict it was built from) used for the same abbreviation twice, another abbreviation, and the first one again; per
    switch / number / table written in another shape the same"""
    out = []
    for oi, opt in enumerate(LIST_OPTIONS):
        typ, names, extra, abbrs = LIST_OPTIONS[opt]
        for si, shape in enumerate(LIST_SHAPES):
            d = _shape_dict(opt, shape)
            a, b = abbrs[(oi + si) % len(abbrs)], abbrs[(oi + si + 1) % len(abbrs)]
            if typ == 'stylesheet' and si % 2:
                d['cache'] = 0
            calls = [{'abbr': a, 'via': 'obj', 'd': 0}, {'abbr': a, 'via': 'obj', 'd': 0}, {'abbr': b, 'via': 'obj', 'd': 0},
                     {'abbr': a, 'via': 'dict' if si % 3 else 'copy', 'd': 0}]
            out.append({'dicts': [d], 'ncaches': 1 if 'cache' in d else 0, 'objs': [0], 'calls': calls,
                        'probe': {'abbr': a, 'via': 'obj', 'd': 0}})
    for typ, opts, abbrs in SCALAR_SHAPES:
        d = {'options': _copy(opts)} if typ == 'markup' else {'type': 'stylesheet', 'options': _copy(opts)}
        a, b = abbrs[0], abbrs[-1]
        out.append({'dicts': [d], 'ncaches': 0, 'objs': [0],
                    'calls': [{'abbr': a, 'via': 'obj', 'd': 0}, {'abbr': b, 'via': 'obj', 'd': 0}, {'abbr': a, 'via': 'dict', 'd': 0}],
                    'probe': {'abbr': a, 'via': 'obj', 'd': 0}})
    return out


MK_FAILING = ['a)', 'p[', 'a[b="', 'p{${1']
CSS_FAILING = ['m${1', 'c:r(1', 'lg(top']


def rand_option_shape_history(rng):
    """one or two configurations of one type, each with 1..3 options written in a random shape (random subsets of the
    names), every one also kept as a Config object; 2..6 calls, mostly through the Config objects, of abbreviations on
    which the options are visible, sometimes a raising call in between; the probe repeats an earlier call"""
    typ = 'stylesheet' if rng.random() < 0.3 else 'markup'
    cand = [o for o in LIST_OPTIONS if LIST_OPTIONS[o][0] == typ]
    dicts, abbrs = [], []
    ncaches = 1 if typ == 'stylesheet' and rng.random() < 0.6 else 0
    for _ in range(rng.choice([1, 1, 2])):
        d = {} if typ == 'markup' else {'type': 'stylesheet'}
        opts = {}
        for opt in rng.sample(cand, rng.randint(1, min(3, len(cand)))):
            _, names, extra, ab = LIST_OPTIONS[opt]
            sub = rng.sample(names, rng.randint(2, len(names)))
            opts.update(extra or {})
            opts[opt] = shape_value(sub, rng.choice(LIST_SHAPES))
            abbrs += ab
        if rng.random() < 0.35:
            t2, o2, ab2 = rng.choice([s for s in SCALAR_SHAPES if s[0] == typ])
            opts.update(_copy(o2))
            abbrs += ab2
        d['options'] = opts
        if typ == 'markup' and rng.random() < 0.2:
            d['syntax'] = rng.choice(['xml', 'jsx', 'pug', 'haml', 'slim'])
        if typ == 'stylesheet' and rng.random() < 0.2:
            d['syntax'] = rng.choice(['scss', 'sass', 'stylus'])
        if ncaches:
            d['cache'] = 0
        dicts.append(d)
    objs = list(range(len(dicts)))

    def call(abbr=None):
        a = abbr if abbr is not None else rng.choice(abbrs)
        if abbr is None and rng.random() < 0.1:
            a = rng.choice(CSS_FAILING if typ == 'stylesheet' else MK_FAILING)
        r = rng.random()
        if r < 0.7:
            return {'abbr': a, 'via': 'obj', 'd': rng.randrange(len(objs))}
        return {'abbr': a, 'via': 'dict' if r < 0.85 else 'copy', 'd': rng.randrange(len(dicts))}
    calls = [call() for _ in range(rng.randint(2, 6))]
    c0 = rng.choice(calls)
    probe = dict(c0) if rng.random() < 0.6 else dict(call(c0['abbr']), via='obj', d=rng.randrange(len(objs)))
    return {'dicts': dicts, 'ncaches': ncaches, 'objs': objs, 'calls': calls, 'probe': probe}


# ====================================================================== 2. markup configurations sharing one cache dict
ID_CLASS = ['div#a.b', 'ul#n>li.i*2>a', 'p.x>span#y', 'div#a', 'section.s>p#q.r+em']
# family -> (option sets that differ in the options of this family, abbreviations on which the family is visible)
MK_FAMILIES = {
    'comment': ([None, {'comment.enabled': True}, {'comment.enabled': True, 'comment.after': ''},
                 {'comment.enabled': True, 'comment.after': None}, {'comment.enabled': True, 'comment.before': '<!-- [#ID][.CLASS] -->'},
                 {'comment.enabled': True, 'comment.before': '<!-- b -->\n', 'comment.after': ''},
                 {'comment.enabled': True, 'comment.after': '\n<!-- end [.CLASS] -->'},
                 {'comment.enabled': True, 'comment.trigger': ['class']}, {'comment.after': '', 'comment.before': 'x'},
                 {'comment.enabled': True, 'comment.before': '', 'comment.after': ' <!-- [#ID] -->'}], ID_CLASS),
    'layout': ([None, {'output.indent': '  '}, {'output.newline': '\r\n'}, {'output.baseIndent': '>>'}, {'output.format': False},
                {'output.formatLeafNode': True}, {'output.formatSkip': ['div', 'ul']}, {'output.formatForce': ['span', 'a']},
                {'output.inlineBreak': 1}, {'inlineElements': ['div', 'li']}, {'output.indent': '', 'output.newline': ' '}],
               ['div>p>span+a', 'ul>li*2>a', 'p>a*3', 'html>body>div>span', 'div>div>div']),
    'names': ([None, {'output.tagCase': 'upper'}, {'output.attributeCase': 'upper'}, {'output.attributeQuotes': 'single'},
               {'output.selfClosingStyle': 'xhtml'}, {'output.selfClosingStyle': 'xml'}, {'output.compactBoolean': True},
               {'output.booleanAttributes': ['title']}, {'output.reverseAttributes': True},
               {'markup.attributes': {'class': 'className', 'title': 'data-title'}}, {'markup.valuePrefix': {'class': 'st'}},
               {'jsx.enabled': True}, {'output.field': '@tabstop'}, {'markup.href': False}],
              ['input[disabled. title=x]+img.c', 'a.k[title]{http://x.io}', 'br+p.a[b=c]#d', 'label[for=x]>input:c', 'a[href]{t}']),
    'bem': ([None, {'bem.enabled': True}, {'bem.enabled': True, 'bem.element': '-'}, {'bem.enabled': True, 'bem.modifier': '--'},
             {'bem.enabled': True, 'bem.element': '__', 'bem.modifier': '_'}], ['.b>.-e', '.b_m>.-e>.--f', '.blk>.-el_mod+.-x', 'div.b>p']),
}
# what is not an option: syntax, snippets, variables, context, wrap text
MK_OTHER = ([None, {'syntax': 'xml'}, {'syntax': 'pug'}, {'syntax': 'haml'}, {'syntax': 'slim'}, {'syntax': 'jsx'}, {'syntax': 'xsl'},
             {'snippets': {'foo': 'div.x>span{hi}', 'a': 'a.own'}}, {'snippets': {'foo': 'ul>li*2', 'img': 'img.mine/'}},
             {'variables': {'lang': 'ru', 'charset': 'koi8'}}, {'variables': {'lang': 'de'}},
             {'context': {'name': 'ul'}}, {'context': {'name': 'span'}}, {'text': ['x', 'y']}, {'text': 'hello'}],
            ['foo>a', '!', 'ul>.i+.j', 'img+br', 'a.k#i', 'p*', '.c', 'html[lang=${lang}]>foo'])
SHARED_CSS = [{'type': 'stylesheet'}, {'type': 'stylesheet', 'snippets': {'foo': 'margin:10'}, 'options': {'stylesheet.intUnit': 'pt'}}]


def mk_cache_dict(options=None, other=None, cache=0):
    d = {}
    if options is not None:
        d['options'] = _copy(options)
    d.update(_copy(other or {}))
    if cache is not None:
        d['cache'] = cache
    return d


def markup_cache_pair_histories():
    """compact exhaustive part, all configurations sharing cache dict 0.  Per family and per variant V: the call with
    the library defaults (no option at all), V, the defaults again, V with another abbreviation.  Per family the ring
    of its variants started at every position (every variant is the FIRST caller of the cache in one history), one
    abbreviation per rotation; every third ring has a stylesheet configuration on the same cache dict in between."""
    out = []
    fams = [(f, [mk_cache_dict(o) for o in vs], ab) for f, (vs, ab) in MK_FAMILIES.items()]
    fams.append(('other', [mk_cache_dict(None, o) for o in MK_OTHER[0]], MK_OTHER[1]))
    n_ring = 0
    for f, dicts, abbrs in fams:
        for vi in range(1, len(dicts)):
            a, b = abbrs[vi % len(abbrs)], abbrs[(vi + 1) % len(abbrs)]
            out.append({'dicts': [dicts[0], dicts[vi]], 'ncaches': 1, 'objs': [],
                        'calls': [{'abbr': a, 'via': 'dict', 'd': 0}, {'abbr': a, 'via': 'dict', 'd': 1},
                                  {'abbr': a, 'via': 'dict' if vi % 2 else 'copy', 'd': 0}],
                        'probe': {'abbr': b, 'via': 'dict', 'd': 1}})
        n = len(dicts)
        for s in range(n):
            a = abbrs[s % len(abbrs)]
            ds = list(dicts)
            order = [(s + k) % n for k in range(n)]
            calls = [{'abbr': a, 'via': 'dict', 'd': i} for i in order]
            n_ring += 1
            if n_ring % 3 == 0:
                ds.append(dict(_copy(SHARED_CSS[n_ring // 3 % 2]), cache=0))
                calls.insert(1, {'abbr': 'foo+m10', 'via': 'dict', 'd': n})
            out.append({'dicts': ds, 'ncaches': 1, 'objs': [n_ring % n] if n_ring % 4 == 0 else [], 'calls': calls[:6],
                        'probe': {'abbr': a, 'via': 'dict' if s % 2 else 'copy', 'd': order[0]}})
    return out


def rand_markup_cache_history(rng, max_len=6):
    """2..4 markup configurations made of 0..2 option variants of random families plus sometimes another syntax /
    snippets / variables / context / text, sharing 1 (sometimes 2) cache dicts, sometimes a stylesheet configuration
    on the same dict; 1..6 calls through the same dict, an equal copy, a Config object, without cache"""
    ncaches = rng.choice([1, 1, 1, 2])
    dicts, abbrs = [], []
    for _ in range(rng.randint(2, 4)):
        opts = None
        for f in rng.sample(sorted(MK_FAMILIES), rng.choice([0, 1, 1, 1, 2])):
            vs, ab = MK_FAMILIES[f]
            v = rng.choice(vs)
            if v is not None:
                opts = dict(opts or {}, **v)
            abbrs += ab
        other = rng.choice(MK_OTHER[0]) if rng.random() < 0.35 else None
        if other is not None or not abbrs:
            abbrs += MK_OTHER[1]
        dicts.append(mk_cache_dict(opts, other, rng.randrange(ncaches)))
    if rng.random() < 0.15:
        dicts[-1].pop('cache', None)
    n_mk = len(dicts)
    if rng.random() < 0.25:
        dicts.append(dict(_copy(rng.choice(SHARED_CSS)), cache=0))
    objs = [i for i in range(len(dicts)) if rng.random() < 0.25]

    def call(abbr=None, di=None):
        r = rng.random()
        if objs and r < 0.2 and di is None:
            k = rng.randrange(len(objs))
            di, via, ref = objs[k], 'obj', k
        else:
            di = rng.randrange(len(dicts)) if di is None else di
            via, ref = ('dict' if r < 0.75 else ('copy' if r < 0.93 else 'nocache')), di
        if di >= n_mk:
            a = rng.choice(['foo', 'm10', 'p1.5', 'foo+m10'])
        else:
            a = abbr if abbr is not None else rng.choice(abbrs)
        return {'abbr': a, 'via': via, 'd': ref}
    calls = [call() for _ in range(rng.randint(1, max_len))]
    mk_calls = [c for c in calls if (objs[c['d']] if c['via'] == 'obj' else c['d']) < n_mk]
    if mk_calls and rng.random() < 0.7:
        # the probe names what an earlier call named, through another markup configuration on a cache dict
        probe = call(rng.choice(mk_calls)['abbr'], rng.randrange(n_mk))
    else:
        probe = call()
    return {'dicts': dicts, 'ncaches': ncaches, 'objs': objs, 'calls': calls, 'probe': probe}


# ---------------------------------------------------------------------- evidence
def _spec(h, c):
    if c['via'] == 'default':
        return None
    return h['dicts'][h['objs'][c['d']] if c['via'] == 'obj' else c['d']]


def list_option_shape(opt, v):
    """evidence only: how the value of a list-valued option is written"""
    if isinstance(v, list):
        return 'list_of_%d' % min(len(v), 2) if len(v) < 2 else 'list'
    if isinstance(v, str):
        if v == '':
            return 'empty_string'
        if v != v.strip() or '\t' in v:
            return 'string_with_stray_white_space'
        if ',' in v:
            return 'comma_separated_string'
        if '\n' in v:
            return 'newline_separated_string'
        return 'space_separated_string' if ' ' in v else 'one_name_string'
    return type(v).__name__


def option_shapes(h):
    """evidence only: [(bucket, reused)] -- per configuration of `h` and per option written in a shape other than a
    plain list / its documented type: the bucket name and how many calls went through ONE Config object built from it"""
    seq = list(h['calls']) + [h['probe']]
    out = []
    for di, d in enumerate(h['dicts']):
        opts = d.get('options') or {}
        uses = sum(1 for c in seq if c['via'] == 'obj' and h['objs'][c['d']] == di)
        for k, v in opts.items():
            if k in LIST_OPTIONS:
                out.append(('%s_written_as_%s' % (k, list_option_shape(k, v)), uses))
            elif k in DOC_TYPES and not documented_types({k: v}):
                out.append(('%s_written_as_%s' % (k, 'empty_dict' if v == {} else type(v).__name__), uses))
    return out


def markup_cache_sharing(h):
    """evidence only: (number of differing markup configurations that use one cache dict in calls of `h`,
    the option families / other keys in which they differ)"""
    per = {}
    for c in list(h['calls']) + [h['probe']]:
        d = _spec(h, c)
        if d is None or d.get('type') == 'stylesheet' or d.get('cache') is None or c['via'] == 'nocache':
            continue
        per.setdefault(d['cache'], {})[json.dumps({k: v for k, v in d.items() if k != 'cache'}, sort_keys=True)] = d
    best, keys = 0, set()
    for cfgs in per.values():
        if len(cfgs) > best:
            best = len(cfgs)
        if len(cfgs) > 1:
            ds = list(cfgs.values())
            for d in ds:
                for k in d:
                    if k == 'options':
                        allo = set()
                        for e in ds:
                            allo |= set(e.get('options') or {})
                        for o in allo:
                            if len(set(json.dumps((e.get('options') or {}).get(o, '<default>'), sort_keys=True) for e in ds)) > 1:
                                keys.add(o.split('.')[0] if o != 'inlineElements' else 'output')
                    elif k != 'cache' and len(set(json.dumps(e.get(k), sort_keys=True) for e in ds)) > 1:
                        keys.add(k)
    return best, keys
