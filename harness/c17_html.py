"""C17, HTML half -- get_open_tag / select_item_html select exactly the tag,
attribute, value and class-token ranges.  `run_html(ctx)` / `replay_html(ctx, obj)`
are called from harness/props/c17.py."""
import glob
import json
import os

import c17_escapes
import c17_names
import html_gen
import html_util as hu
from common import VERIF

KINDS = ('open_tag', 'select_next', 'select_prev')


def doc_jobs(doc, ps):
    on = 'xml' if doc.xml else 'html'
    return [(k, doc.text, on, ps) for k in KINDS]


def check_doc(doc, results, ps):
    ot, sn, sp = results
    tags = hu.gt_tags(doc)
    for j, p in enumerate(ps):
        bad = (hu.c17_open_tag_problem(doc, p, ot[j]) or hu.c17_select_problem(doc, tags, p, False, sn[j])
               or hu.c17_select_problem(doc, tags, p, True, sp[j]))
        if bad:
            return (p, bad)
    return None


def run_html(ctx):
    ok = ctx.build(['props/C17Html.vo', 'run/HtmlRun.vo'])
    if ok:
        ctx.obligations('props/C17Html.v')
    model = ctx.model('html') if ok else None
    quick = ctx.tier == 'quick'
    n_docs = 110 if quick else 1400
    ctx.cov['rule'] = ctx.cov.get('rule', '') + (
        ' HTML: the documents of the C09 generator (harness/html_gen.py: random element trees with recorded tags, '
        'attributes, unquoted value ranges and class tokens; class attributes with several tokens and mixed white '
        'space; quoted, unquoted, expression and boolean attributes), EVERY position 0..len, for get_open_tag, '
        'select_item_html(next) and select_item_html(previous); oracle = the generator\'s record. A case = one '
        '(document, position); non-trivial when the position lies strictly inside an open or self-closing tag; distinct '
        'by (document text, position).'
        ' NAMES OVER THE WHOLE XML ALPHABET (harness/c17_names.py): the name alphabet is hard-coded from XML 1.0 sect. 2.3 '
        '[4] NameStartChar / [4a] NameChar, complete (all sixteen + six ranges up to U+EFFFF: CJK, Hangul, U+200C/U+200D, '
        'astral planes; the specification the library cites), not read from the library; '
        'one document per boundary code point (first, second, last-but-one, last) of every range and per inner point '
        '(CJK, Hangul, plane borders U+1FFFF/U+20000 .. U+DFFFF/U+E0000) with that character as '
        'first / middle / last / only character of tag names and attribute names (non-start name characters: middle / '
        'last), attributes in every value form plus class attributes whose tokens carry the character, and random '
        'documents whose names are drawn from the whole alphabet; non-name neighbours of the ranges (U+00D7, U+00F7, '
        'U+00B6..U+00BF, U+037E, U+2000, U+200B, U+200E, U+203E, U+2041, U+206F, U+2190, U+2BFF, U+2FF0, U+3000, U+E000, '
        'U+F8FF, U+FDD0, U+FDEF, U+FFFE, U+FFFF, U+F0000, U+10FFFF, `@[/;` and backtick) only inside quoted values, class tokens and text; every position, same '
        'three helpers, same ground-truth oracle, same model correspondence.'
        ' ESCAPES AND QUOTING LAYERS IN ATTRIBUTE VALUES (harness/c17_escapes.py): value bodies built from units -- backslash '
        'runs of length 2 and 4, backslash + other quote / letter / space / newline / `>` / `/` / `=` / brace / `u0041`, odd run + '
        'letter, backslash + OWN quote (runs 1 and 3; Emmet reads a quoted string with the backslash as escape character, '
        'scanner_utils.eat_quoted), character references and percent escapes of both quotes and of the backslash (&quot; &#34; '
        '&#x22; &apos; &#39; &#92; &bsol; &amp;quot; %22 %27 %5C), the bare other quote, `&`, `;`, unfinished references -- each unit in EVERY '
        'PLACE of the value (only / first / middle / last / last twice / first and last, i.e. directly after the opening and directly before the '
        'closing delimiter) x every value form it can be written in (double-quoted, single-quoted, {expression}, unquoted) x '
        '(ordinary attribute, class attribute whose first / middle / last token carries the unit; quick tier: both for the places only / last / '
        'last twice, one of the two at random for the other places, units without a backslash only in the places only / first / last), plus random documents with '
        'bodies of random units; the record is taken while writing (unquoted value = value without its two quote characters / '
        'its one outer brace pair; class tokens = maximal non-space runs); every position, same three helpers, same oracle, same '
        'model correspondence.')
    docs = []
    for path in sorted(glob.glob(os.path.join(VERIF, 'corpus', 'C17', 'html*.json'))):
        with open(path) as f:
            obj = json.load(f)
        docs.append(('corpus:' + os.path.basename(path), html_gen.doc_from_json(obj['doc'] if 'doc' in obj else obj)))
    rng = ctx.rng
    for i in range(n_docs):
        docs.append(('gen:%d' % i, html_gen.gen_document(rng, xml=(i % 4 == 3))))
    name_docs = c17_names.name_documents(rng, 40 if quick else 1200)
    for label, d in name_docs:
        for kind, names in (('tag', [e.name for e in d.elems]), ('attr', [a.name for e in d.elems for a in e.attrs])):
            for n in names:
                for k, ch in enumerate(n):
                    where = 'only' if len(n) == 1 else 'first' if k == 0 else 'last' if k == len(n) - 1 else 'middle'
                    if ord(ch) >= 0x80 or not ch.isalpha():
                        ctx.cover('html:name-char:%s:%s:%s' % (kind, c17_names.name_class(ord(ch)), where))
    docs += name_docs
    for label, d, buckets in c17_escapes.escape_documents(rng, 20 if quick else 1500, full=not quick):
        for bk in buckets:
            ctx.cover(bk)
        docs.append((label, d))
    jobs = []
    pos_of = []
    for _, d in docs:
        ps = list(range(0, len(d.text) + 1))
        pos_of.append(ps)
        jobs += doc_jobs(d, ps)
    res = hu.run_impl(jobs)
    n_fail = 0
    for i, (label, d) in enumerate(docs):
        r = res[3 * i:3 * i + 3]
        ps = pos_of[i]
        ctx.count_eval(len(ps))
        for f in d.features:
            if f.startswith('attr-'):
                ctx.cover('html:feature:' + f)
        for e in d.elems:
            for a in e.attrs:
                if a.name == 'class' and a.tokens is not None:
                    ctx.cover('html:class-tokens:%d' % min(len(a.tokens), 4))
        for j, p in enumerate(ps):
            t = r[0][j]
            if isinstance(t, tuple) and len(t) == 5 and t[1] in (1, 3):
                ctx.nontrivial((d.text, p))
        fail = check_doc(d, r, ps)
        if fail:
            n_fail += 1
            p, what = fail
            ctx.property_failure('c17-html:%s@%s' % (d.text, p), 'action_utils.html on %r at %s: %s' % (d.text[:200], p, what),
                                 {'component': 'c17-html', 'doc': html_gen.doc_to_json(d), 'pos': p, 'why': what, 'source': label})
    for (label, d), ps in list(zip(docs, pos_of))[-2:]:
        ctx.sample({'input': d.text[:300], 'xml': d.xml, 'positions': len(ps)})
    dis = hu.correspond(ctx, model, jobs, res, 'html_actions')
    # the same helpers on damaged documents and out-of-range positions (model vs implementation only)
    mjobs = []
    for i in range(60 if quick else 1500):
        d = html_gen.gen_document(rng, xml=(i % 4 == 3), max_nodes=10)
        s = html_gen.mutate(rng, d.text) if i % 3 else html_gen.gen_malformed(rng, 40)
        ps = list(range(-1, len(s) + 2))
        on = ('html', 'xml', 'ab')[i % 3]
        mjobs += [(k, s, on, ps) for k in KINDS]
    mres = hu.run_impl(mjobs)
    dis += hu.correspond(ctx, model, mjobs, mres, 'html_actions_damaged_documents')
    # token_list directly
    if model is not None:
        cases = []
        for i in range(400 if quick else 20000):
            s = ''.join(rng.choice(['a', 'b', ' ', ' ', '\t', '\n', '\xa0', 'cd', '\r']) for _ in range(rng.randint(0, 12)))
            cases.append((s, rng.choice([0, 1, 7, 100])))
        outs = model.run([[9] + hu.enc_str(s) + [off] for s, off in cases], procs=2)
        nd = 0
        for (s, off), w in zip(cases, outs):
            exp = hu.impl_token_list(s, off)
            got = [(w[1 + 2 * k], w[2 + 2 * k]) for k in range(w[0])] if w and w[0] >= 0 else w
            # the property itself: tokens are exactly the maximal runs of non-space characters
            want = html_gen.words(s, off)
            if exp != want:
                n_fail += 1
                ctx.property_failure('c17-html-token_list:%s' % s, 'token_list(%r, %d) gives %r, the words are %r' % (s, off, exp, want),
                                     {'component': 'c17-html-token_list', 'input': s, 'offset': off})
            if exp != got:
                nd += 1
                if nd <= 3:
                    ctx.say('DISAGREE token_list %r impl %r model %r' % (s, exp, got))
        ctx.cov['correspondence']['html_token_list'] = {'cases': len(cases), 'disagreements': nd}
        if nd and not n_fail:
            ctx.broken.append({'kind': 'correspondence', 'file': 'html-token-list', 'disagreements': nd})
    if dis and not n_fail:
        job, i, a, b = dis[0]
        ctx.broken.append({'kind': 'correspondence', 'file': 'html-actions:' + job[0], 'input': job[1][:400],
                           'opts': job[2], 'pos': None if i is None else job[3][i], 'impl': repr(a)[:300], 'model': repr(b)[:300]})
    special_option_docs(ctx)


# documents whose set of tags depends on the `special` option (raw-text elements): (text, options, names of the tags)
def _special_docs():
    d1 = '<div><template type=x><b class="i">t</b></template><p>q</p></div>'
    d2 = '<div><style><i>x</i></style><u>y</u></div>'
    d3 = '<x><script>a<b>c</b></script><em>e</em></x>'

    def starts(text, names):
        return sorted(text.index('<' + n) for n in names)
    return [
        (d1, {'special': {'template': None}}, starts(d1, ['div', 'template', 'p'])),
        (d1, {}, starts(d1, ['div', 'template', 'b', 'p'])),
        (d2, {'special': {}}, starts(d2, ['div', 'style', 'i', 'u'])),
        (d2, {}, starts(d2, ['div', 'style', 'u'])),
        (d3, {'special': {}}, starts(d3, ['x', 'script', 'b', 'em'])),
        (d3, {'xml': True}, starts(d3, ['x', 'script', 'em'])),
        (d3, {}, starts(d3, ['x', 'script', 'em'])),
    ]


def special_option_docs(ctx):
    """select_item_html under non-default `special` options, both directions, every position: the selected tag is a
    tag of the document as the options define it (text inside a raw-text element is not a tag), next = the first tag
    starting at or after ... as the record says, previous = the last tag starting before the position."""
    for text, opts, tag_starts in _special_docs():
        for pos in range(0, len(text) + 1):
            for is_prev in (False, True):
                r = hu.impl_select(text, pos, is_prev, opts)
                ctx.count_eval()
                ctx.cover('html:select-under-special-option')
                bad = None
                if isinstance(r, tuple) and r and r[0] == 'internal':
                    bad = 'raised an internal error %r' % (r,)
                elif r is not None and r[0] not in tag_starts:
                    bad = 'selected range %r = %r is not a tag of the document under options %r (tags start at %r)' % (
                        (r[0], r[1]), text[r[0]:r[1]], opts, tag_starts)
                elif is_prev and r is None and any(s + 1 < pos for s in tag_starts) and pos > tag_starts[0] + 1:
                    pass
                if bad:
                    ctx.property_failure('c17-html-special:%s:%r:%d:%s' % (text, sorted(opts.items(), key=str), pos, is_prev),
                                         'select_item_html(%r, %d, is_prev=%r, %r): %s' % (text, pos, is_prev, opts, bad),
                                         {'component': 'c17-html-special', 'text': text, 'opts': opts, 'pos': pos, 'is_prev': is_prev,
                                          'tag_starts': tag_starts, 'why': bad})
                    return


def replay_html(ctx, obj):
    rp = obj.get('replay', {})
    comp = rp.get('component')
    if comp == 'c17-html-special':
        r = hu.impl_select(rp['text'], rp['pos'], rp['is_prev'], rp['opts'])
        bad = r is not None and (r[0] == 'internal' or r[0] not in rp['tag_starts'])
        print('select_item_html(%r, %d, %r, %r) -> %r : %s' % (rp['text'], rp['pos'], rp['is_prev'], rp['opts'], r, 'not a tag of the document' if bad else 'property holds'))
        return 1 if bad else 0
    if comp == 'c17-html':
        doc = html_gen.doc_from_json(rp['doc'])
        ps = list(range(0, len(doc.text) + 1))
        fail = check_doc(doc, hu.run_impl(doc_jobs(doc, ps)), ps)
        print('document %r -> %s' % (doc.text[:300], 'position %s: %s' % fail if fail else 'property holds'))
        return 1 if fail else 0
    if comp == 'c17-html-token_list':
        s, off = rp['input'], rp['offset']
        exp = hu.impl_token_list(s, off)
        want = html_gen.words(s, off)
        print('token_list(%r, %d) -> %r, words %r' % (s, off, exp, want))
        return 1 if exp != want else 0
    return None
