"""Grammar-based generator of markup abbreviations with an independent denotation
(the tree the operators denote), a renderer, and observers for the output."""
import itertools
import re

# names that are not snippet keys (checked at import time against the real table in safe_names())
PLAIN_NAMES = ['div', 'p', 'span', 'section', 'ul', 'ol', 'li', 'table', 'tr', 'td', 'tbody', 'thead', 'tfoot', 'select',
               'optgroup', 'em', 'strong', 'b', 'i', 'h1', 'x-y', 'ns:el', 'custom', 'main', 'nav', 'article', 'q', 'u']
IMPLICIT_DOC = {'ul': 'li', 'ol': 'li', 'table': 'tr', 'tbody': 'tr', 'thead': 'tr', 'tfoot': 'tr', 'tr': 'td',
                'select': 'option', 'optgroup': 'option', 'p': 'span'}
# parents the code maps but the statement does not mention: never used as parent of a nameless element
UNDOCUMENTED_PARENTS = {'colgroup', 'audio', 'video', 'object', 'map'}


def safe_names():
    from emmet.snippets import markup_snippets
    return [n for n in PLAIN_NAMES if n not in markup_snippets]


def same_name_snippets():
    """Built-in html snippet keys whose definition is ONE element of the same name (`a` -> a[href],
    `img` -> img[src alt]/, `select` -> select[name id]): usable wherever the tree is observed."""
    from emmet.snippets import markup_snippets
    out = []
    for k, v in markup_snippets.items():
        if not re.match(r'^[a-z][a-z0-9]*$', k):
            continue
        m = re.match(r'^%s(\[[^\]>+^()]*\])?/?$' % re.escape(k), v)
        if m:
            out.append((k, v.endswith('/')))
    return sorted(out)


def mark_self_close(stmt, rng, allow_leaf, p=0.12):
    """Put the `/` mark on some elements: always allowed on an element that gets a child through
    `>` (it is then written with explicit open and close tags), on leaves only when the output
    style writes self-closed leaves as `<x />` (xml / xhtml), so that the tag parser stays exact."""
    for unit, op in stmt:
        if isinstance(unit, Group):
            mark_self_close(unit.items, rng, allow_leaf, p)
        elif rng.random() < p and (op == '>' or allow_leaf):
            unit.self_close = True


class El:
    __slots__ = ('name', 'id', 'classes', 'attrs', 'text', 'repeat', 'self_close')

    def __init__(self, name=None, id=None, classes=(), attrs=(), text=None, repeat=None, self_close=False):
        self.name = name
        self.id = id
        self.classes = list(classes)
        self.attrs = list(attrs)      # (name, value or None, quote: '' | '"' | "'" | '{')
        self.text = text
        self.repeat = repeat          # None | int
        self.self_close = self_close


class Group:
    __slots__ = ('items', 'repeat')

    def __init__(self, items, repeat=None):
        self.items = items            # stmt: list of (unit, op) ; op in '>', '+', '^', '^^', ... , '' (last)
        self.repeat = repeat


def render_el(e):
    s = e.name or ''
    if e.id is not None:
        s += '#' + e.id
    for c in e.classes:
        s += '.' + c
    if e.attrs:
        parts = []
        for n, v, q in e.attrs:
            if v is None:
                parts.append(n)
            elif q == '{':
                parts.append('%s={%s}' % (n, v))
            else:
                parts.append('%s=%s%s%s' % (n, q, v, q))
        s += '[' + ' '.join(parts) + ']'
    if e.text is not None:
        s += '{' + e.text + '}'
    if e.self_close:
        s += '/'
    if e.repeat is not None:
        s += '*%d' % e.repeat
    return s


def render(stmt):
    out = []
    for unit, op in stmt:
        if isinstance(unit, Group):
            out.append('(' + render(unit.items) + ')')
            if unit.repeat is not None:
                out.append('*%d' % unit.repeat)
        else:
            out.append(render_el(unit))
        out.append(op)
    return ''.join(out)


# ---------------------------------------------------------------- denotation (independent of the implementation)
class Node:
    __slots__ = ('el', 'kids', 'repeat')

    def __init__(self, el, repeat=None):
        self.el = el
        self.kids = []
        self.repeat = repeat


def denote_stmt(stmt):
    """Tree the operators denote (before unrolling): list of top-level Nodes.
    `>` nests, `+` keeps the parent, each `^` moves one level up and stops at the top of the
    group/abbreviation; a group is one unit for `+` and `*N` (a `>` directly after a group is
    outside the documented grammar and never generated)."""
    top = []
    path = []          # open ancestors inside this stmt
    for unit, op in stmt:
        if isinstance(unit, Group):
            n = Node(None, unit.repeat)
            n.kids = denote_stmt(unit.items)
        else:
            n = Node(unit, unit.repeat)
        (path[-1].kids if path else top).append(n)
        if op == '>':
            path.append(n)
        elif op.startswith('^'):
            for _ in op:
                if path:
                    path.pop()
    return top


def unroll(nodes, parent_name=None, counters=()):
    """Unrolled element tree as nested (name, el, copy_index_stack, kids)."""
    out = []
    for n in nodes:
        count = n.repeat if n.repeat is not None else 1
        if n.repeat == 0:
            count = 1          # `*0` yields one copy in the code and upstream; never generated for count claims
        for i in range(count):
            cs = counters + ((i, count),) if n.repeat is not None else counters
            if n.el is None:
                out.extend(unroll(n.kids, parent_name, cs))
            else:
                name = n.el.name
                if not name:
                    name = IMPLICIT_DOC.get((parent_name or '').lower(), None)
                    if name is None:
                        name = 'span' if (parent_name or '').lower() in INLINE else 'div'
                out.append((name, n.el, cs, unroll(n.kids, name, cs)))
    return out


INLINE = set()


def load_inline():
    from emmet.config import DEFAULT_OPTIONS
    INLINE.clear()
    INLINE.update(DEFAULT_OPTIONS['inlineElements'])


def preorder(tree, d=0):
    out = []
    for name, el, cs, kids in tree:
        out.append((d, name))
        out.extend(preorder(kids, d + 1))
    return out


# ---------------------------------------------------------------- observers of the output
TAG_RE = re.compile(r'<(/?)([A-Za-z0-9_:\-\.]+)((?:"[^"]*"|\'[^\']*\'|\{[^}]*\}|[^>"\'])*?)(/?)>', re.S)


def html_preorder(out):
    """(depth, name) list of the element tree of an HTML/XML string produced by the formatter.
    Void handling: a tag is a leaf only when written self-closed; the formatter always writes
    explicit close tags otherwise."""
    res = []
    depth = 0
    pos = 0
    for m in TAG_RE.finditer(out):
        close, name, _attrs, selfc = m.group(1), m.group(2), m.group(3), m.group(4)
        if close:
            depth -= 1
        else:
            res.append((depth, name))
            if not selfc:
                depth += 1
    return res, depth


def indent_preorder(out, indent, before_name=''):
    """(depth, head) per line of haml/pug/slim output."""
    res = []
    for line in out.split('\n'):
        d = 0
        while indent and line.startswith(indent):
            line = line[len(indent):]
            d += 1
        res.append((d, line))
    return res


# ---------------------------------------------------------------- enumeration / random generation
def enum_stmts(n_units, names, ops=('>', '+', '^', '^^'), repeats=(None, 2), group_depth=1):
    """Every statement with exactly n_units elements: all mixes of operators, one level of
    groups (group_depth), `*N` on elements and groups.  Names are taken cyclically so that
    every element is distinguishable."""
    counter = itertools.count()

    def fresh():
        return names[next(counter) % len(names)]

    def shapes(k, depth):
        # yields lists of unit shapes: 'E' or ('G', subshape)
        if k == 0:
            yield []
            return
        for rest in shapes(k - 1, depth):
            yield ['E'] + rest
        if depth > 0:
            for g in range(1, k + 1):
                for sub in shapes(g, depth - 1):
                    for rest in shapes(k - g, depth):
                        yield [('G', sub)] + rest

    def count_units(shape):
        return len(shape)

    def build(shape, op_iter, rep_iter, name_iter):
        stmt = []
        for i, u in enumerate(shape):
            last = i == len(shape) - 1
            if u == 'E':
                unit = El(name=next(name_iter), repeat=next(rep_iter))
            else:
                unit = Group(build(u[1], op_iter, rep_iter, name_iter), repeat=next(rep_iter))
            op = '' if last else next(op_iter)
            stmt.append((unit, op))
        return stmt

    def n_ops(shape):
        return max(0, len(shape) - 1) + sum(n_ops(u[1]) for u in shape if u != 'E')

    def n_reps(shape):
        return len(shape) + sum(n_reps(u[1]) for u in shape if u != 'E')

    def valid(stmt):
        for unit, op in stmt:
            if isinstance(unit, Group):
                if op == '>':
                    return False
                if not valid(unit.items):
                    return False
        return True

    for shape in shapes(n_units, group_depth):
        for opsel in itertools.product(ops, repeat=n_ops(shape)):
            for repsel in itertools.product(repeats, repeat=n_reps(shape)):
                names_cycle = itertools.cycle(names)
                stmt = build(shape, iter(opsel), iter(repsel), names_cycle)
                if valid(stmt):
                    yield stmt


def rand_stmt(rng, names, budget, depth=0, max_depth=3, rep_max=4, decorate=None):
    """Random statement with about `budget` elements."""
    stmt = []
    n = max(1, budget)
    i = 0
    while i < n:
        if depth < max_depth and n - i >= 2 and rng.random() < 0.2:
            g = rng.randint(1, min(5, n - i))
            unit = Group(rand_stmt(rng, names, g, depth + 1, max_depth, rep_max, decorate),
                         repeat=rng.choice([None, None, 2, 3, rng.randint(1, rep_max)]))
            i += g
        else:
            unit = El(name=rng.choice(names), repeat=rng.choice([None, None, None, 2, rng.randint(1, rep_max)]))
            if decorate:
                decorate(rng, unit)
            i += 1
        if i >= n:
            op = ''
        elif isinstance(unit, Group):
            op = rng.choice(['+', '+', '^', '^^'])
        else:
            op = rng.choice(['>', '>', '+', '+', '^', '^^', '^^^'])
        stmt.append((unit, op))
    return stmt


def count_elements(stmt):
    n = 0
    for unit, _ in stmt:
        n += count_elements(unit.items) if isinstance(unit, Group) else 1
    return n


def total_copies(tree):
    return sum(1 + total_copies(k) for _, _, _, k in tree)
