"""Generated tables of the HTML matcher model: coq/gen/GenHtml.v.

Everything the HTML scanner consults as *data* is read from the imported
modules of the repository under test: the section delimiters of scan.py and the
default `special` / `empty` tables of utils.py.  Fail-closed on unknown shapes.
"""
from gen_tables import GenError, HEADER, coq_list, coq_str, write_if_changed


def gen_html():
    import importlib
    # `emmet.html_matcher.scan` the attribute is the function; take the modules
    scan_mod = importlib.import_module('emmet.html_matcher.scan')
    utils_mod = importlib.import_module('emmet.html_matcher.utils')
    out = [HEADER % 'emmet.html_matcher.scan, emmet.html_matcher.utils']
    for coq_name, py_name in (('cdata_open', 'cdata_open'), ('cdata_close', 'cdata_close'),
                              ('comment_open', 'comment_open'), ('comment_close', 'comment_close'),
                              ('pi_start', 'pi_start'), ('pi_end', 'pi_end')):
        v = getattr(scan_mod, py_name, None)
        if not isinstance(v, str) or not v:
            raise GenError('scan.%s is not a non-empty string: %r' % (py_name, v))
        out.append('Definition %s : list N := %s.\n' % (coq_name, coq_str(v)))
    empty = utils_mod.default_empty
    if not isinstance(empty, list) or not all(isinstance(x, str) for x in empty):
        raise GenError('default_empty shape: %r' % (empty,))
    out.append('Definition default_empty : list (list N) :=\n  %s.\n' % coq_list([coq_str(x) for x in empty]))
    special = utils_mod.default_special
    if not isinstance(special, dict):
        raise GenError('default_special shape: %r' % (special,))
    items = []
    for k, v in special.items():
        if not isinstance(k, str):
            raise GenError('default_special key %r' % (k,))
        if isinstance(v, list):
            if not all(isinstance(x, str) for x in v):
                raise GenError('default_special[%r] = %r' % (k, v))
            items.append('(%s, Some [%s])' % (coq_str(k), '; '.join(coq_str(x) for x in v)))
        elif v is None:
            items.append('(%s, None)' % coq_str(k))
        else:
            raise GenError('default_special[%r] = %r' % (k, v))
    out.append('(* default_special, in dict order; None = "always special" (value is not a list) *)\n'
               'Definition default_special : list (list N * option (list (list N))) :=\n  %s.\n' % coq_list(items))
    # the option defaults of ScannerOptions
    so = utils_mod.ScannerOptions()
    if so.xml is not False or so.special is not special or so.empty is not empty:
        raise GenError('ScannerOptions defaults changed: %r %r %r' % (so.xml, so.special, so.empty))
    # escape character and quote set of scanner_utils (straight-line data)
    from emmet import scanner_utils
    esc = scanner_utils.create_options()['escape']
    if not isinstance(esc, str) or len(esc) != 1:
        raise GenError('escape option %r' % (esc,))
    out.append('Definition html_escape_char : N := %d.\n' % ord(esc))
    if scanner_utils.create_options()['throws'] is not False or utils_mod.scan_opt != {'throws': False}:
        raise GenError('scan_opt / create_options throws flag changed')
    return write_if_changed('GenHtml.v', '\n'.join(out))


GENERATORS = [gen_html]
