"""C19 helpers: an independent reference for the documented math grammar and the
direct statement of the extract() clause.  Nothing here imports the model or
looks at how the implementation parses; the only use of implementation data is
`rpn_exact`, which re-evaluates the implementation's own RPN with Fractions to
decide whether its float result may be compared at all.

Documented grammar (README of emmet math-expression, test-suite):
    E0 -> E0 (+|-) E1 | E1          lowest precedence, left to right
    E1 -> E1 (*|/|\\) E2 | E2        left to right
    E2 -> + E2 | - E2 | P           unary signs bind tightest
    P  -> number | ( E0 )
    number -> d+ | d+ . d+ | . d+   (d = any str.isdecimal() character)
White space (space, tab, nbsp) may precede a token.  Trailing white space is
not part of the grammar (the implementation, like upstream Emmet, rejects it
with its parse error).
"""
import unicodedata
from fractions import Fraction
from math import floor

WHITE = ' \t\xa0'
SPACE = WHITE + '\n\r'
OPS = '+-*/\\'


# ------------------------------------------------------------------ reference lexer / parser
def ref_lex(s):
    """Token list or None (not lexable).  Tokens: ('num', Fraction), ('op', ch), ('(',), (')',)."""
    out = []
    i = 0
    n = len(s)
    while i < n:
        j = i
        while j < n and s[j] in WHITE:
            j += 1
        if j == n:
            return None          # trailing white space: not a token
        c = s[j]
        if c in OPS:
            out.append(('op', c))
            i = j + 1
        elif c == '(' or c == ')':
            out.append((c,))
            i = j + 1
        elif c == '.' or c.isdecimal():
            k = j
            while k < n and (s[k] == '.' or s[k].isdecimal()):
                k += 1
            v = number_value(s[j:k])
            if v is None:
                return None
            out.append(('num', v))
            i = k
        else:
            return None
    return out


def number_value(lit):
    """Exact value of a number literal d+ | d+.d+ | .d+, else None."""
    if lit.count('.') > 1:
        return None
    if '.' in lit:
        a, b = lit.split('.')
        if not b:
            return None
    else:
        a, b = lit, ''
    if not a and not b:
        return None
    digs = a + b
    if not all(ch.isdecimal() for ch in digs):
        return None
    m = 0
    for ch in digs:
        m = m * 10 + unicodedata.decimal(ch)
    return Fraction(m, 10 ** len(b))


class _P:
    def __init__(self, toks):
        self.t = toks
        self.i = 0

    def peek(self):
        return self.t[self.i] if self.i < len(self.t) else None

    def e0(self):
        l = self.e1()
        while l is not None:
            p = self.peek()
            if p is not None and p[0] == 'op' and p[1] in '+-':
                self.i += 1
                r = self.e1()
                if r is None:
                    return None
                l = ('bin', p[1], l, r)
            else:
                break
        return l

    def e1(self):
        l = self.e2()
        while l is not None:
            p = self.peek()
            if p is not None and p[0] == 'op' and p[1] in '*/\\':
                self.i += 1
                r = self.e2()
                if r is None:
                    return None
                l = ('bin', p[1], l, r)
            else:
                break
        return l

    def e2(self):
        signs = []
        while True:
            p = self.peek()
            if p is not None and p[0] == 'op' and p[1] in '+-':
                signs.append(p[1])
                self.i += 1
            else:
                break
        p = self.peek()
        if p is None:
            return None
        if p[0] == 'num':
            self.i += 1
            e = ('num', p[1])
        elif p[0] == '(':
            self.i += 1
            inner = self.e0()
            if inner is None:
                return None
            q = self.peek()
            if q is None or q[0] != ')':
                return None
            self.i += 1
            e = ('paren', inner)
        else:
            return None
        for sg in reversed(signs):
            e = ('neg', e) if sg == '-' else ('pos', e)
        return e


def ref_parse(s):
    """Tree of the documented grammar or None (malformed)."""
    toks = ref_lex(s)
    if toks is None:
        return None
    p = _P(toks)
    e = p.e0()
    if e is None or p.i != len(toks):
        return None
    return e


def covered(e):
    """False when an unparenthesised multiplicative chain mixes '\\' with '*' or '/'."""
    k = e[0]
    if k == 'num':
        return True
    if k in ('neg', 'pos', 'paren'):
        return covered(e[1])
    _, o, l, r = e
    if o in '*/\\' and l[0] == 'bin' and l[1] in '*/\\':
        if (o == '\\') != (l[1] == '\\'):
            return False
    return covered(l) and covered(r)


def ref_eval(e):
    """Exact value (Fraction) of a tree; raises ZeroDivisionError."""
    k = e[0]
    if k == 'num':
        return e[1]
    if k == 'neg':
        return -ref_eval(e[1])
    if k in ('pos', 'paren'):
        return ref_eval(e[1])
    _, o, l, r = e
    a = ref_eval(l)
    b = ref_eval(r)
    if o == '+':
        return a + b
    if o == '-':
        return a - b
    if o == '*':
        return a * b
    if b == 0:
        raise ZeroDivisionError()
    if o == '/':
        return a / b
    return Fraction(floor(a / b))


def literals_exact(e):
    """Every number literal of the tree is exactly representable as a float."""
    k = e[0]
    if k == 'num':
        return Fraction(float(e[1])) == e[1]
    if k in ('neg', 'pos', 'paren'):
        return literals_exact(e[1])
    return literals_exact(e[2]) and literals_exact(e[3])


def tree_size(e):
    k = e[0]
    if k == 'num':
        return 1
    if k in ('neg', 'pos', 'paren'):
        return 1 + tree_size(e[1])
    return 1 + tree_size(e[2]) + tree_size(e[3])


# ------------------------------------------------------------------ float exactness of the implementation's own RPN
def rpn_exact(rpn):
    """Re-evaluate an implementation RPN (objects with .type/.value) twice, in floats as the
    implementation does and in Fractions.  Returns True when every float intermediate equals
    its exact counterpart up to the end or up to a division by an exact zero (then the float
    outcome is the arithmetic outcome and may be judged); False otherwise (rounding occurred,
    or the list is not a well-formed RPN)."""
    st = []
    try:
        for t in rpn:
            if t.type == 'num':
                st.append((t.value, Fraction(t.value)))
            elif t.type == 'op2':
                (bf, bq) = st.pop()
                (af, aq) = st.pop()
                o = t.value
                if o == '+':
                    f, q = af + bf, aq + bq
                elif o == '-':
                    f, q = af - bf, aq - bq
                elif o == '*':
                    f, q = af * bf, aq * bq
                elif o == '/' or o == '\\':
                    if bq == 0:
                        return True
                    f, q = af / bf, aq / bq
                    if o == '\\':
                        if Fraction(f) != q:
                            return False
                        f, q = floor(f), Fraction(floor(q))
                else:
                    return False
                if Fraction(f) != q:
                    return False
                st.append((f, q))
            elif t.type == 'op1':
                (af, aq) = st.pop()
                st.append((-af, -aq))
            else:
                return False
    except (ZeroDivisionError, IndexError, OverflowError, ValueError):
        return False
    return len(st) == 1


# ------------------------------------------------------------------ implementation observers
def impl_evaluate(s):
    """('val', float-or-int) | ('math',) | ('zerodiv',) | ('internal', name)."""
    from emmet.math_expression import evaluate, MathExpressionException
    try:
        v = evaluate(s)
    except MathExpressionException:
        return ('math',)
    except ZeroDivisionError:
        return ('zerodiv',)
    except Exception as e:   # noqa: BLE001 - the property is about exactly this
        return ('internal', type(e).__name__)
    return ('val', v)


def impl_parse(s):
    """('rpn', tokens) | ('math',) | ('internal', name)."""
    from emmet.math_expression import parse, MathExpressionException
    try:
        r = parse(s)
    except MathExpressionException:
        return ('math',)
    except Exception as e:   # noqa: BLE001
        return ('internal', type(e).__name__)
    return ('rpn', r)


def evaluate_oracle(s, res, rpn=None):
    """The evaluate clauses of C19 stated on the implementation's result `res`
    (from impl_evaluate).  Returns None or a description of the failure.
    `rpn` = the implementation's own parse(s) result (list) when available."""
    if res[0] == 'internal':
        return 'evaluate raised %s (only the parse error and ZeroDivisionError are allowed)' % res[1]
    e = ref_parse(s)
    if e is None:
        if res[0] != 'math':
            return 'malformed input accepted: %r' % (res,)
        return None
    # well-formed
    if res[0] == 'math':
        return 'well-formed expression rejected with the parse error'
    if not covered(e):
        return None          # mixed chain: grouping undocumented, value not judged
    try:
        want = ref_eval(e)
    except ZeroDivisionError:
        want = None
    if res[0] == 'val':
        v = res[1]
        if isinstance(v, bool) or not isinstance(v, (int, float)):
            return 'evaluate returned %r, not a number' % (v,)
    # float rounding is outside the property: judge the outcome only when the implementation's
    # own RPN evaluates without any rounding
    if rpn is None or not literals_exact(e) or not rpn_exact(rpn):
        return None
    if want is None:
        if res[0] != 'zerodiv':
            return 'arithmetic divides by zero but evaluate returned %r' % (res[1],)
        return None
    if res[0] == 'zerodiv':
        return 'ZeroDivisionError but the arithmetic value is %s' % want
    if Fraction(res[1]) != want:
        return 'value %r, arithmetic value %s' % (res[1], want)
    return None


# ------------------------------------------------------------------ extract
def lookahead_end(text, pos, look_ahead, whitespace):
    """The look-ahead adjusted position: with lookAhead, a ')' at pos is taken together with
    every following ')' (and white space when allowed)."""
    n = len(text)
    if not look_ahead or not (0 <= pos < n) or text[pos] != ')':
        return pos
    j = pos + 1
    while j < n and (text[j] == ')' or (whitespace and text[j] in SPACE)):
        j += 1
    return j


def impl_extract(text, pos, opts):
    from emmet.math_expression import extract
    try:
        r = extract(text, pos, opts)
    except Exception as e:   # noqa: BLE001
        return ('internal', type(e).__name__)
    if r is None:
        return ('none',)
    return ('range', r)


def extract_oracle(text, pos, opts, res):
    """The extract clause of C19 on an implementation result (from impl_extract)."""
    if res[0] == 'internal':
        return 'extract raised %s' % res[1]
    if res[0] == 'none':
        return None
    r = res[1]
    if not (isinstance(r, tuple) and len(r) == 2 and all(isinstance(x, int) and not isinstance(x, bool) for x in r)):
        return 'extract returned %r, not a range' % (r,)
    a, b = r
    n = len(text)
    if not (0 <= a <= b <= n):
        return 'range (%d, %d) violates 0 <= start <= end <= %d' % (a, b, n)
    o = {'lookAhead': True, 'whitespace': True}
    if opts:
        o.update(opts)
    p = n if pos is None else pos
    want = lookahead_end(text, p, bool(o['lookAhead']), bool(o['whitespace']))
    if b != want:
        return 'range ends at %d, look-ahead adjusted position is %d' % (b, want)
    depth = 0
    for ch in text[a:b]:
        if not (ch.isdecimal() or ch == '.' or ch in OPS or ch in '()' or ch in SPACE):
            return 'range contains %r' % ch
        if ch == '(':
            depth += 1
        elif ch == ')':
            depth -= 1
            if depth < 0:
                return 'unbalanced parentheses in %r' % text[a:b]
    if depth != 0:
        return 'unbalanced parentheses in %r' % text[a:b]
    return None


# a non-terminating implementation call must not block the check (see common.limited)
import common as _common  # noqa: E402
_common.limit_impl(globals(), ['impl_evaluate', 'impl_parse', 'impl_extract'])
