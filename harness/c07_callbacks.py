"""C07, user callbacks -- expand() under caller-supplied `output.text` / `output.field` options.

The statement quantifies over "every option set".  Two options are functions of the caller (emmet docs, "Emmet config",
options `output.text` (text, offset, line, column) -> string and `output.field` (index, placeholder, offset, line, column)
-> string; defaults in emmet/config.py return the text / the placeholder unchanged).  A caller's function may return ANY
string for a chunk: the same, a longer one, a shorter one, the empty string, one with other line breaks, one with
non-ASCII characters.  Whatever it returns, expand() must still return a string or raise one of its two parse errors.

The Coq model covers the identity callbacks only (see theorem_status: not_in_model), so this stream goes through the
PROPERTY ORACLE only (c07_markup.oracle on the outcome of the real expand: string | parse error with a position inside
the input | anything else is a failure).  The callbacks below never raise on a string argument and always return a
string, so every exception that escapes is the library's.

Explored class: every callback of TEXT_CBS and of FIELD_CBS (alone and in random pairs) x abbreviations whose output is one
line / several lines / contains fields / repeats / wrap text / comments / snippets with line breaks, and malformed
abbreviations, for markup syntaxes and stylesheet syntaxes, under the options that steer how chunks are written
(output.newline incl. '' and CR/CRLF, output.baseIndent, output.indent, output.format, output.inlineBreak,
output.formatLeafNode, comment.*, stylesheet.json / between / after).

`run_callbacks(ctx)` / `replay_callbacks(ctx, obj)` are called by harness/props/c07.py.
"""
import copy
import json

import c07_markup as cm

ENABLED = True


# ---------------------------------------------------------------- the callbacks (named: replay files store the name)
def _t_identity(text, **kw):
    return text


def _t_identity_positional(text, offset, line, column):
    # the documented parameter list written out; the library passes offset/line/column by keyword
    return text


def _t_escape(text, **kw):
    return text.replace('&', '&amp;').replace('<', '&lt;')


def _t_upper(text, **kw):
    return text.upper()


def _t_lf_to_crlf(text, **kw):
    return text.replace('\r\n', '\n').replace('\n', '\r\n')


def _t_lf_to_cr(text, **kw):
    return text.replace('\r\n', '\n').replace('\n', '\r')


def _t_drop_blank(text, **kw):
    return text if text.strip() else ''


def _t_collapse_ws(text, **kw):
    return ' '.join(text.split())


def _t_strip(text, **kw):
    return text.strip()


def _t_drop_all(text, **kw):
    return ''


def _t_constant(text, **kw):
    return 'X'


def _t_double(text, **kw):
    return text + text


def _t_append_lf(text, **kw):
    return text + '\n'


def _t_prepend_lf(text, **kw):
    return '\n' + text


def _t_reverse(text, **kw):
    return text[::-1]


def _t_first_char(text, **kw):
    return text[:1]


def _t_non_ascii(text, **kw):
    return '«' + text + '» '


def _t_tabs_to_spaces(text, **kw):
    return text.replace('\t', '    ')


def _t_position_stamp(text, offset=None, line=None, column=None, **kw):
    return '%s@%s:%s:%s' % (text, offset, line, column)


TEXT_CBS = {
    'identity': _t_identity, 'identity-positional': _t_identity_positional, 'escape': _t_escape, 'upper': _t_upper,
    'lf-to-crlf': _t_lf_to_crlf, 'lf-to-cr': _t_lf_to_cr, 'drop-blank': _t_drop_blank, 'collapse-ws': _t_collapse_ws,
    'strip': _t_strip, 'drop-all': _t_drop_all, 'constant': _t_constant, 'double': _t_double, 'append-lf': _t_append_lf,
    'prepend-lf': _t_prepend_lf, 'reverse': _t_reverse, 'first-char': _t_first_char, 'non-ascii': _t_non_ascii,
    'tabs-to-spaces': _t_tabs_to_spaces, 'position-stamp': _t_position_stamp,
}


def _f_tabstop(index, placeholder, **kw):
    return '${%s%s}' % (index, ':' + placeholder if placeholder else '')


def _f_tabstop_positional(index, placeholder, offset, line, column):
    return '${%s%s}' % (index, ':' + placeholder if placeholder else '')


def _f_empty(index, placeholder, **kw):
    return ''


def _f_index_only(index, placeholder, **kw):
    return str(index)


def _f_lf(index, placeholder, **kw):
    return '\n' + placeholder


def _f_crlf(index, placeholder, **kw):
    return placeholder + '\r\nx'


def _f_cr(index, placeholder, **kw):
    return '\r'


def _f_long(index, placeholder, **kw):
    return '[' + placeholder * 3 + ']' + '-' * 40


def _f_non_ascii(index, placeholder, **kw):
    return '‹' + placeholder + '› '


FIELD_CBS = {
    'tabstop': _f_tabstop, 'tabstop-positional': _f_tabstop_positional, 'empty': _f_empty, 'index-only': _f_index_only,
    'lf': _f_lf, 'crlf': _f_crlf, 'cr': _f_cr, 'long': _f_long, 'non-ascii': _f_non_ascii,
}


def with_callbacks(cfg, tname, fname):
    """A fresh user config: the JSON part `cfg` plus the named callbacks as options."""
    c = copy.deepcopy(cfg)
    if tname is not None or fname is not None:
        o = dict(c.get('options') or {})
        if tname is not None:
            o['output.text'] = TEXT_CBS[tname]
        if fname is not None:
            o['output.field'] = FIELD_CBS[fname]
        c['options'] = o
    return c


# ---------------------------------------------------------------- inputs
# markup: one-line outputs, several lines, inline elements, fields, repeats, text with line breaks, snippets, malformed
MK_ABBRS = ['a', 'p', 'ul>li', 'ul>li*2', 'ul>li.item$*3>a{x}', 'div>p{one\ntwo}', 'div>p{one\r\ntwo\rthree}', '#page>.hd+.bd',
            'a+b', 'div>span+em', 'p>{t}+b', 'ul>li*', 'ul>li*>{$#}', 'a[href=${1:url}]{${2:text}}', 'div{${0}}', 'p{${1:a\nb}}',
            'html:5', '!', 'table>tr*2>td*2', 'br/', 'div>br/+p', 'input[disabled.]', 'select>opt', 'link:css', '(a>b)*2+c',
            'div>ul>li*2^^p', 'label>input', '{t}', '{a\nb}', '{a}+{b}', 'div>{a\n}', 'lorem3', 'ul>lorem2*2', 'xsl:variable[select=x]>p',
            'Foo.Bar>baz', 'div.b>.-e>._m', 'x-y:z>q', '', 'ul>', 'ul>li[', 'a{', '(a', 'a>b)', 'a[b="', 'div>p*', '${', '$#']
MK_SYNTAXES = ['html', 'html', 'html', 'xml', 'xhtml', 'xsl', 'jsx', 'vue', 'svelte', 'pug', 'slim', 'haml']
MK_OPTIONS = [
    {}, {}, {}, {'output.newline': '\r\n', 'output.baseIndent': '  '}, {'output.newline': ''}, {'output.newline': '\r'},
    {'output.newline': '\n\n'}, {'output.newline': '<br>\n', 'output.indent': ''}, {'output.baseIndent': '\t\t'},
    {'output.indent': ''}, {'output.indent': '  '}, {'output.format': False}, {'output.inlineBreak': 1}, {'output.inlineBreak': 0},
    {'output.formatLeafNode': True}, {'output.formatForce': ['span', 'a'], 'output.formatSkip': []},
    {'comment.enabled': True}, {'comment.enabled': True, 'comment.before': '<!-- [#ID] -->\n', 'comment.after': '\n<!-- /[.CLASS] -->\n'},
    {'bem.enabled': True}, {'jsx.enabled': True}, {'output.selfClosingStyle': 'xhtml', 'output.compactBoolean': True},
    {'output.tagCase': 'upper', 'output.attributeQuotes': 'single'},
]
MK_TEXTS = [None, None, None, None, 'hello', 'two\nlines', ['x', 'y'], ['a\nb', '', ' c '], '\n', 'www.e.com', '${1:f}\n$#']
MK_CONTEXTS = [None, None, None, {'name': 'ul'}, {'name': 'span'}]
MK_SNIPPETS = [None, None, None, {'blk': 'div>{line1\nline2}+p', 'fld': 'a[t=${1:x\ny}]'}]

# stylesheet: one property, several properties, fields, functions, snippets with line breaks, malformed
CSS_ABBRS = ['p10', 'p10+m10', 'p10+m10-20+bd', 'bd1-s#fc0', 'c#f.5!', 'lg(to right, #0, #f00.5)', 'p${1}', 'p${1:foo}+m${2}', 'pos:a',
             'd:n+ov:h+p0', 'bxsh', 'gt', '@k-name10', 'fz1.+lh2', '!', 'zzq+p1', 'ff"Arial"', 'mten+blk', 'blk', 'p1 2', '', 'p10+',
             '+', 'p(', 'lg(1,', 'p${', 'c#', '"', 'p10+m"x', '@', '$']
# a fresh stylesheet Config converts the whole built-in snippet table (~40 ms per call): the grid uses this subset
CSS_GRID_ABBRS = ['p10', 'p10+m10', 'p10+m10-20+bd', 'c#f.5!', 'lg(to right, #0, #f00.5)', 'p${1:foo}+m${2}', 'bxsh', 'mten+blk', '!', '',
                  'p10+', 'p(']
CSS_SYNTAXES = ['css', 'css', 'scss', 'less', 'sass', 'stylus', 'sss']
CSS_OPTIONS = [
    {}, {}, {}, {'output.newline': '\r\n', 'output.baseIndent': '  '}, {'output.newline': ''}, {'output.newline': '\r'},
    {'output.newline': ';\n'}, {'output.format': False}, {'output.baseIndent': '\t'}, {'stylesheet.json': True},
    {'stylesheet.json': True, 'stylesheet.jsonDoubleQuotes': True}, {'stylesheet.between': '', 'stylesheet.after': ''},
    {'stylesheet.between': ':\n\t', 'stylesheet.after': ';\n'}, {'stylesheet.skipUnmatched': False},
    {'stylesheet.intUnit': 'pt', 'stylesheet.shortHex': False},
]
CSS_CONTEXTS = [None, None, None, '@@value', '@@section', '@@property', 'align-content']
CSS_SNIPPETS = {'mten': 'margin: 10px;', 'blk': 'body {\n\tdisplay: grid;\n\t${1}\n}'}


def rand_mk_cfg(rng):
    cfg = {}
    if rng.random() < 0.8:
        cfg['syntax'] = rng.choice(MK_SYNTAXES)
    o = {}
    for _ in range(rng.choice([0, 1, 1, 2])):
        o.update(copy.deepcopy(rng.choice(MK_OPTIONS)))
    if o:
        cfg['options'] = o
    for key, pool in (('text', MK_TEXTS), ('context', MK_CONTEXTS), ('snippets', MK_SNIPPETS)):
        v = rng.choice(pool)
        if v is not None:
            cfg[key] = copy.deepcopy(v)
    return cfg


def rand_css_cfg(rng):
    cfg = {'type': 'stylesheet', 'syntax': rng.choice(CSS_SYNTAXES)}
    o = {}
    for _ in range(rng.choice([0, 1, 1, 2])):
        o.update(copy.deepcopy(rng.choice(CSS_OPTIONS)))
    if o:
        cfg['options'] = o
    c = rng.choice(CSS_CONTEXTS)
    if c is not None:
        cfg['context'] = {'name': c}
    if rng.random() < 0.5:
        cfg['snippets'] = dict(CSS_SNIPPETS)
    return cfg


def gen(ctx):
    """[(abbr, json config, text callback name | None, field callback name | None, tag)]"""
    rng = ctx.rng
    quick = ctx.tier == 'quick'
    out = []
    # (a) every callback alone (the other one left at its default) x every pool abbreviation, default options and one
    #     option set that changes the line break / base indent; markup html + one indent syntax, stylesheet css + sass
    grid = [(a, c) for a in MK_ABBRS for c in ({}, {'syntax': 'pug', 'options': {'output.newline': '\r\n', 'output.baseIndent': '  '}})]
    grid += [(a, {'text': ['x\ny', 'z']}) for a in ('ul>li*', 'p', '', 'a>b*>{$#}')]
    grid += [(a, c) for a in CSS_GRID_ABBRS for c in ({'type': 'stylesheet', 'snippets': dict(CSS_SNIPPETS)},
                                                  {'type': 'stylesheet', 'syntax': 'sass', 'snippets': dict(CSS_SNIPPETS),
                                                   'options': {'output.newline': '\r\n', 'output.baseIndent': '  '}})]
    for a, c in grid:
        for t in TEXT_CBS:
            out.append((a, c, t, None, 'text-callback-grid'))
        for f in FIELD_CBS:
            out.append((a, c, None, f, 'field-callback-grid'))
    # (b) random pairs of callbacks x pool / mutated abbreviations x random option sets, markup and stylesheet
    tnames = [None] + sorted(TEXT_CBS)
    fnames = [None, None] + sorted(FIELD_CBS)
    mk_cfgs = [rand_mk_cfg(rng) for _ in range(60 if quick else 400)]
    css_cfgs = [rand_css_cfg(rng) for _ in range(40 if quick else 250)]
    mk_pool = MK_ABBRS + cm.VALID
    for i in range(3200 if quick else 40000):
        css = rng.random() < 0.2
        if css:
            a = rng.choice(CSS_ABBRS)
            if rng.random() < 0.3:
                a = cm.mutate(rng, a, list('p10+-#:(),!$ {}"ma'))
            cfg = rng.choice(css_cfgs)
        else:
            a = rng.choice(mk_pool)
            if rng.random() < 0.3:
                a = cm.mutate(rng, a, cm.ALPHABET + ['\n'])
            cfg = rng.choice(mk_cfgs)
        t, f = rng.choice(tnames), rng.choice(fnames)
        if t is None and f is None:
            t = rng.choice(tnames[1:])
        out.append((a, cfg, t, f, 'callback-pairs:' + ('css' if css else 'markup')))
    return out


# ---------------------------------------------------------------- run / replay
def _key(cfg, t, f):
    return '%s|text=%s|field=%s' % (cm.canon_cfg(cfg), t, f)


def outcome_cb(abbr, cfg, t, f):
    """cm.outcome (canonical outcome of the real expand under a CPU-time alarm) with the named callbacks installed.  The
    lorem oracle is seeded from the JSON part and the callback NAMES, so a replay sees the same lorem text."""
    import signal
    import lorem_oracle as lo
    from emmet import expand

    def on_alarm(sig, frm):
        raise cm.Hang()
    old = signal.signal(signal.SIGPROF, on_alarm)
    signal.setitimer(signal.ITIMER_PROF, cm.HANG_S)
    try:
        with lo.patched(lo.Oracle(lo.seed_of(abbr, {'config': cfg, 'text_cb': t, 'field_cb': f}))):
            out = expand(abbr, with_callbacks(cfg, t, f))
        r = ('ok', out) if isinstance(out, str) else ('notstr', type(out).__name__)
    except cm.Hang:
        r = ('hang',)
    except lo.OracleLimit:
        r = ('oracle-limit',)
    except Exception as e:  # noqa
        r = cm.classify(e)
    finally:
        signal.setitimer(signal.ITIMER_PROF, 0)
        signal.signal(signal.SIGPROF, old)
    return r


_TABLE = []


def _chunk(idx):
    import sys
    lim = sys.getrecursionlimit()
    sys.setrecursionlimit(1000)          # CPython's default: what a user of the library gets
    try:
        return [outcome_cb(*_TABLE[i]) for i in idx]
    finally:
        sys.setrecursionlimit(lim)


def impl_many(cases):
    """cases: [(abbr, json cfg, text name, field name)]; order preserved; forked workers read the table by index."""
    global _TABLE
    import common
    _TABLE = list(cases)
    n = len(_TABLE)
    if n < 1500:
        return _chunk(range(n))
    import multiprocessing
    k = common.NPROC * 4                 # strided chunks: the slow stylesheet cases are spread over all workers
    chunks = [range(j, n, k) for j in range(k)]
    with multiprocessing.get_context('fork').Pool(common.NPROC) as pool:
        outs = pool.map(_chunk, chunks, chunksize=1)
    res = [None] * n
    for ch, o in zip(chunks, outs):
        for i, x in zip(ch, o):
            res[i] = x
    return res


def run_callbacks(ctx):
    if not ENABLED:
        ctx.cov['user_callbacks'] = 'off'
        return
    import time
    t0 = time.time()
    cases = [(a, cm.bound_copies(a, cfg), t, f, tag) for a, cfg, t, f, tag in gen(ctx)]
    impl = impl_many([c[:4] for c in cases])
    n_multi = 0
    for (a, cfg, t, f, tag), r in zip(cases, impl):
        ctx.count_eval()
        kind = r[0] if r[0] != 'err' else 'err%d' % r[1]
        ctx.cover('callbacks:%s:%s' % (tag, kind if r[0] != 'internal' else 'internal-' + str(r[1])))
        if t is not None:
            ctx.cover('callbacks:output.text=%s' % t)
        if f is not None:
            ctx.cover('callbacks:output.field=%s' % f)
        if r[0] == 'ok' and isinstance(r[1], str) and ('\n' in r[1] or '\r' in r[1]):
            n_multi += 1
        bad = cm.oracle(a, cfg, r)
        if bad:
            what = 'expand(%r, %s) with output.text=%s output.field=%s: %s' % (a, cm.canon_cfg(cfg), t or 'default', f or 'default', bad)
            ctx.property_failure('callbacks:%s|%s' % (a, _key(cfg, t, f)), what,
                                 {'component': 'callbacks', 'abbr': a, 'config': cfg, 'text_cb': t, 'field_cb': f,
                                  'impl': repr(r)[:300], 'why': bad})
        if r[0] == 'err' or (r[0] == 'ok' and r[1] and len(a) >= 2):
            ctx.nontrivial(('cb7', _key(cfg, t, f), a))
    ctx.cov['user_callbacks'] = {'cases': len(cases), 'text_callbacks': sorted(TEXT_CBS), 'field_callbacks': sorted(FIELD_CBS),
                                 'outputs_with_a_line_break': n_multi, 'wall_s': round(time.time() - t0, 1)}
    for a, cfg, t, f, tag in cases[-2:]:
        ctx.sample({'component': 'callbacks', 'abbr': a, 'config': cfg, 'text_cb': t, 'field_cb': f})
    ctx.cov['rule'] = ctx.cov.get('rule', '') + (
        ' || user callbacks (implementation oracle only: the model covers the identity callbacks): %d output.text functions '
        '(identity, escaping, case, LF->CRLF, LF->CR, blank chunks dropped, white space collapsed/stripped, everything dropped, '
        'constant, doubled, line break appended/prepended, reversed, truncated, non-ASCII added, position stamped; **kw and '
        'positional signatures) and %d output.field functions (tabstop, empty, index only, LF/CRLF/CR inside, long, non-ASCII), '
        'each alone x %d markup and %d stylesheet abbreviations (one line, several lines, fields, repeats, wrap text, snippets '
        'with line breaks, lorem, malformed) under default options and under CRLF + base indent (html, pug, css, sass); random '
        'callback pairs x pool and mutated abbreviations x random option sets (12 markup / 7 stylesheet syntaxes, output.newline '
        "'' / CR / CRLF / multi-character, baseIndent, indent, format off, inlineBreak, formatLeafNode, comments, BEM, JSX, "
        'stylesheet.json / between / after, wrap text, context, user snippets)') % (
            len(TEXT_CBS), len(FIELD_CBS), len(MK_ABBRS), len(CSS_GRID_ABBRS))


def replay_callbacks(ctx, obj):
    import sys
    rp = obj.get('replay', obj)
    a, cfg, t, f = rp['abbr'], rp.get('config') or {}, rp.get('text_cb'), rp.get('field_cb')
    cfg = cm.bound_copies(a, cfg)
    lim = sys.getrecursionlimit()
    sys.setrecursionlimit(1000)
    try:
        r = outcome_cb(a, cfg, t, f)
    finally:
        sys.setrecursionlimit(lim)
    bad = cm.oracle(a, cfg, r)
    print('expand(%r, %s) with output.text=%s output.field=%s -> %s : %s' % (
        a, json.dumps(cfg, sort_keys=True, default=str), t or 'default', f or 'default', repr(r)[:300], bad or 'property holds'))
    return 1 if bad else 0
