"""Shared machinery of the HTML matcher checks (C09, C16 HTML half, C17 HTML half):
canonical observers of the implementation, wire encoding/decoding for the
extracted model (coq/run/HtmlRun.v), and the property oracles.  The oracles talk
about the implementation's results only (never about the model)."""
import copy
import multiprocessing
import os

from common import NPROC, Reader, enc_bool, enc_list, enc_opt, enc_str

EXC_KIND = {'IndexError': 10, 'TypeError': 11, 'ValueError': 12, 'AttributeError': 14, 'KeyError': 15}


def exc_kind(e):
    return EXC_KIND.get(type(e).__name__, 13)


# ---------------------------------------------------------------- options
OPT_SETS = {
    'html': {},
    'xml': {'xml': True},
    # small names so that short strings reach the special / void code paths
    'ab': {'special': {'a': None, 'b': ['', 'a']}, 'empty': ['b', 'ab']},
    'ab-xml': {'xml': True, 'special': {'b': ['a', 'b']}, 'empty': ['a']},
    'nospecial': {'special': {}},
}


def enc_opts(o):
    w = enc_bool(bool(o.get('xml', False)))
    if 'special' in o:
        w += [1] + enc_list(lambda kv: enc_str(kv[0]) + enc_opt(lambda l: enc_list(enc_str, l), kv[1]),
                            list(o['special'].items()))
    else:
        w += [0]
    if 'empty' in o:
        w += [1] + enc_list(enc_str, o['empty'])
    else:
        w += [0]
    return w


# ---------------------------------------------------------------- implementation observers
def canon_attr(a):
    if a.value is None:
        return (a.name, a.name_start, a.name_end, None, None, None)
    return (a.name, a.name_start, a.name_end, a.value, a.value_start, a.value_end)


def _rng(r):
    return None if r is None else (r[0], r[1])


def canon_balanced(t):
    return (t.name, _rng(t.open), _rng(t.close))


def impl_scan(src, opts):
    from emmet.html_matcher import scan, ScannerOptions
    evs = []
    try:
        scan(src, lambda name, ty, start, end: evs.append((name, ty, start, end)), ScannerOptions(opts).special)
    except Exception as e:
        return (evs, exc_kind(e))
    return (evs, None)


def impl_match(src, pos, opts):
    from emmet.html_matcher import match
    try:
        m = match(src, pos, opts)
    except Exception as e:
        return ('internal', exc_kind(e))
    if m is None:
        return None
    return (m.name, [canon_attr(a) for a in m.attributes], _rng(m.open), _rng(m.close))


def impl_outward(src, pos, opts):
    from emmet.html_matcher import balanced_outward
    try:
        return [canon_balanced(t) for t in balanced_outward(src, pos, opts)]
    except Exception as e:
        return ('internal', exc_kind(e))


def impl_inward(src, pos, opts):
    from emmet.html_matcher import balanced_inward
    try:
        return [canon_balanced(t) for t in balanced_inward(src, pos, opts)]
    except Exception as e:
        return ('internal', exc_kind(e))


def impl_attributes(src, name=None):
    from emmet.html_matcher import attributes
    try:
        return [canon_attr(a) for a in attributes(src, name)]
    except Exception as e:
        return ('internal', exc_kind(e))


def impl_open_tag(src, pos):
    from emmet.action_utils import get_open_tag
    try:
        t = get_open_tag(src, pos)
    except Exception as e:
        return ('internal', exc_kind(e))
    if t is None:
        return None
    return (t.name, t.type, t.start, t.end, None if t.attributes is None else [canon_attr(a) for a in t.attributes])


def impl_select(src, pos, is_prev, opts):
    from emmet.action_utils import select_item_html
    try:
        m = select_item_html(src, pos, is_prev, opts)
    except Exception as e:
        return ('internal', exc_kind(e))
    if m is None:
        return None
    return (m.start, m.end, [(r[0], r[1]) for r in m.ranges])


def impl_token_list(s, off):
    from emmet.action_utils.utils import token_list
    try:
        return [(a, b) for a, b in token_list(s, off)]
    except Exception as e:
        return ('internal', exc_kind(e))


def impl_char_classes(cp):
    from emmet.html_matcher.utils import name_start_char, name_char
    from emmet.scanner_utils import is_space, is_quote
    ch = chr(cp)
    return [bool(name_start_char(ch)), bool(name_char(ch)), bool(is_space(ch)), bool(is_quote(ch))]


# one work item = one document with all its positions (runs in a worker process)
def _impl_job(job):
    kind, src, oname, positions = job
    if kind == 'attrs':
        return impl_attributes(src, oname)
    opts = copy.deepcopy(OPT_SETS[oname]) if isinstance(oname, str) else oname   # a private copy per call: a library that edits its options argument must not rewrite the table
    if kind == 'scan':
        return impl_scan(src, opts)
    if kind == 'match':
        return [impl_match(src, p, opts) for p in positions]
    if kind == 'outward':
        return [impl_outward(src, p, opts) for p in positions]
    if kind == 'inward':
        return [impl_inward(src, p, opts) for p in positions]
    if kind == 'open_tag':
        return [impl_open_tag(src, p) for p in positions]
    if kind == 'select_next':
        return [impl_select(src, p, False, opts) for p in positions]
    if kind == 'select_prev':
        return [impl_select(src, p, True, opts) for p in positions]
    raise ValueError(kind)


def run_impl(jobs):
    """jobs: list of (kind, src, option-set name, positions).  Parallel when large."""
    jobs = list(jobs)
    work = sum(len(j[1]) * max(1, len(j[3] or ())) for j in jobs)
    if work < 400000 or NPROC < 2:
        return [_impl_job(j) for j in jobs]
    ctxm = multiprocessing.get_context('fork')
    with ctxm.Pool(min(NPROC, 12)) as pool:
        return pool.map(_impl_job, jobs, chunksize=max(1, len(jobs) // (NPROC * 8)))


# ---------------------------------------------------------------- model side
CMD = {'scan': 1, 'match': 2, 'outward': 3, 'inward': 4, 'attrs': 5, 'open_tag': 6, 'select_next': 7, 'select_prev': 7}


def model_case(job):
    kind, src, oname, positions = job
    opts = copy.deepcopy(OPT_SETS[oname]) if isinstance(oname, str) and kind != 'attrs' else oname
    if kind == 'scan':
        return [1] + enc_opts(opts) + enc_str(src)
    if kind in ('match', 'outward', 'inward'):
        return [CMD[kind]] + enc_opts(opts) + enc_str(src) + [len(positions)] + list(positions)
    if kind == 'attrs':
        return [5] + enc_str(src) + enc_opt(enc_str, oname)
    if kind == 'open_tag':
        return [6] + enc_str(src) + [len(positions)] + list(positions)
    if kind in ('select_next', 'select_prev'):
        return [7] + enc_opts(opts) + enc_str(src) + enc_bool(kind == 'select_prev') + [len(positions)] + list(positions)
    raise ValueError(kind)


def _d_range(r):
    return (r.int(), r.int())


def _d_attr(r):
    name = r.str()
    ns, ne = r.int(), r.int()
    if r.int():
        v = r.str()
        return (name, ns, ne, v, r.int(), r.int())
    return (name, ns, ne, None, None, None)


def _d_balanced(r):
    return (r.str(), _d_range(r), r.opt(lambda: _d_range(r)))


def _d_res(r, f):
    tag = r.int()
    if tag == 0:
        return f()
    if tag == 1:
        k = r.int()
        r.opt(r.int)
        return ('parse-error', k)
    if tag == 2:
        return ('internal', r.int())
    return ('out-of-fuel',)


def decode_model(job, w):
    kind, src, oname, positions = job
    if w == [-99]:
        return ('bad-wire',)
    r = Reader(w)
    if kind == 'scan':
        evs = r.list(lambda: (r.str(), r.int(), r.int(), r.int()))
        err = r.opt(r.int)
        out = (evs, err)
    elif kind == 'match':
        def one():
            return r.opt(lambda: (r.str(), r.list(lambda: _d_attr(r)), _d_range(r), r.opt(lambda: _d_range(r))))
        out = [_d_res(r, one) for _ in positions]
    elif kind in ('outward', 'inward'):
        out = [_d_res(r, lambda: r.list(lambda: _d_balanced(r))) for _ in positions]
    elif kind == 'attrs':
        out = r.list(lambda: _d_attr(r))
    elif kind == 'open_tag':
        def one():
            return r.opt(lambda: (r.str(), r.int(), r.int(), r.int(), r.opt(lambda: r.list(lambda: _d_attr(r)))))
        out = [_d_res(r, one) for _ in positions]
    elif kind in ('select_next', 'select_prev'):
        def one():
            return r.opt(lambda: (r.int(), r.int(), r.list(lambda: _d_range(r))))
        out = [_d_res(r, one) for _ in positions]
    else:
        raise ValueError(kind)
    if not r.done():
        return ('trailing-wire',)
    return out


def correspond(ctx, model, jobs, impl_results, label, max_report=5):
    """Run the jobs through the extracted model and compare with the implementation's
    results.  Returns the list of (job, index-or-None, impl, model) disagreements."""
    if model is None:
        return []
    outs = model.run([model_case(j) for j in jobs], procs=max(1, min(NPROC, len(jobs) // 4)))
    dis = []
    n = 0
    for job, ir, w in zip(jobs, impl_results, outs):
        m = decode_model(job, w)
        if isinstance(ir, list) and isinstance(m, list) and job[0] not in ('attrs',) and len(ir) == len(m):
            n += len(ir)
            for i, (a, b) in enumerate(zip(ir, m)):
                if a != b:
                    dis.append((job, i, a, b))
        else:
            n += 1
            if ir != m:
                dis.append((job, None, ir, m))
    c = ctx.cov['correspondence'].setdefault(label, {'cases': 0, 'disagreements': 0})
    c['cases'] += n
    c['disagreements'] += len(dis)
    for job, i, a, b in dis[:max_report]:
        ctx.say('DISAGREE %s %s opts=%s src=%r pos=%s\n  impl  %r\n  model %r' % (
            label, job[0], job[2], job[1][:300], None if i is None else job[3][i], a, b))
    return dis


# ---------------------------------------------------------------- property oracles
def tag_range_problem(src, name, rng, closing):
    """Each HTML tag range starts with `<`, ends with `>`, carries its name right after `<` or `</`."""
    a, b = rng
    n = len(src)
    if not (isinstance(a, int) and isinstance(b, int) and 0 <= a <= b <= n):
        return 'range %r not inside 0..%d' % (rng, n)
    if b - a < 2 or src[a] != '<' or src[b - 1] != '>':
        return 'range %r = %r does not run from `<` to `>`' % (rng, src[a:b][:40])
    pre = '</' if closing else '<'
    if not name or src[a:a + len(pre) + len(name)] != pre + name:
        return 'range %r = %r does not carry the name %r right after %r' % (rng, src[a:b][:40], name, pre)
    return None


def events_problem(src, scan_res):
    evs, err = scan_res
    if err is not None:
        return 'scan raised (kind %s) after %d events' % (err, len(evs))
    last = 0
    for name, ty, a, b in evs:
        bad = tag_range_problem(src, name, (a, b), ty == 2)
        if bad:
            return 'scan event %r: %s' % ((name, ty, a, b), bad)
        if a >= b:
            return 'scan event %r is empty' % ((name, ty, a, b),)
        if a < last:
            return 'scan event %r starts before the end %d of the previous tag' % ((name, ty, a, b), last)
        last = b
    return None


def range_problem(n, rng, what):
    if rng is None:
        return None
    a, b = rng
    if not (isinstance(a, int) and isinstance(b, int) and 0 <= a <= b <= n):
        return '%s range %r violates 0 <= start <= end <= %d' % (what, rng, n)
    return None


def attrs_problem(n, attrs):
    for a in attrs:
        bad = range_problem(n, (a[1], a[2]), 'attribute %r name' % a[0])
        if bad:
            return bad
        if a[3] is not None:
            bad = range_problem(n, (a[4], a[5]), 'attribute %r value' % a[0])
            if bad:
                return bad
    return None


def entry_problem(src, e, what):
    name, op, cl = e
    bad = tag_range_problem(src, name, op, False)
    if bad:
        return '%s open tag: %s' % (what, bad)
    if cl is not None:
        bad = tag_range_problem(src, name, cl, True)
        if bad:
            return '%s close tag: %s' % (what, bad)
    return None


def span_of(e):
    """full range of a BalancedTag-like (name, open, close)"""
    return (e[1][0], e[2][1] if e[2] is not None else e[1][1])


def wf_problem(src, pos, m, out, inw):
    """C16 (HTML): results of match / balanced_outward / balanced_inward at one position."""
    n = len(src)
    for what, r in (('match', m), ('balanced_outward', out), ('balanced_inward', inw)):
        if isinstance(r, tuple) and r and r[0] == 'internal':
            return '%s raised (kind %s)' % (what, r[1])
    if m is not None:
        bad = entry_problem(src, (m[0], m[2], m[3]), 'match') or attrs_problem(n, m[1])
        if bad:
            return bad
    for i, e in enumerate(out):
        bad = entry_problem(src, e, 'balanced_outward[%d]' % i)
        if bad:
            return bad
    for i, e in enumerate(inw):
        bad = entry_problem(src, e, 'balanced_inward[%d]' % i)
        if bad:
            return bad
    # match() equals the first entry of balanced_outward()
    first = out[0] if out else None
    mm = None if m is None else (m[0], m[2], m[3])
    if mm != first:
        return 'match %r differs from first balanced_outward entry %r' % (mm, first)
    # successive outward entries strictly contain each other and the position
    prev = None
    for i, e in enumerate(out):
        a, b = span_of(e)
        if not (a < pos < b):
            return 'balanced_outward[%d] %r does not strictly contain position %d' % (i, e, pos)
        if prev is not None and not (a < prev[0] and prev[1] < b):
            return 'balanced_outward[%d] %r does not strictly contain the previous entry %r' % (i, e, prev)
        prev = (a, b)
    # successive inward entries lie inside each other
    prev = None
    for i, e in enumerate(inw):
        a, b = span_of(e)
        if prev is not None and not (prev[0] <= a and b <= prev[1]):
            return 'balanced_inward[%d] %r does not lie inside the previous entry %r' % (i, e, prev)
        prev = (a, b)
    return None


def attributes_problem(src, res):
    if isinstance(res, tuple):
        return 'attributes raised (kind %s)' % (res[1],)
    return attrs_problem(len(src), res)


# ---- C09: ground truth
def gt_attrs(e):
    return [a.key() for a in e.attrs]


def c09_problem(doc, pos, m, out, inw):
    """Compare one position against the generator's record."""
    from html_gen import enclosing_chain, inward_candidates, first_child_chain
    chain = enclosing_chain(doc, pos)
    exp_out = [e.entry() for e in chain]
    if isinstance(out, tuple) or out != exp_out:
        return 'balanced_outward gives %r, the document has %r' % (out, exp_out)
    if chain:
        e = chain[0]
        exp_m = (e.name, gt_attrs(e), e.open, e.close)
    else:
        exp_m = None
    if m != exp_m:
        return 'match gives %r, the innermost enclosing element is %r' % (m, exp_m)
    cands = inward_candidates(doc, pos)
    if isinstance(inw, tuple):
        return 'balanced_inward raised'
    if not cands:
        if inw:
            return 'balanced_inward gives %r although no element is at the position' % (inw,)
        return None
    ok = False
    for c in cands:
        exp = [c.entry()] + [k.entry() for k in first_child_chain(c)]
        if inw == exp:
            ok = True
            break
    if not ok:
        exp = [[c.entry()] + [k.entry() for k in first_child_chain(c)] for c in cands]
        return 'balanced_inward gives %r, expected %s' % (inw, ' or '.join(repr(x) for x in exp))
    return None


def c09_slices_problem(doc):
    """the generator's own record must slice to the tags / attributes (self-check of the ground truth)"""
    t = doc.text
    for e in doc.elems:
        if not t[e.open[0]:e.open[1]].startswith('<' + e.name) or t[e.open[1] - 1] != '>':
            return 'ground truth open range of %s' % e.name
        if e.close and t[e.close[0]:e.close[1]] != '</' + e.name + '>':
            return 'ground truth close range of %s' % e.name
        for a in e.attrs:
            if t[a.ns:a.ne] != a.name or (a.value is not None and t[a.vs:a.ve] != a.value):
                return 'ground truth attribute %s' % a.name
    return None


# ---- C17: ground truth
def gt_tags(doc):
    """open / self-closing tags in document order with their element"""
    return sorted(doc.elems, key=lambda e: e.open[0])


def c17_open_tag_problem(doc, pos, res):
    if isinstance(res, tuple) and res and res[0] == 'internal':
        return 'get_open_tag raised (kind %s)' % (res[1],)
    exp = None
    for e in doc.elems:
        if e.open[0] < pos < e.open[1]:
            exp = (e.name, e.etype, e.open[0], e.open[1], gt_attrs(e))
            break
    if exp is not None:
        if res != exp:
            return 'get_open_tag gives %r, the tag at the position is %r' % (res, exp)
        return None
    if res is None:
        return None
    # no open / self-closing tag contains the position: a result must at least be a
    # real closing tag around the position, marked as such
    for e in doc.elems:
        if e.close and e.close[0] < pos < e.close[1]:
            if res == (e.name, 2, e.close[0], e.close[1], None):
                return None
    return 'get_open_tag gives %r although no tag strictly contains the position' % (res,)


def expected_selection(e):
    ranges = [(e.open[0] + 1, e.open[0] + 1 + len(e.name))]
    for a in e.attrs:
        if a.value is None:
            ranges.append((a.ns, a.ne))
        else:
            ranges.append((a.ns, a.ve))
            ranges.append(a.inner)
            if a.name == 'class':
                ranges.extend(a.tokens)
    out = []
    for r in ranges:
        if r[0] == r[1]:
            continue
        if out and out[-1] == r:
            continue
        out.append(r)
    return (e.open[0], e.open[1], out)


def c17_select_problem(doc, tags, pos, is_prev, res):
    if isinstance(res, tuple) and res and res[0] == 'internal':
        return 'select_item_html raised (kind %s)' % (res[1],)
    exp_e = None
    if is_prev:
        for e in tags:
            if e.open[0] < pos:
                exp_e = e
            else:
                break
    else:
        for e in tags:
            if e.open[1] > pos:
                exp_e = e
                break
    exp = None if exp_e is None else expected_selection(exp_e)
    if res != exp:
        return 'select_item_html(%s) gives %r, expected %r' % ('previous' if is_prev else 'next', res, exp)
    if res is not None:
        for a, b in res[2]:
            if not (res[0] <= a < b <= res[1]):
                return 'select_item_html range %r outside the tag %r' % ((a, b), res[:2])
    return None


# a non-terminating implementation call must not block the check (see common.limited)
import common as _common  # noqa: E402
_common.limit_impl(globals(), ['impl_scan', 'impl_match', 'impl_outward', 'impl_inward', 'impl_attributes', 'impl_open_tag', 'impl_select', 'impl_token_list'])
