"""C13, stylesheet side: the callback event stream of the stylesheet formatter.

Three things live here:
 * the implementation observer: emmet.stylesheet.parse -> resolved CSSProperty list (snapshotted) ->
   emmet.stylesheet.stringify with recording output.text / output.field callbacks;
 * the encoder of (options, resolved properties) for the extracted format stage
   (coq/run/CssstreamRun.v, model/CssFormatStream.css_stream), and the decoder of its events;
 * the in-Coq evaluation of the WHOLE pipeline with events as observable (coq/run/StyleEvents.v),
   on the configurations of style_util.Cfg;
 * the property oracle for stylesheet runs (positions of every callback; relative numbering of the
   fields of one value), stated on the implementation's result only.
"""
import copy
import math
import os
import subprocess
import time
from decimal import Decimal

import common
from common import Reader, enc_str, enc_bool, enc_opt, enc_list
import format_util as fu
import style_util as su

CALL_LIMIT_S = 10


# ------------------------------------------------------------------ callbacks
def make_callbacks(events, tabstop, rewrite=False):
    """rewrite: output.text returns something else than it is given (length changes, no line break added);
    the recorded string is the RETURNED one (implementation-only oracle runs; the model fixes the identity)."""
    def field(index, placeholder, offset=None, line=None, column=None, **kw):
        ret = su.tabstop_field(index, placeholder) if tabstop else placeholder
        events.append(('field', index, placeholder, ret, offset, line, column))
        return ret

    def text(t, offset=None, line=None, column=None, **kw):
        if rewrite:
            t = t.replace('e', 'EE').replace(':', '').replace('&', '&amp;')
        events.append(('text', t, offset, line, column))
        return t
    return field, text


def canon_events(events):
    """What is compared with the model: text (returned string, offset, line, column);
    field (idx_code of the index given, RETURNED string, offset, line, column)."""
    out = []
    for e in events:
        if e[0] == 'text':
            out.append(('text', e[1], e[2], e[3], e[4]))
        else:
            out.append(('field', idx_code(e[1]), e[3], e[4], e[5], e[6]))
    return out


def oracle_events(events):
    """The shape format_util.positions_check reads: the returned strings."""
    return [e if e[0] == 'text' else ('field', e[1], e[3], e[4], e[5], e[6]) for e in events]


def idx_code(index):
    return 0 if index is None else index + 1


# ------------------------------------------------------------------ implementation
def user_config(syntax, options, snippets=None, context=None):
    c = {'type': 'stylesheet', 'syntax': syntax, 'options': dict(options)}
    if snippets:
        c['snippets'] = dict(snippets)
    if context is not None:
        c['context'] = {'name': context}
    return c


def impl_run(abbr, ucfg, tabstop=False, cache=None, rewrite=False):
    """('ok', final, events, props, resolved options) | ('err', class...) | ('hang', s) | ('domain', why).
    `props` is a snapshot of the resolved CSSProperty list that stringify received.  `cache`: a dict handed to the
    Config as its documented `cache` key (the snippet table is then converted once, not on every call)."""
    from emmet.config import Config
    from emmet import stylesheet
    events = []
    field, text = make_callbacks(events, tabstop, rewrite)
    uc = copy.deepcopy(ucfg)
    uc.setdefault('options', {})
    uc['options']['output.field'] = field
    uc['options']['output.text'] = text
    if cache is not None:
        uc['cache'] = cache
    try:
        with common.time_limit(CALL_LIMIT_S):
            cfg = Config(uc)
            props = stylesheet.parse(abbr, cfg)
            enc = snapshot_props(props)
            final = stylesheet.stringify(props, cfg)
        return ('ok', final, events, enc, cfg.options)
    except common.Hang:
        return ('hang', CALL_LIMIT_S)
    except OutOfDomain as e:
        return ('domain', str(e))
    except Exception as e:  # noqa
        return ('err',) + tuple(su.classify_exc(e, len(abbr)))


def impl_stringify(props, ucfg, tabstop=False):
    """Synthetic properties straight into emmet.stylesheet.stringify."""
    from emmet.config import Config
    from emmet import stylesheet
    events = []
    field, text = make_callbacks(events, tabstop)
    uc = copy.deepcopy(ucfg)
    uc.setdefault('options', {})
    uc['options']['output.field'] = field
    uc['options']['output.text'] = text
    try:
        with common.time_limit(CALL_LIMIT_S):
            cfg = Config(uc)
            enc = snapshot_props(props)
            final = stylesheet.stringify(props, cfg)
        return ('ok', final, events, enc, cfg.options)
    except common.Hang:
        return ('hang', CALL_LIMIT_S)
    except OutOfDomain as e:
        return ('domain', str(e))
    except Exception as e:  # noqa
        return ('err', 'internal', type(e).__name__)


# ------------------------------------------------------------------ snapshot of resolved properties
class OutOfDomain(Exception):
    """A number the decimal idealisation of the model does not cover (see coq/lib/StyleLib.v)."""


def dec_of_float(v, max_frac):
    v = float(v)
    if math.isnan(v) or math.isinf(v):
        raise OutOfDomain('non-finite')
    neg = math.copysign(1.0, v) < 0
    d = Decimal(repr(abs(v)))
    sign, digits, exp = d.as_tuple()
    mant = int(''.join(map(str, digits)))
    if exp > 0:
        mant *= 10 ** exp
        exp = 0
    if -exp > max_frac or len(str(mant)) > 15:
        raise OutOfDomain('digits')
    return (neg, mant, -exp)


def snap_token(t):
    tn = type(t).__name__
    if tn == 'FunctionCall':
        return ('fn', t.name, [[snap_token(x) for x in a.value] for a in t.arguments])
    if tn == 'Literal':
        k = ('lit', t.value)
    elif tn == 'CustomProperty':
        k = ('custom', t.value)
    elif tn == 'NumberValue':
        k = ('num', dec_of_float(t.value, 4), t.raw_value, t.unit)
    elif tn == 'ColorValue':
        k = ('color', t.r, t.g, t.b, dec_of_float(t.a, 8), t.raw)
    elif tn == 'StringValue':
        k = ('str', t.value, t.quote != 'double')
    elif tn == 'Field':
        k = ('field', t.name, t.index)
    elif tn == 'Bracket':
        k = ('bracket', bool(t.open))
    elif tn == 'Operator':
        k = ('op', t.operator)
    elif tn == 'WhiteSpace':
        k = ('ws',)
    else:
        raise OutOfDomain('token type ' + tn)
    return ('tok', k, t.start, t.end)


def snapshot_props(props):
    return [(p.name if p.name else None, [[snap_token(x) for x in cv.value] for cv in p.value],
             bool(p.important), p.snippet is not None) for p in props]


# ------------------------------------------------------------------ wire
def enc_dec(d):
    neg, mant, exp = d
    return enc_bool(neg) + enc_str(str(mant)) + [exp]


def enc_kind(k):
    t = k[0]
    if t == 'lit':
        return [0] + enc_str(k[1])
    if t == 'custom':
        return [1] + enc_str(k[1])
    if t == 'num':
        return [2] + enc_dec(k[1]) + enc_str(k[2]) + enc_str(k[3])
    if t == 'color':
        return [3, k[1], k[2], k[3]] + enc_dec(k[4]) + enc_str(k[5])
    if t == 'str':
        return [4] + enc_str(k[1]) + enc_bool(k[2])
    if t == 'field':
        return [5] + enc_str(k[1]) + enc_opt(lambda i: [i], k[2])
    if t == 'bracket':
        return [6] + enc_bool(k[1])
    if t == 'op':
        return [7, ord(k[1])]
    return [8]


def enc_val(v):
    if v[0] == 'fn':
        return [1] + enc_str(v[1]) + enc_list(lambda a: enc_list(enc_val, a), v[2])
    return [0] + enc_kind(v[1]) + enc_opt(lambda i: [i], v[2]) + enc_opt(lambda i: [i], v[3])


def enc_prop(p):
    name, value, imp, sn = p
    return enc_opt(enc_str, name) + enc_list(lambda cv: enc_list(enc_val, cv), value) + enc_bool(imp) + enc_bool(sn)


def enc_fmt(o, tabstop):
    """o: the RESOLVED options of the Config the implementation ran with."""
    return (enc_str(o['output.indent']) + enc_str(o['output.baseIndent']) + enc_str(o['output.newline']) +
            enc_str(o['stylesheet.between']) + enc_str(o['stylesheet.after']) +
            enc_bool(o.get('stylesheet.shortHex')) + enc_bool(o.get('stylesheet.json')) +
            enc_bool(o.get('stylesheet.jsonDoubleQuotes')) + enc_bool(o.get('stylesheet.skipUnmatched')) +
            enc_bool(o.get('output.format')) + enc_bool(tabstop))


def enc_case(options, props, tabstop, cmd=1):
    return [cmd] + enc_fmt(options, tabstop) + enc_list(enc_prop, props)


def read_events(r):
    out = []
    for _ in range(r.int()):
        if r.int() == 0:
            s = r.str()
            out.append(('text', s, r.int(), r.int(), r.int()))
        else:
            idx = r.int()
            s = r.str()
            out.append(('field', idx, s, r.int(), r.int(), r.int()))
    return out


def decode_events(w):
    if not w or w[0] != 0:
        return ('bad', w[:8])
    return ('ok', read_events(Reader(w[1:])))


# ------------------------------------------------------------------ property oracle (implementation only)
def walk_fields(v, out):
    if v[0] == 'fn':
        for a in v[2]:
            for x in a:
                walk_fields(x, out)
    elif v[1][0] == 'field':
        out.append(v[1][2])


def raw_ok(props, options):
    """css_raw_ok of proofs/CssFormatStream.v on a snapshot: no line feed in a FunctionCall name nor in stylesheet.after."""
    def ok(v):
        if v[0] == 'fn':
            return '\n' not in v[1] and all(ok(x) for a in v[2] for x in a)
        return True
    return '\n' not in options['stylesheet.after'] and all(ok(x) for p in props for cv in p[1] for x in cv)


def css_oracle(final, events, props, options):
    """C13 on one stylesheet run.
    (1) every callback: the string it returned sits at the offset it was told, offsets are contiguous and
        account for the whole result, line/column are the line/column of that offset in the result;
    (2) the fields of one value keep their relative numbering: for each property (in output order) the indices
        given to output.field differ pairwise exactly like the indices of the field tokens of that property."""
    bad = fu.positions_check(final, oracle_events(events), options['output.newline'])
    if bad:
        return bad
    kept = props
    if options.get('stylesheet.skipUnmatched'):
        kept = [p for p in props if p[3] or p[2]]
    emitted = [e[1] for e in events if e[0] == 'field']
    k = 0
    for pi, p in enumerate(kept):
        name, value, imp, sn = p
        toks = []
        for cv in value:
            for x in cv:
                walk_fields(x, toks)
        if name and not value:
            toks = [0]
        em = emitted[k:k + len(toks)]
        k += len(toks)
        if len(em) != len(toks):
            return 'property %d (%r): %d field tokens, %d output.field invocations' % (pi, name, len(toks), len(em))
        ints = [(a, b) for a, b in zip(toks, em) if isinstance(a, int) and isinstance(b, int)]
        for a, b in ints[1:]:
            if b - ints[0][1] != a - ints[0][0]:
                return 'property %d (%r): fields %r were emitted as %r: relative numbering changed' % (pi, name, toks, em)
        for a, b in zip(toks, em):
            if (a is None) != (b is None):
                return 'property %d (%r): fields %r were emitted as %r' % (pi, name, toks, em)
    if k != len(emitted):
        return '%d output.field invocations, the properties hold %d field tokens' % (len(emitted), k)
    return None


# ------------------------------------------------------------------ whole pipeline inside Coq, events as observable
SHARD_HEADER = ('From Coq Require Import PrimFloat.\n'
                'From Emmet Require Import lib.Base lib.StyleLib model.CssResolve run.StyleShow run.StyleEvents.\n'
                'Local Open Scope N_scope.\n')


def decode_show_ev(w):
    if not w:
        return ('bad', w)
    if w[0] == 0:
        r = Reader(w[1:])
        out = []
        while not r.done():
            if r.int() == 0:
                s = r.str()
                out.append(('text', s, r.int(), r.int(), r.int()))
            else:
                idx = r.int()
                s = r.str()
                out.append(('field', idx, s, r.int(), r.int(), r.int()))
        return ('ok', out)
    if w[0] == 1:
        return ('err', su.EK.get(w[1], 'parse-err-%d' % w[1]), w[3] if w[2] else None)
    if w[0] == 2:
        return ('err', 'internal', su.IK.get(w[1], 'model:%d' % w[1]))
    if w[0] == 3:
        return ('out-of-fuel',)
    return ('bad', w)


def coq_events(ctx, cases, tag='style-ev', shard_cases=300):
    """(style_util.Cfg, abbr) cases through run/StyleEvents.run_groups_ev; decoded results in order, or None when
    the evaluation failed (reported into ctx.broken)."""
    if not cases:
        return []
    groups, order = {}, []
    for idx, (cfg, abbr) in enumerate(cases):
        k = cfg.key()
        if k not in groups:
            groups[k] = (cfg, [])
            order.append(k)
        groups[k][1].append((idx, abbr))
    shards, cur, weight = [], [], 0
    for k in order:
        cfg, items = groups[k]
        gcost = 150 if cfg.snippets else 5
        if cur and weight + gcost + len(items) > shard_cases:
            shards.append(cur)
            cur, weight = [], 0
        cur.append((cfg, items))
        weight += gcost + len(items)
    if cur:
        shards.append(cur)
    d = os.path.join(common.BUILD, tag + '-%d' % os.getpid())
    os.makedirs(d, exist_ok=True)
    for fn in os.listdir(d):
        os.remove(os.path.join(d, fn))
    for si, sh in enumerate(shards):
        parts = ['(%s, %s, [%s])' % (cfg.coq(), 'false' if cfg.snippets else 'true', '; '.join(su.cstr(a) for _, a in items))
                 for cfg, items in sh]
        with open(os.path.join(d, 'cases_%d.v' % si), 'w') as f:
            f.write(SHARD_HEADER + 'Eval vm_compute in (run_groups_ev [\n' + ';\n'.join(parts) + ']).\n')
    t0 = time.time()
    cmd = ('ls cases_*.v | xargs -P%d -I{} sh -c \'timeout 1200 coqc -Q "%s" Emmet {} > {}.out 2>&1 || echo FAIL {}\''
           % (common.NPROC, common.COQ))
    subprocess.run(cmd, shell=True, cwd=d, stdout=subprocess.PIPE, stderr=subprocess.STDOUT, text=True)
    res = [None] * len(cases)
    for si, sh in enumerate(shards):
        path = os.path.join(d, 'cases_%d.v.out' % si)
        try:
            with open(path) as f:
                lists = su.parse_coq_lists(f.read())
        except Exception as e:  # noqa
            tail = open(path).read()[-1200:] if os.path.exists(path) else repr(e)
            ctx.say('COQ SHARD FAILED %s: %s\n%s' % (path, e, tail))
            ctx.broken.append({'kind': 'model-evaluation', 'file': 'style-events cases_%d.v' % si, 'log_tail': tail[-800:]})
            return None
        n = sum(len(items) for _, items in sh)
        if len(lists) != n:
            ctx.broken.append({'kind': 'model-evaluation', 'file': 'style-events cases_%d.v' % si,
                               'log_tail': 'expected %d results, got %d' % (n, len(lists))})
            return None
        it = iter(lists)
        for cfg, items in sh:
            for idx, _ in items:
                res[idx] = decode_show_ev(next(it))
    ctx.cov.setdefault('coq_eval', []).append({'what': 'stylesheet events', 'cases': len(cases), 'shards': len(shards),
                                              'groups': len(order), 'wall_s': round(time.time() - t0, 1)})
    import shutil
    shutil.rmtree(d, ignore_errors=True)
    return res


# ------------------------------------------------------------------ generators
NEWLINES_LF = ['\n', '\n', '\r\n']             # newline strings that end in their only line feed (theorem part B)
NEWLINES_ANY = ['\r', '', '~~']                # any other newline string (theorem part A; oracle: offsets only for '')
VALUE_FRAGMENTS = ['10', '1.5', '-5', '0', '10p', '1.25e', '.5', '100x', '2r', '#f', '#fc0', '#f.5', '#t', '#e7bc0b', '#0.25',
                   ':a', ':n', ':b', '-a', '${1}', '${2:x}', '${foo}', '${1:a\nb}', '${3:p q}', '${0}', '"s t"', "'q\nr'",
                   '(1, 2)', '(a b, ${1:c})', '-lg(top, #f00)', ':r(10)', '${2}${1}', '10-20', '1-2-3', '--v', '-$x',
                   '"a\nb"', "'x\r\ny z'", '"one\n\ntwo"']
USER_TABLES = [
    {'foo': 'prop:a b, c d|e', 'bar': 'prop2:f(a, b) c|e', 'baz': 'x ${2:q} ${1}z', 'mq': '@media ${1:screen} {\n\t${0}\n}'},
    {'gg': 'grid:${1:a\nb} ${2}|x', 'ml': 'line one\r\nline two ${1}\n${2:end}', 'two': 'aa:1 2|3'},
    {'k': 'kk:#fff 1.5 "s"|e', 'bd': 'border:${1:1px} ${2:solid} ${3:#000}', 'p': 'pp:x|y'},
]


def _value_tables():
    """user tables of VALUE snippets (cssvalues_gen: first alternative of 1-5 tokens -- keywords, numbers with units, colours,
    strings, calls nested once -- with 1-4 alternatives, with and without explicit fields), fixed seed: the wrap_with_field /
    output_value path with more than one token and with function calls, which no built-in snippet has"""
    import random
    import cssvalues_gen as vg
    rng = random.Random(20260928)
    out = []
    for ti in range(5):
        t = {}
        for ki in range(6):
            t['v%s%s' % ('qzxkw'[ti], 'abcdef'[ki])] = vg.gen_snippet(rng)[0]
        t['r' + 'qzxkw'[ti]] = rng.choice(vg.RAW_BODIES)
        out.append(t)
    return out


USER_TABLES = USER_TABLES + _value_tables()
USER_KEYS = sorted({k for t in USER_TABLES for k in t})


def style_keys(syntax='css'):
    from emmet.config import Config
    return sorted(Config({'type': 'stylesheet', 'syntax': syntax}).snippets.keys())


def rand_part(rng, keys):
    r = rng.random()
    if r < 0.6:
        key = rng.choice(keys)
    elif r < 0.85:
        key = rng.choice(['p', 'm', 'bd', 'c', 'bg', 'trf', 'trs', 'bxsh', 'fz', 'w', 'pos', 'd', '@kf', '@m', 'lg', 'ff'])
    else:
        key = rng.choice(['foo', 'bar', 'baz', 'mq', 'gg', 'ml', 'two', 'k', 'zzq', '--my'] + USER_KEYS)
    s = key
    for _ in range(rng.choice([0, 0, 1, 1, 2, 3])):
        s += rng.choice(VALUE_FRAGMENTS)
    if rng.random() < 0.12:
        s += '!'
    return s


def rand_options(rng, lf_only=False):
    o = {}
    if rng.random() < 0.75:
        o['output.newline'] = rng.choice(NEWLINES_LF if lf_only or rng.random() < 0.75 else NEWLINES_ANY)
    if rng.random() < 0.4:
        o['output.baseIndent'] = rng.choice(['  ', '\t', '    ', ''])
    if rng.random() < 0.3:
        o['output.indent'] = rng.choice(['\t', '  ', ''])
    if rng.random() < 0.35:
        o['stylesheet.between'] = rng.choice([':', ': ', ' : ', '', ':\n', ' = '])
    if rng.random() < 0.3:
        o['stylesheet.after'] = rng.choice(['', ';', ' ;', ';;', ' /* x */'])
    if rng.random() < 0.1:
        o['output.format'] = False
    if rng.random() < 0.15:
        o['stylesheet.skipUnmatched'] = rng.choice([True, False])
    if rng.random() < 0.15:
        o['stylesheet.shortHex'] = False
    if rng.random() < 0.06:
        o['stylesheet.json'] = True
        if rng.random() < 0.5:
            o['stylesheet.jsonDoubleQuotes'] = True
    return o


def rand_cfg(rng, lf_only=False):
    syntax = rng.choice(su.SYNTAXES)
    snippets = rng.choice(USER_TABLES) if rng.random() < 0.3 else None
    context = None
    r = rng.random()
    if r < 0.05:
        context = rng.choice(['@@section', '@@property'])
    elif r < 0.1:
        context = rng.choice(['margin', 'border', 'transform', '@@value'])
    return su.Cfg(syntax, rand_options(rng, lf_only), snippets, context, rng.random() < 0.35)


def rand_abbr(rng, keys):
    return '+'.join(rand_part(rng, keys) for _ in range(rng.choice([1, 1, 2, 2, 3, 4, 6])))


def cfg_user_config(cfg):
    c = cfg.impl_config()
    c['options'] = {k: v for k, v in c['options'].items() if k != 'output.field'}
    return c


# -- synthetic resolved properties (straight into stringify)
LIT_VALUES = ['a', 'solid', 'x y', 'two\nlines', 'cr\r\nlf', 'tr\n', '', '(', ', ', ')', '@media {\n\t', '\n}', 'é', '\n', 'a\rb']
PLACEHOLDERS = ['', 'x', 'p q', 'a\nb', '\n', 'l1\nl2\nl3', '#000', '1px']
FN_NAMES = ['rotate', 'linear-gradient', 'url', 'f', 'var', 'rgb', '']
NUM_RAWS = ['10', '1.5', '0', '-5', '.25', '100', '3.1415', '12345678901', '-0', '0.5000', '7.']


def rand_pos(rng):
    return rng.choice([None, None, 0, 1, 2, 3, 5])


def rand_token(rng, depth):
    from emmet.css_abbreviation.tokenizer import tokens as T
    from emmet.css_abbreviation.parser import FunctionCall, CSSValue
    r = rng.random()
    st, en = rand_pos(rng), rand_pos(rng)
    if r < 0.2:
        return T.Literal(rng.choice(LIT_VALUES), st, en)
    if r < 0.25:
        return T.CustomProperty(rng.choice(['--x', '--long-name', '--']), st, en)
    if r < 0.4:
        raw = rng.choice(NUM_RAWS)
        return T.NumberValue(float(raw), raw, rng.choice(['', 'px', 'em', '%', 'rem']), st, en)
    if r < 0.5:
        a = rng.choice([1, 1, 1.0, 0, 0.5, 0.25, 0.125, 0.33])
        rgb = rng.choice([(0, 0, 0), (255, 255, 255), (255, 204, 0), (231, 188, 11), (1, 2, 3), (17, 34, 51)])
        return T.ColorValue(rgb[0], rgb[1], rgb[2], a, 'raw', st, en)
    if r < 0.58:
        return T.StringValue(rng.choice(['s', 'a b', 'm\nn', '']), rng.choice(['single', 'double']), st, en)
    if r < 0.82:
        return T.Field(rng.choice(PLACEHOLDERS), rng.choice([None, 0, 1, 1, 2, 3, 7, 12]), st, en)
    if r < 0.86:
        return rng.choice([T.Bracket(True, st, en), T.Operator(rng.choice('+!,-:'), st, en), T.WhiteSpace(st, en)])
    if depth <= 0:
        return T.Literal('leaf', st, en)
    args = [CSSValue([rand_token(rng, depth - 1) for _ in range(rng.choice([0, 1, 1, 2, 3]))])
            for _ in range(rng.choice([0, 1, 2, 3]))]
    return FunctionCall(rng.choice(FN_NAMES), args)


def rand_props(rng):
    from emmet.css_abbreviation.parser import CSSProperty, CSSValue
    props = []
    for _ in range(rng.choice([1, 1, 2, 3, 5])):
        name = rng.choice(['margin', 'border-top-width', 'x', None, None, '', '-webkit-box', 'two\nlines'])
        value = [CSSValue([rand_token(rng, 2) for _ in range(rng.choice([0, 1, 1, 2, 3, 4]))])
                 for _ in range(rng.choice([0, 1, 1, 1, 2, 3]))]
        p = CSSProperty(name, value, rng.random() < 0.2)
        p.snippet = object() if rng.random() < 0.7 else None
        props.append(p)
    return props


def props_to_json(enc):
    return enc


def build_props(enc):
    """Python objects from a snapshot (replay of a synthetic case)."""
    from emmet.css_abbreviation.tokenizer import tokens as T
    from emmet.css_abbreviation.parser import FunctionCall, CSSValue, CSSProperty
    from fractions import Fraction

    def fl(d):
        neg, mant, exp = d
        v = float(Fraction(mant, 10 ** exp))
        return -v if neg else v

    def tok(v):
        if v[0] == 'fn':
            return FunctionCall(v[1], [CSSValue([tok(x) for x in a]) for a in v[2]])
        k, st, en = v[1], v[2], v[3]
        t = k[0]
        if t == 'lit':
            return T.Literal(k[1], st, en)
        if t == 'custom':
            return T.CustomProperty(k[1], st, en)
        if t == 'num':
            return T.NumberValue(fl(k[1]), k[2], k[3], st, en)
        if t == 'color':
            return T.ColorValue(k[1], k[2], k[3], fl(k[4]), k[5], st, en)
        if t == 'str':
            return T.StringValue(k[1], 'single' if k[2] else 'double', st, en)
        if t == 'field':
            return T.Field(k[1], k[2], st, en)
        if t == 'bracket':
            return T.Bracket(k[1], st, en)
        if t == 'op':
            return T.Operator(k[1], st, en)
        return T.WhiteSpace(st, en)
    out = []
    for name, value, imp, sn in enc:
        p = CSSProperty(name, [CSSValue([tok(x) for x in cv]) for cv in value], imp)
        p.snippet = object() if sn else None
        out.append(p)
    return out


def untuple(x):
    """JSON gives lists; snapshots use tuples for tokens."""
    if isinstance(x, list):
        return [untuple(y) for y in x]
    return x


def snapshot_from_json(j):
    def val(v):
        if v[0] == 'fn':
            return ('fn', v[1], [[val(x) for x in a] for a in v[2]])
        k = v[1]
        if k[0] == 'num':
            k = ('num', tuple(k[1]), k[2], k[3])
        elif k[0] == 'color':
            k = ('color', k[1], k[2], k[3], tuple(k[4]), k[5])
        else:
            k = tuple(k)
        return ('tok', k, v[2], v[3])
    return [(p[0], [[val(x) for x in cv] for cv in p[1]], p[2], p[3]) for p in j]
