"""Shared machinery of every check: build, proof-obligation accounting,
model execution (extracted OCaml), evidence, violations, known findings.

A property module (harness/props/cNN.py) defines `run(ctx)` and uses:
  ctx.build([...targets...])                 make the .vo files it needs (full .vo, never -vos)
  ctx.obligations('props/C18.v')             compile the property file, account Print Assumptions
  ctx.model('markup')                        extracted model process pool
  ctx.disagree(...), ctx.property_failure(...)  report findings
  ctx.cover(...), ctx.sample(...)            evidence
"""
import fcntl
import hashlib
import json
import os
import random
import re
import subprocess
import sys
import time

HERE = os.path.dirname(os.path.abspath(__file__))
VERIF = os.path.dirname(HERE)
REPO = os.environ.get('VERIF_REPO', '/repo')
COQ = os.path.join(VERIF, 'coq')
BUILD = os.path.join(VERIF, 'build')
OUT = os.path.join(VERIF, 'out')
PY = '/venv/bin/python'
NPROC = min(16, os.cpu_count() or 4)

TRUSTED_BASE = [
    'Coq 8.16.1 kernel (coqc, full .vo build; vm_compute used for finite sweeps; no native_compute)',
    'axioms: none declared by this development; per-theorem Print Assumptions output is recorded under coverage.assumptions',
    'extraction: ExtrOcamlBasic only (Extract Inductive bool/option/unit/list/prod/sumbool/sumor; Extract Inlined Constant andb/orb); OCaml 4.13.1; ocaml/driver.ml.in',
    'translator for data: harness/gen_tables.py + harness/gen_*.py (tables regenerated from the imported emmet modules on every run)',
    'correspondence harness (generators, canonicalisation, diff) and CPython 3.12',
    'hand-written Gallina models of the Python code: modelled, tied to the code by differential correspondence only',
]

ALLOWED_AXIOMS = {
    # stdlib axioms that may appear; each is named in the evidence when it does
    'functional_extensionality_dep', 'FunctionalExtensionality.functional_extensionality_dep',
    'Eqdep.Eq_rect_eq.eq_rect_eq', 'Classical_Prop.classic', 'ProofIrrelevance.proof_irrelevance',
    'JMeq.JMeq_eq',
}

FORBIDDEN = re.compile(
    r'\b(Admitted|admit|Axiom|Axioms|Parameter|Parameters|Conjecture|Conjectures|Unset\s+Guard|'
    r'bypass_check|Admit\s+Obligations|type-in-type|impredicative-set|Unset\s+Positivity|'
    r'Unset\s+Universe\s+Checking)\b')


class Hang(Exception):
    """The implementation did not return within the per-call time limit."""


class time_limit:
    """`with time_limit(10): impl_call()` raises Hang when the call has not returned after that many seconds of
    CPU time of this process (ITIMER_PROF: independent of the load of the machine -- a wall-clock limit let a
    descheduled 0.1 s call look like a hang on a busy machine; main thread only; interrupts pure-Python loops.
    A call that blocks without using CPU is left to the whole-run watchdog of ./check)."""

    def __init__(self, seconds):
        self.seconds = seconds

    def _fire(self, signum, frame):
        raise Hang('no result after %s s' % self.seconds)

    def __enter__(self):
        import signal
        import threading
        self.active = threading.current_thread() is threading.main_thread()
        if self.active:
            self.old = signal.signal(signal.SIGPROF, self._fire)
            signal.setitimer(signal.ITIMER_PROF, self.seconds)
        return self

    def __exit__(self, *a):
        if self.active:
            import signal
            signal.setitimer(signal.ITIMER_PROF, 0)
            signal.signal(signal.SIGPROF, self.old)
        return False


def limited(fn, seconds=10):
    """Wrap an implementation runner: a call that does not return within `seconds` yields ('hang', seconds)
    instead of blocking the check (the result then differs from the model's and fails the oracle)."""
    import functools

    @functools.wraps(fn)
    def run(*a, **kw):
        try:
            with time_limit(seconds):
                return fn(*a, **kw)
        except Hang:
            return ('hang', seconds)
    return run


def limit_impl(namespace, names=None, seconds=10):
    """Apply `limited` to every function called impl_* (or the listed names) of a harness module."""
    for n, f in list(namespace.items()):
        if callable(f) and ((names and n in names) or (not names and n.startswith('impl_'))) and not getattr(f, '_limited', False):
            g = limited(f, seconds)
            g._limited = True
            namespace[n] = g



def load_factor():
    """How much longer than on an idle machine things may take right now: run-queue length per core (1, 5 minute
    load averages), between 1 and 12.  Wall-clock limits of the harness are allowances for an idle machine and are
    stretched by this factor, so that a machine shared with other heavy jobs does not turn into a false alarm."""
    try:
        l = max(os.getloadavg()[:2])
    except OSError:
        return 1.0
    return min(12.0, max(1.0, l / float(NPROC)))


def patient_communicate(p, data, timeout):
    """p.communicate(data) with `timeout` seconds on an idle machine; on a loaded one the allowance is re-computed
    (timeout * load_factor()) every two minutes until it is used up.  Raises subprocess.TimeoutExpired then."""
    t0 = time.time()
    try:
        return p.communicate(data, timeout=timeout)
    except subprocess.TimeoutExpired:
        pass
    while True:
        left = timeout * load_factor() - (time.time() - t0)
        if left <= 0:
            raise subprocess.TimeoutExpired(p.args, timeout)
        try:
            return p.communicate(timeout=min(left, 120))
        except subprocess.TimeoutExpired:
            continue


def patient_run(cmd, timeout, **kw):
    """subprocess.run(cmd, timeout=...) with the same load-stretched allowance"""
    data = kw.pop('input', None)
    if data is not None:
        kw['stdin'] = subprocess.PIPE
    p = subprocess.Popen(cmd, **kw)
    try:
        o, e = patient_communicate(p, data, timeout)
    except subprocess.TimeoutExpired:
        p.kill()
        p.communicate()
        raise
    return subprocess.CompletedProcess(p.args, p.returncode, o, e)


def sh(cmd, timeout=None, cwd=None, env=None, input=None):
    p = subprocess.run(cmd, shell=isinstance(cmd, str), cwd=cwd, env=env, input=input,
                       stdout=subprocess.PIPE, stderr=subprocess.STDOUT, timeout=timeout, text=True)
    return p.returncode, p.stdout


class Lock:
    def __init__(self, name):
        os.makedirs(BUILD, exist_ok=True)
        self.path = os.path.join(BUILD, name + '.lock')

    def __enter__(self):
        self.f = open(self.path, 'w')
        fcntl.flock(self.f, fcntl.LOCK_EX)
        return self

    def __exit__(self, *a):
        fcntl.flock(self.f, fcntl.LOCK_UN)
        self.f.close()


# ------------------------------------------------------------------ building
def strip_coq_comments(text):
    out = []
    depth = 0
    i = 0
    while i < len(text):
        if text.startswith('(*', i):
            depth += 1
            i += 2
        elif text.startswith('*)', i) and depth:
            depth -= 1
            i += 2
        else:
            if not depth:
                out.append(text[i])
            i += 1
    return ''.join(out)


def forbidden_scan():
    """grep gate over every .v under coq/ (comments stripped)."""
    hits = []
    for root, _, files in os.walk(COQ):
        for fn in files:
            if fn.endswith('.v'):
                p = os.path.join(root, fn)
                with open(p, encoding='utf-8') as f:
                    body = strip_coq_comments(f.read())
                for m in FORBIDDEN.finditer(body):
                    hits.append('%s: %s' % (os.path.relpath(p, COQ), m.group(0)))
    return hits


def gen_tables():
    env = dict(os.environ, PYTHONPATH=REPO, PYTHONHASHSEED='0', VERIF_REPO=REPO)
    rc, out = sh([PY, os.path.join(HERE, 'gen_tables.py')], timeout=300, env=env)
    return rc == 0, out


def ensure_project():
    files = []
    for d in ('gen', 'lib', 'model', 'proofs', 'props', 'run'):
        for root, _, fns in os.walk(os.path.join(COQ, d)):
            for fn in fns:
                if fn.endswith('.v'):
                    files.append(os.path.relpath(os.path.join(root, fn), COQ))
    text = '-Q . Emmet\n' + '\n'.join(sorted(files)) + '\n'
    path = os.path.join(COQ, '_CoqProject')
    old = open(path).read() if os.path.exists(path) else None
    if old != text or not os.path.exists(os.path.join(COQ, 'Makefile.coq')):
        with open(path, 'w') as f:
            f.write(text)
        rc, out = sh('coq_makefile -f _CoqProject -o Makefile.coq', cwd=COQ, timeout=120)
        if rc != 0:
            raise RuntimeError('coq_makefile failed: ' + out)


def make(targets, timeout=3000):
    """Full .vo build of the given targets (paths relative to coq/, .vo)."""
    with Lock('coq'):
        ok, out = gen_tables()
        if not ok:
            return False, 'gen_tables failed:\n' + out
        ensure_project()
        cmd = ['timeout', str(timeout), 'make', '-f', 'Makefile.coq', '-j%d' % NPROC, '-k'] + list(targets)
        rc, out2 = sh(cmd, cwd=COQ, timeout=timeout + 60)
        return rc == 0, out + out2


def _discover_models():
    """Convention: coq/extract/Extract<Name>.v extracts `<name>_model.ml` with entry `run`
    from coq/run/<Name>Run.v."""
    out = {}
    d = os.path.join(COQ, 'extract')
    if os.path.isdir(d):
        for fn in sorted(os.listdir(d)):
            m = re.match(r'Extract(\w+)\.v$', fn)
            if m:
                name = m.group(1)
                out[name.lower()] = (fn, name.lower() + '_model.ml', 'run', 'run/%sRun.vo' % name)
    return out


MODELS = _discover_models()


def file_hash(path):
    h = hashlib.sha256()
    with open(path, 'rb') as f:
        h.update(f.read())
    return h.hexdigest()


def build_model(name):
    """Extract the named model and compile the driver (rebuilt when the run module's .vo changed)."""
    ext_v, ml, entry, dep = MODELS[name]
    d = os.path.join(BUILD, name)
    with Lock('model-' + name):
        os.makedirs(d, exist_ok=True)
        stamp = os.path.join(d, 'stamp')
        dep_path = os.path.join(COQ, dep)
        if not os.path.exists(dep_path):
            return None, 'missing ' + dep
        cur = file_hash(dep_path) + file_hash(os.path.join(VERIF, 'ocaml', 'driver.ml.in')) + \
            file_hash(os.path.join(COQ, 'extract', ext_v))
        exe = os.path.join(d, name + '_model')
        if os.path.exists(stamp) and open(stamp).read() == cur and os.path.exists(exe):
            return exe, ''
        rc, out = sh(['timeout', '600', 'coqc', '-Q', COQ, 'Emmet', os.path.join(COQ, 'extract', ext_v)],
                     cwd=d, timeout=660)
        if rc != 0:
            return None, 'extraction failed:\n' + out
        with open(os.path.join(VERIF, 'ocaml', 'driver.ml.in')) as f:
            drv = f.read().replace('ENTRY', entry)
        with open(os.path.join(d, ml)) as f:
            body = f.read()
        with open(os.path.join(d, 'main.ml'), 'w') as f:
            f.write(body + '\n' + drv)
        mli = os.path.join(d, 'main.mli')
        if os.path.exists(mli):
            os.remove(mli)
        rc, out = sh(['ocamlfind', 'ocamlopt', '-w', '-a', 'main.ml', '-o', exe], cwd=d, timeout=600)
        if rc != 0:
            return None, 'ocaml build failed:\n' + out
        with open(stamp, 'w') as f:
            f.write(cur)
        return exe, ''


class Model:
    """Runs cases (lists of ints) through an extracted model binary."""

    def __init__(self, exe):
        self.exe = exe

    def run(self, cases, procs=None, timeout=3600):
        cases = list(cases)
        if not cases:
            return []
        procs = max(1, min(procs or (NPROC if len(cases) > 2000 else 1), len(cases)))
        chunks = [cases[i::procs] for i in range(procs)]
        ps = []
        for ch in chunks:
            data = '\n'.join(' '.join(map(str, c)) for c in ch) + '\n'
            p = subprocess.Popen(['bash', '-c', 'ulimit -s unlimited 2>/dev/null; exec "%s"' % self.exe],
                                 stdin=subprocess.PIPE, stdout=subprocess.PIPE, stderr=subprocess.PIPE, text=True)
            ps.append((p, data, len(ch)))
        outs = []
        # feed/collect sequentially per process using communicate (each has its own pipe buffers;
        # started all first so they run in parallel)
        import threading
        results = [None] * len(ps)

        def work(i):
            p, data, n = ps[i]
            try:
                o, e = patient_communicate(p, data, timeout)
            except subprocess.TimeoutExpired:
                p.kill()
                o, e = '', 'timeout'
            results[i] = (o, e, p.returncode)
        ths = [threading.Thread(target=work, args=(i,)) for i in range(len(ps))]
        for t in ths:
            t.start()
        for t in ths:
            t.join()
        per = []
        for i, (o, e, rc) in enumerate(results):
            lines = o.split('\n')
            if lines and lines[-1] == '':
                lines.pop()
            n = ps[i][2]
            if rc != 0 or len(lines) != n:
                raise RuntimeError('model process failed rc=%s stderr=%s got %d of %d lines' % (rc, e[:500], len(lines), n))
            per.append([[int(x) for x in ln.split()] for ln in lines])
        res = [None] * len(cases)
        for i in range(procs):
            for j, r in enumerate(per[i]):
                res[i + j * procs] = r
        return res


# ------------------------------------------------------------------ wire helpers (mirror of coq/lib/Wire.v)
def enc_str(s):
    return [len(s)] + [ord(c) for c in s]


def enc_bool(b):
    return [1 if b else 0]


def enc_opt(f, o):
    return [0] if o is None else [1] + f(o)


def enc_list(f, l):
    out = [len(l)]
    for x in l:
        out += f(x)
    return out


class Reader:
    def __init__(self, w):
        self.w = w
        self.i = 0

    def int(self):
        v = self.w[self.i]
        self.i += 1
        return v

    def bool(self):
        return self.int() != 0

    def str(self):
        n = self.int()
        s = ''.join(chr(c) for c in self.w[self.i:self.i + n])
        self.i += n
        return s

    def opt(self, f):
        return f() if self.int() else None

    def list(self, f):
        return [f() for _ in range(self.int())]

    def done(self):
        return self.i == len(self.w)


# ------------------------------------------------------------------ known findings
def load_known():
    p = os.path.join(VERIF, 'known_findings.json')
    if not os.path.exists(p):
        return {'findings': [], 'fixed': []}
    with open(p) as f:
        k = json.load(f)
    d = os.path.join(VERIF, 'known_findings.d')
    if os.path.isdir(d):
        for fn in sorted(os.listdir(d)):
            if fn.endswith('.json'):
                with open(os.path.join(d, fn)) as f:
                    k2 = json.load(f)
                k['findings'] += k2.get('findings', [])
                k['fixed'] += k2.get('fixed', [])
    return k


# ------------------------------------------------------------------ context
class Ctx:
    def __init__(self, pid, tier, seed):
        self.pid = pid
        self.tier = tier
        self.seed = seed
        self.rng = random.Random(seed)
        self.t0 = time.time()
        self.cov = {
            'obligations': 0, 'discharged': 0, 'checker_cmd': '', 'trusted_base': list(TRUSTED_BASE),
            'evaluations': 0, 'distinct_nontrivial': 0, 'rule': '', 'samples': [],
            'theorems': [], 'assumptions': {}, 'correspondence': {}, 'distribution': {},
        }
        self.assumptions = []
        self.violations = []      # (replay_obj, no_input)
        self.known_hits = []
        self.broken = []          # names of obligations / correspondences that no longer check
        self.log = []
        self.known = load_known()
        self._distinct = set()

    # -- logging
    def say(self, msg):
        print(msg, flush=True)

    # -- build
    def build(self, targets):
        ok, out = make(targets)
        if not ok:
            tail = out[-3000:]
            self.say('BUILD FAILED for %s\n%s' % (targets, tail))
            m = re.findall(r'File "\./([^"]+)", line (\d+)', out)
            self.broken.append({'kind': 'proof-or-model-build', 'targets': targets,
                                'where': ['%s:%s' % x for x in m][:5], 'log_tail': tail[-1500:]})
        return ok

    def obligations(self, props_file, extra_theorem_files=()):
        """Compile the property file; every `Print Assumptions` in it is one obligation."""
        hits = forbidden_scan()
        self.cov['obligations'] += 1
        if hits:
            self.broken.append({'kind': 'forbidden-construct', 'hits': hits[:10]})
            self.say('FORBIDDEN constructs: %s' % hits[:10])
        else:
            self.cov['discharged'] += 1
        path = os.path.join(COQ, props_file)
        with open(path, encoding='utf-8') as f:
            src = strip_coq_comments(f.read())
        names = re.findall(r'Print\s+Assumptions\s+([\w.\']+)\s*\.', src)
        cmd = ['timeout', '900', 'coqc', '-Q', COQ, 'Emmet', path]
        self.cov['checker_cmd'] = 'make -f Makefile.coq (coqc 8.16.1, full .vo) && ' + \
            ' '.join(cmd).replace(COQ, 'coq') + '  # Print Assumptions per theorem; grep gate for Admitted/Axiom/...'
        with Lock('coq'):
            rc, out = sh(cmd, cwd=COQ, timeout=960)
        if rc != 0:
            self.cov['obligations'] += max(1, len(names))
            self.broken.append({'kind': 'property-file', 'file': props_file, 'log_tail': out[-1500:]})
            self.say('PROPERTY FILE FAILED %s\n%s' % (props_file, out[-2000:]))
            return False
        # split output into assumption blocks, in order
        blocks = re.split(r'(?m)^(?=Closed under the global context|Axioms:)', out)
        blocks = [b for b in blocks if b.startswith('Closed under') or b.startswith('Axioms:')]
        ok = True
        if len(blocks) != len(names):
            self.broken.append({'kind': 'assumption-parse', 'file': props_file,
                                'expected': len(names), 'got': len(blocks)})
            ok = False
        for name, b in zip(names, blocks):
            self.cov['obligations'] += 1
            if b.startswith('Closed under'):
                self.cov['assumptions'][name] = 'Closed under the global context'
                self.cov['discharged'] += 1
            else:
                axs = re.findall(r'(?m)^([\w.\']+)\s*:', b[len('Axioms:'):])
                bad = [a for a in axs if a not in ALLOWED_AXIOMS and a.split('.')[-1] not in ALLOWED_AXIOMS]
                self.cov['assumptions'][name] = 'Axioms: ' + ', '.join(axs)
                if bad:
                    ok = False
                    self.broken.append({'kind': 'axiom', 'theorem': name, 'axioms': bad})
                else:
                    self.cov['discharged'] += 1
            self.cov['theorems'].append(name)
        if self.tier == 'thorough' and os.environ.get('VERIF_NO_COQCHK') != '1':
            ok = self.coqchk(props_file) and ok
        return ok

    def coqchk(self, props_file):
        """Thorough tier: re-check the compiled property file and everything it depends on with the
        independent checker; its axiom summary must be empty or a subset of the whitelisted stdlib axioms."""
        mod = 'Emmet.' + props_file[:-2].replace('/', '.')
        cmd = ['timeout', '1500', 'coqchk', '-silent', '-o', '-Q', COQ, 'Emmet', mod]
        self.cov['obligations'] += 1
        rc, out = sh(cmd, cwd=COQ, timeout=1560)
        m = re.search(r'\* Axioms:(.*?)\n\s*\n\* Constants', out, re.S)
        axioms = []
        if m:
            axioms = [a.strip() for a in m.group(1).split('\n') if a.strip() and a.strip() != '<none>']
        unsafe = re.findall(r'\* (Constants/Inductives relying on type-in-type|Constants/Inductives relying on unsafe \(co\)fixpoints|'
                            r'Inductives whose positivity is assumed): (?!<none>)(\S.*)', out)
        bad = [a for a in axioms if a not in ALLOWED_AXIOMS and a.split('.')[-1] not in ALLOWED_AXIOMS
               and not any(a.endswith(x) for x in ALLOWED_AXIOMS)]
        self.cov.setdefault('coqchk', {})[mod] = {'rc': rc, 'axioms': axioms or ['<none>']}
        if rc != 0 or m is None or bad or unsafe:
            self.broken.append({'kind': 'coqchk', 'file': props_file, 'axioms': bad, 'unsafe': unsafe, 'log_tail': out[-1200:]})
            self.say('COQCHK FAILED %s\n%s' % (mod, out[-1500:]))
            return False
        self.cov['discharged'] += 1
        return True

    def model(self, name):
        exe, err = build_model(name)
        if exe is None:
            self.say('MODEL BUILD FAILED %s: %s' % (name, err[-2000:]))
            self.broken.append({'kind': 'model-extraction', 'model': name, 'log_tail': err[-1500:]})
            return None
        return Model(exe)

    # -- evidence
    def cover(self, key, n=1):
        d = self.cov['distribution']
        d[key] = d.get(key, 0) + n

    def count_eval(self, n=1):
        self.cov['evaluations'] += n

    def nontrivial(self, key):
        """Register a distinct non-trivial case (by hashable key)."""
        h = hash(key)
        if h not in self._distinct:
            self._distinct.add(h)
            self.cov['distinct_nontrivial'] += 1

    def sample(self, obj, limit=8):
        if len(self.cov['samples']) < limit:
            self.cov['samples'].append(obj)

    # -- findings
    def match_known(self, key):
        for f in self.known.get('findings', []):
            if f.get('property') == self.pid and f.get('key') == key:
                return f
        return None

    def property_failure(self, key, what, replay):
        """A concrete input on which the PROPERTY fails on the implementation.
        `key` identifies the failing input/call site for known-findings matching."""
        f = self.match_known(key)
        if f is not None:
            if key not in [k for k, _ in self.known_hits]:
                self.known_hits.append((key, f.get('what', what)))
            return
        self.violations.append({'key': key, 'what': what, 'replay': replay, 'no_input': False})

    def unproved(self, name, detail):
        """A theorem or correspondence no longer checks and no failing input was found."""
        self.violations.append({'key': name, 'what': detail, 'replay': {'broken': name, 'detail': detail},
                                'no_input': True})

    # -- finish
    def finish(self, level='proof', assumptions=()):
        os.makedirs(os.path.join(VERIF, 'evidence'), exist_ok=True)
        os.makedirs(os.path.join(OUT, 'replay'), exist_ok=True)
        for key, what in self.known_hits:
            self.say('KNOWN-FINDING: property=%s %s' % (self.pid, what))
        # broken obligations with no concrete failing input -> still a violation
        if self.broken and not any(not v['no_input'] for v in self.violations):
            for b in self.broken:
                self.unproved(b.get('kind', 'obligation') + ':' + str(b.get('file') or b.get('targets') or b.get('theorem') or b.get('model') or ''), json.dumps(b)[:1500])
        lines = []
        seen = set()
        # concrete failing inputs first, smallest first (cheap minimisation by selection)
        self.violations.sort(key=lambda v: (v['no_input'], len(json.dumps(v['replay'], default=str))))
        for i, v in enumerate(self.violations):
            if v['key'] in seen:
                continue
            seen.add(v['key'])
            path = os.path.join(OUT, 'replay', '%s-%s-%d.json' % (self.pid, self.tier, len(seen)))
            with open(path, 'w') as f:
                json.dump({'property': self.pid, 'what': v['what'], 'replay': v['replay'],
                           'broken_obligations': self.broken}, f, indent=1, default=str)
            lines.append('VIOLATION property=%s replay=%s%s' % (
                self.pid, path, ' no-failing-input-found' if v['no_input'] else ''))
            if len(lines) >= 10:
                break
        cov = self.cov
        cov['known_findings_reported'] = [k for k, _ in self.known_hits]
        cov['broken'] = self.broken
        ev = {
            'property_id': self.pid, 'tier': self.tier, 'seed': self.seed, 'level': level,
            'coverage': cov, 'assumptions': list(assumptions) + self.assumptions,
            'wall_s': round(time.time() - self.t0, 2), 'violations': len(lines),
        }
        with open(os.path.join(VERIF, 'evidence', self.pid + '.json'), 'w') as f:
            json.dump(ev, f, indent=1, default=str)
        for ln in lines:
            self.say(ln)
        self.say('%s %s: obligations %d/%d, evaluations %d, distinct non-trivial %d, violations %d, %.1fs' % (
            self.pid, self.tier, cov['discharged'], cov['obligations'], cov['evaluations'],
            cov['distinct_nontrivial'], len(lines), time.time() - self.t0))
        return 1 if lines else 0
