"""C17, HTML half -- documents whose tag and attribute names range over the WHOLE XML name alphabet.

The library says which characters make a tag or attribute name: "XML spec:
https://www.w3.org/TR/xml/#NT-NameStartChar / #NT-NameChar" (comment in emmet/html_matcher/utils.py).  The
facts are hard-coded here from the specification itself (XML 1.0 Fifth Edition, section 2.3, productions
[4] NameStartChar and [4a] NameChar), complete: all planes.  (Before the repair recorded in
known_findings.d/xmlnames.json the library cut the productions at U+1FFF and this file did the same.)  Nothing is
read from the library.

    [4]  NameStartChar ::= ":" | [A-Z] | "_" | [a-z] | [#xC0-#xD6] | [#xD8-#xF6] | [#xF8-#x2FF]
                           | [#x370-#x37D] | [#x37F-#x1FFF] | [#x200C-#x200D] | [#x2070-#x218F] | [#x2C00-#x2FEF]
                           | [#x3001-#xD7FF] | [#xF900-#xFDCF] | [#xFDF0-#xFFFD] | [#x10000-#xEFFFF]
    [4a] NameChar      ::= NameStartChar | "-" | "." | [0-9] | #xB7 | [#x0300-#x036F] | [#x203F-#x2040]

`name_documents(rng, n_random)` yields html_gen.Doc records (same record type as the C09 generator, so the C17
oracles of html_util apply unchanged):

  * one document per BOUNDARY code point of every range above (first, second, last-but-one, last), with that
    character as first / middle / last / only character of a tag name and of attribute names (characters
    that may not start a name: middle / last only), the attributes in every value form (double quoted,
    single quoted, unquoted, expression, boolean) plus a `class` attribute whose tokens carry the character;
  * random documents whose names are drawn from the whole alphabet (weighted towards the boundaries and
    towards one code point per Unicode block);
  * the code points just OUTSIDE the ranges (U+00D7, U+00F7, U+00BF, U+00B6, U+00B8, U+037E, U+2000, U+200B, U+200E,
    U+203E, U+2041, U+206F, U+2190, U+2BFF, U+2FF0, U+3000, U+E000, U+F8FF, U+FDD0, U+FDEF, U+FFFE, U+FFFF, U+F0000,
    U+10FFFF, `@`, `[`, backtick, `/`, `;`) appear where the record is still unambiguous: inside quoted values, class
    tokens and text (never in a name, never unquoted).  (The surrogate code points U+D800..U+DFFF border a range too;
    they are no characters of a document and occur in the character-class sweep of C09 only.)
"""
import html_gen
from html_gen import Attr, Doc, Elem, words

# XML 1.0 (Fifth Edition) section 2.3 [4]
NAME_START_RANGES = [(0x3A, 0x3A), (0x41, 0x5A), (0x5F, 0x5F), (0x61, 0x7A), (0xC0, 0xD6), (0xD8, 0xF6), (0xF8, 0x2FF),
                     (0x370, 0x37D), (0x37F, 0x1FFF), (0x200C, 0x200D), (0x2070, 0x218F), (0x2C00, 0x2FEF),
                     (0x3001, 0xD7FF), (0xF900, 0xFDCF), (0xFDF0, 0xFFFD), (0x10000, 0xEFFFF)]
# XML 1.0 (Fifth Edition) section 2.3 [4a], what NameChar adds
NAME_EXTRA_RANGES = [(0x2D, 0x2D), (0x2E, 0x2E), (0x30, 0x39), (0xB7, 0xB7), (0x300, 0x36F), (0x203F, 0x2040)]
# neighbours of the ranges that are NOT name characters (used in values / text only)
OUTSIDE_NONASCII = [0xD7, 0xF7, 0xBF, 0xB6, 0xB8, 0x37E,      # class tokens, quoted values, text
                    0x2000, 0x200B, 0x200E, 0x203E, 0x2041, 0x206F, 0x2190, 0x2BFF, 0x2FF0, 0x3000, 0xE000, 0xF8FF,
                    0xFDD0, 0xFDEF, 0xFFFE, 0xFFFF, 0xF0000, 0x10FFFF]
# code points inside the long ranges where an implementation working on UTF-16 units or on a truncated table would
# change its answer: plane borders, the last BMP letters, the first astral letters of the planes in use
INNER_POINTS = [0x3041, 0x4E00, 0x65E5, 0x672C, 0x9FFF, 0xA000, 0xAC00, 0xD7A3, 0xFFFD, 0x1FFFF, 0x20000, 0x2A6DF, 0x2FFFF,
                0x30000, 0xDFFFF, 0xE0000, 0xE0100]
OUTSIDE_ASCII = [0x40, 0x5B, 0x60, 0x2F, 0x3B]                 # quoted values and text only


def boundary_points(ranges):
    out = []
    for lo, hi in ranges:
        for c in (lo, lo + 1, hi - 1, hi):
            if lo <= c <= hi and c not in out:
                out.append(c)
    return out


START_BOUNDARY = boundary_points(NAME_START_RANGES) + INNER_POINTS
EXTRA_BOUNDARY = boundary_points(NAME_EXTRA_RANGES)


def is_name_start(cp):
    return any(lo <= cp <= hi for lo, hi in NAME_START_RANGES)


def rand_start_cp(rng):
    r = rng.random()
    if r < 0.3:
        return rng.choice(START_BOUNDARY)
    if r < 0.55:
        return rng.randint(0x61, 0x7A)
    if r < 0.7:
        # one code point of a random 128-block below U+2000 (Latin Extended, IPA, Greek, Cyrillic, Armenian, Hebrew,
        # Arabic, Indic, Thai, Georgian, Hangul Jamo, Ethiopic, Cherokee, Khmer, Mongolian, Greek Extended ...)
        for _ in range(20):
            c = rng.randrange(0x80, 0x2000)
            if is_name_start(c):
                return c
    if r < 0.85:
        # ... or of the BMP above it (letterlike symbols, Glagolitic, Coptic, Kana, CJK, Yi, Hangul, presentation
        # forms, fullwidth forms) or of an astral plane
        for _ in range(20):
            c = rng.randrange(0x2000, 0x10000) if rng.random() < 0.6 else rng.randrange(0x10000, 0xF0000)
            if is_name_start(c):
                return c
    lo, hi = rng.choice(NAME_START_RANGES)
    return rng.randint(lo, hi)


def rand_name_cp(rng):
    if rng.random() < 0.3:
        lo, hi = rng.choice(NAME_EXTRA_RANGES)
        return rng.randint(lo, hi) if rng.random() < 0.5 else rng.choice(EXTRA_BOUNDARY)
    return rand_start_cp(rng)


def rand_name(rng):
    n = rng.choice([1, 1, 2, 2, 3, 4, 6])
    return chr(rand_start_cp(rng)) + ''.join(chr(rand_name_cp(rng)) for _ in range(n - 1))


STEMS = ['ab', 'x', 'data', 'id', 'Ref', 'hre']


def placed(rng, ch, where):
    """a name with `ch` as its first / middle / last / only character, the rest ASCII letters"""
    stem = rng.choice(STEMS)
    if where == 'only':
        return ch
    if where == 'first':
        return ch + stem
    if where == 'last':
        return stem + ch
    if len(stem) < 2:
        stem += 'y'
    k = rng.randrange(1, len(stem))
    return stem[:k] + ch + stem[k:]


RESERVED = set(html_gen.VOID) | {'script', 'style', 'class'}


class _B:
    def __init__(self, rng, xml):
        self.rng, self.xml = rng, xml
        self.buf, self.pos = [], 0
        self.elems, self.events, self.features = [], [], set()

    def emit(self, s):
        self.buf.append(s)
        self.pos += len(s)

    def value(self, form, body):
        """emit `=value` in the given form; returns (vs, ve, inner)"""
        self.emit('=')
        vs = self.pos
        if form == 'dq':
            self.emit('"' + body + '"')
            inner = (vs + 1, vs + 1 + len(body))
        elif form == 'sq':
            self.emit("'" + body + "'")
            inner = (vs + 1, vs + 1 + len(body))
        elif form == 'expr':
            self.emit('{' + body + '}')
            inner = (vs + 1, vs + 1 + len(body))
        else:
            self.emit(body)
            inner = (vs, vs + len(body))
        return vs, self.pos, inner

    def attribute(self, name, form, extra):
        rng = self.rng
        ns = self.pos
        self.emit(name)
        ne = self.pos
        self.features.add('attr-name-alphabet:' + form)
        if form == 'none':
            return Attr(name, ns, ne)
        if form == 'unq':
            # unquoted: name characters and digits only (the C09 generator's safe alphabet plus letters of the alphabet)
            body = ''.join(rng.choice(['a', 'b', '1', '-', '_', '.'] + extra['letters']) for _ in range(rng.randint(1, 4)))
        elif name == 'class':
            toks = [rng.choice(['a', 'item', 'b-c'] + extra['tokens']) for _ in range(rng.choice([0, 1, 2, 3]))]
            body = rng.choice(['', '', ' ']) + ''.join(t + rng.choice([' ', '  ', '\n', '\t', '\xa0']) for t in toks[:-1]) \
                + (toks[-1] if toks else '') + rng.choice(['', '', ' '])
        elif form == 'expr':
            body = ''.join(rng.choice(['a', ' ', '1', '.', '()', ' + '] + extra['letters']) for _ in range(rng.choice([0, 1, 2, 4])))
        else:
            body = ''.join(rng.choice(['a', ' ', 'v', '>', '=', '/'] + extra['any']) for _ in range(rng.choice([0, 1, 2, 4])))
        vs, ve, inner = self.value(form, body)
        return Attr(name, ns, ne, True, vs, ve, inner)

    def open_tag(self, name, attr_specs, self_close, extra):
        rng = self.rng
        start = self.pos
        self.emit('<' + name)
        attrs = []
        for aname, form in attr_specs:
            self.emit(rng.choice(html_gen.WS))
            attrs.append(self.attribute(aname, form, extra))
        if self_close:
            self.emit(rng.choice(['/', ' /', '\n/']))
        else:
            self.emit(rng.choice(['', '', ' ', '\n']))
        self.emit('>')
        return (start, self.pos), attrs

    def text(self, extra):
        rng = self.rng
        self.emit(''.join(rng.choice(['t', ' ', 'xy', '>', '\n'] + extra['any']) for _ in range(rng.choice([0, 1, 2, 3]))))

    def element(self, name, attr_specs, kind, parent, extra, inner=None):
        """kind: 'single' (`<n ..>` without a close tag is only written for self-closed), 'self', 'pair'"""
        self_close = kind == 'self'
        rngs, attrs = self.open_tag(name, attr_specs, self_close, extra)
        e = Elem(name, 3 if self_close else 1, rngs, None, attrs)
        e.parent = parent
        self.elems.append(e)
        self.events.append((name, e.etype, rngs[0], rngs[1]))
        if parent is not None:
            parent.children.append(e)
        if not self_close:
            self.text(extra)
            if inner:
                inner(e)
                self.text(extra)
            cs = self.pos
            self.emit('</' + name + '>')
            e.close = (cs, self.pos)
            self.events.append((name, 2, cs, self.pos))
        return e

    def finish(self, roots):
        text = ''.join(self.buf)
        for e in self.elems:
            for a in e.attrs:
                if a.value is not None:
                    a.value = text[a.vs:a.ve]
                    a.tokens = words(text[a.inner[0]:a.inner[1]], a.inner[0])
        self.features.add('xml' if self.xml else 'html')
        self.features.add('names-over-the-alphabet')
        return Doc(text, self.xml, roots, self.elems, self.events, self.features)


FORMS = ['dq', 'sq', 'unq', 'expr', 'none']


def _build(rng, xml, tag_names, attr_name_fn, extra):
    """one document: the tags `tag_names` (a mix of nested pairs, siblings and self-closed tags), each with attributes
    named by attr_name_fn() in all value forms, sometimes a class attribute"""
    b = _B(rng, xml)
    roots = []
    if rng.random() < 0.3:
        b.text(extra)
    names = list(tag_names)

    def place(parent):
        while names:
            name = names.pop(0)
            forms = rng.sample(FORMS, rng.choice([2, 3, 3, 4]))
            specs = [(attr_name_fn(), f) for f in forms]
            if rng.random() < 0.5:
                specs.insert(rng.randrange(len(specs) + 1), ('class', rng.choice(['dq', 'sq', 'expr', 'dq'])))
            kind = rng.choice(['pair', 'pair', 'self'])
            nest = kind == 'pair' and names and rng.random() < 0.6
            e = b.element(name, specs, kind, parent, extra, inner=place if nest else None)
            if parent is None:
                roots.append(e)
            if parent is not None and rng.random() < 0.4:
                return
    place(None)
    return b.finish(roots)


def _extra(rng, letters):
    out = [chr(c) for c in rng.sample(OUTSIDE_NONASCII, 2)]
    return {'letters': list(letters), 'tokens': [l + 'k' for l in letters] + ['k' + l for l in letters] + [out[0] + 'q', out[1]],
            'any': list(letters) + out + [chr(rng.choice(OUTSIDE_ASCII))]}


def boundary_document(rng, cp, xml):
    """the code point `cp` in every position of tag names and attribute names"""
    ch = chr(cp)
    wheres = ['first', 'middle', 'last', 'only'] if is_name_start(cp) else ['middle', 'last']
    tag_names = [placed(rng, ch, w) for w in wheres]
    tag_names = [n if n not in RESERVED else n + 'z' for n in tag_names]
    rng.shuffle(tag_names)
    cyc = list(wheres)
    state = {'i': rng.randrange(len(cyc))}

    def attr_name():
        state['i'] += 1
        n = placed(rng, ch, cyc[state['i'] % len(cyc)])
        return n if n != 'class' else n + 'z'
    return _build(rng, xml, tag_names, attr_name, _extra(rng, [ch]))


def random_document(rng, xml):
    """every name drawn from the whole alphabet"""
    def name():
        for _ in range(50):
            n = rand_name(rng)
            if n not in RESERVED and n.lower() not in RESERVED:
                return n
        return 'q'
    tag_names = [name() for _ in range(rng.choice([1, 2, 3, 4]))]
    letters = [chr(rand_start_cp(rng)) for _ in range(2)]
    return _build(rng, xml, tag_names, name, _extra(rng, letters))


def name_documents(rng, n_random):
    """[(label, Doc)]"""
    out = []
    for i, cp in enumerate(START_BOUNDARY + EXTRA_BOUNDARY):
        out.append(('names:boundary:U+%04X' % cp, boundary_document(rng, cp, xml=(i % 3 == 2))))
    for i in range(n_random):
        out.append(('names:random:%d' % i, random_document(rng, xml=(i % 3 == 2))))
    return out


def name_class(cp):
    """coverage bucket of a code point"""
    if cp < 0x80:
        return 'ascii-letter' if chr(cp).isalpha() else 'ascii-non-letter(:_-.0-9)'
    for lo, hi in NAME_START_RANGES:
        if lo <= cp <= hi:
            return 'start-range-U+%04X..U+%04X%s' % (lo, hi, ':edge' if cp in (lo, hi) else '')
    for lo, hi in NAME_EXTRA_RANGES:
        if lo <= cp <= hi:
            return 'namechar-range-U+%04X..U+%04X%s' % (lo, hi, ':edge' if cp in (lo, hi) else '')
    return 'other'
