"""C03 helper (used by harness/props/c03.py only): the HTML-vocabulary stream.

The other C03 streams write their attributes on neutral element names (x, div, y1, ...) and never put a tabstop
field into an attribute value apart from a handful of class cases.  Real abbreviations are written with the HTML
vocabulary: names that are default snippets (`a` = a[href], `label` = label[for], `input` = input[type=${1:text}]/,
`textarea` = textarea[name=${1} id=${1}] ...) and names the markup transform treats specially (label with an
input/textarea inside).  This stream writes attribute mentions on exactly those names, in the positions the transform
distinguishes (alone, parent > child, ancestor > ... > descendant, siblings, groups), with values of every token
shape: text, tabstop `${n}`, tabstop with placeholder `${n:ph}`, and sequences of them with the field first, in the
middle and last, unquoted / quoted / expression.

ORACLE (the statement of C03 on emmet.expand output): the attributes of an element are the attributes of its
default snippet followed by the written mentions (written mentions first under output.reverseAttributes, the order
in which the pipeline hands them to the merge), merged and output by the rules restated in attr_util (merge_spec,
attr_out_spec).  A field in a value prints through output.field; the default prints its placeholder.  Both outputs are
judged: with a marking output.field (index dropped: tabstop numbering is not part of C03) and with the default.

ONE documented exception is left unclaimed (upstream Emmet `label` addon; tests/test_markup.py test_label): inside a
<label> that contains an <input>/<textarea>, an EMPTY `for` of the label and an EMPTY `id` of the control may be
removed.  "Empty" = no value, an empty value, or a value that consists of placeholder-less tabstops only.  Whenever the
value that wins the merge is not empty the attribute is claimed as usual (must be there, with its value verbatim);
if an earlier, losing mention of the same name is empty only the position/delimiter of that attribute are unclaimed.

Nothing here reads the snippet table, the label addon or the merge/format code of the implementation: the vocabulary
below is hard-coded from the Emmet documentation (https://docs.emmet.io/cheat-sheet/ , emmetio/emmet
src/snippets/html.json)."""
import copy

import attr_util as au

FM0, FM1, FM2 = au.FM0, au.FM1, au.FM2
TAB = FM0 + FM1 + FM2

# name -> (default snippet attributes as (name, tokens|None), void element)
VOCAB = {
    'a':        ([('href', None)], False),
    'label':    ([('for', None)], False),
    'input':    ([('type', [['f', 1, 'text']])], True),
    'textarea': ([('name', [['f', 1, '']]), ('id', [['f', 1, '']])], False),
    'select':   ([('name', [['f', 1, '']]), ('id', [['f', 1, '']])], False),
    'option':   ([('value', None)], False),
    'img':      ([('src', None), ('alt', None)], True),
    'form':     ([('action', None)], False),
    'abbr':     ([('title', None)], False),
    'map':      ([('name', None)], False),
    'iframe':   ([('src', None), ('frameborder', [['s', '0']])], False),
    'button':   ([], False),
    'span':     ([], False),
    'div':      ([], False),
    'p':        ([], False),
    'fieldset': ([], False),
}
CONTROLS = ('input', 'textarea')
# names used by this stream: none of them is a default boolean attribute
VNAMES = ['for', 'id', 'class', 'title', 'name', 'type', 'href', 'src', 'alt', 'value', 'action', 'a', 'data-k']
DEFAULT_BOOLEAN = {'contenteditable', 'seamless', 'async', 'autofocus', 'autoplay', 'checked', 'controls', 'defer',
                   'disabled', 'formnovalidate', 'hidden', 'ismap', 'loop', 'multiple', 'muted', 'novalidate',
                   'readonly', 'required', 'reversed', 'selected', 'typemustmatch'}
WORD = 'abcxyz019-_'
PH = 'abcxyz019'


def plain_marker(index, placeholder, **kw):
    """output.field for the marked run: the index is dropped (numbering of tabstops is not a C03 observable)."""
    return FM0 + FM1 + placeholder + FM2


# ---------------------------------------------------------------- values made of tokens
def tokens_written(tokens):
    out = ''
    for t in tokens:
        if t[0] == 's':
            out += t[1]
        elif t[2]:
            out += '${%d:%s}' % (t[1], t[2])
        else:
            out += '${%d}' % t[1]
    return out


def tokens_shown(tokens, marked):
    out = ''
    for t in tokens:
        if t[0] == 's':
            out += t[1]
        else:
            out += (FM0 + FM1 + t[2] + FM2) if marked else t[2]
    return out


def token_mention(name, tokens, vt, implied=False):
    """A [..] mention whose value is the token list, written unquoted / quoted / as an expression."""
    w = tokens_written(tokens)
    wname = ('!' if implied else '') + name
    text = {'raw': '%s=%s', 'q1': "%s='%s'", 'q2': '%s="%s"', 'expr': '%s={%s}'}[vt] % (wname, w)
    m = au.mention(name, None, vt, implied=implied, text=text)
    m['tokens'] = [list(t) for t in tokens]
    return m


def snippet_mentions(tag):
    out = []
    for name, tokens in VOCAB.get(tag, ([], False))[0]:
        if tokens is None:
            out.append(au.mention(name, None, 'raw', text=name, form='snippet'))
        else:
            m = au.mention(name, None, 'raw', text='%s=%s' % (name, tokens_written(tokens)), form='snippet')
            m['tokens'] = [list(t) for t in tokens]
            out.append(m)
    return out


def emptyish(m):
    """No value, an empty value, or placeholder-less tabstops only."""
    if m.get('tokens') is not None:
        return all(t[0] == 'f' and not t[2] for t in m['tokens'])
    return not m['value']


SHAPES1 = [('s',), ('f',), ('p',)]
SHAPES2 = [(a, b) for a in 'sfp' for b in 'sfp' if (a, b) != ('s', 's')]
SHAPES3 = [('f', 's', 'p'), ('f', 'f', 's'), ('s', 'f', 's'), ('p', 's', 'f'), ('f', 's', 'f'), ('f', 'p', 's')]


def shape_tokens(shape, rng=None, spaces=False):
    """A token list of the given shape; deterministic words without rng."""
    out = []
    for k, c in enumerate(shape):
        if c == 's':
            if rng is None:
                w = '_id' if k else 'v'
            else:
                w = au.rand_word(rng, WORD + (' ' if spaces else ''), 1, 4)
                if spaces:
                    w = w.strip() or 'w'
            out.append(['s', w])
        elif c == 'f':
            out.append(['f', (k + 1) if rng is None else rng.randint(0, 9), ''])
        else:
            out.append(['f', (k + 1) if rng is None else rng.randint(0, 9),
                        'ph' if rng is None else au.rand_word(rng, PH, 1, 3)])
    return out


def shape_bucket(tokens):
    return ''.join('s' if t[0] == 's' else ('p' if t[2] else 'f') for t in tokens)


# ---------------------------------------------------------------- trees of vocabulary elements
def node(name, mentions=(), children=()):
    return {'name': name, 'mentions': list(mentions), 'children': list(children)}


def mentions_text(ms):
    """Written form: shorthands as they are, runs of [..] mentions share one bracket pair."""
    out = ''
    run = []
    for m in ms:
        if m['form'] == 'set':
            run.append(m['text'])
        else:
            if run:
                out += '[%s]' % ' '.join(run)
                run = []
            out += m['text']
    if run:
        out += '[%s]' % ' '.join(run)
    return out


def render(nodes):
    parts = []
    for k, n in enumerate(nodes):
        s = n['name'] + mentions_text(n['mentions'])
        if n['children']:
            s += '>' + render(n['children'])
            if k + 1 < len(nodes):
                s = '(%s)' % s          # `a>b+c` would make c a child of a
        parts.append(s)
    return '+'.join(parts)


def has_control(n):
    return any(c['name'] in CONTROLS or has_control(c) for c in n['children'])


def flatten(nodes, reverse, in_label=False, out=None):
    """Document order: [tag, snippet mentions + written mentions (written first under reverse), context]."""
    if out is None:
        out = []
    for n in nodes:
        sn = snippet_mentions(n['name'])
        ms = (n['mentions'] + sn) if reverse else (sn + n['mentions'])
        flag = ''
        if n['name'] == 'label' and has_control(n):
            flag = 'label-with-control'
        elif n['name'] in CONTROLS and in_label:
            flag = 'control-in-label'
        out.append([n['name'], copy.deepcopy(ms), flag])
        flatten(n['children'], reverse, in_label or n['name'] == 'label', out)
    return out


# ---------------------------------------------------------------- the oracle
def element_expect(ms, opts, flag, marked):
    """[(status, (name, delimiter, value, exact))] with status 'fixed' | 'float' | 'optional'."""
    ms2 = []
    for m in ms:
        m2 = dict(m)
        if m.get('tokens') is not None:
            m2['value'] = tokens_shown(m['tokens'], marked)
        ms2.append(m2)
    reverse = bool(opts.get('output.reverseAttributes'))
    special = {'label-with-control': 'for', 'control-in-label': 'id'}.get(flag)
    out = []
    for a in au.merge_spec(ms2, reverse):
        r = au.attr_out_spec(a, opts)
        status = 'fixed'
        if special and a['name'] == special:
            group = [m for m in ms if m['name'] == special]
            winner = group[0] if reverse else group[-1]
            if emptyish(winner):
                status = 'optional'
            elif flag == 'control-in-label' and any(emptyish(g) for g in group):
                status = 'float'
            if status != 'fixed' and r is None:
                r = au.attr_out_spec(dict(a, implied=False), opts)
        if r is None:
            continue
        if not r[3] and isinstance(r[2], str) and not r[2].split():
            # class mentions that are all empty: only name and delimiter are claimed, not the spacing
            r = (r[0], r[1], ('unclaimed',), False)
        if marked and r[2] == TAB:
            r = (r[0], r[1], ('tabstop',), r[3])
        if not marked and r[2] == ('tabstop',):
            r = (r[0], r[1], '', r[3])
        out.append((status, r))
    return out


def compare_expect(exp, got):
    got = list(got)
    fixed = []
    for status, r in exp:
        if status == 'fixed':
            fixed.append(r)
            continue
        at = [i for i, g in enumerate(got) if g[0] == r[0]]
        if status == 'float':
            if not at:
                return 'attribute %r written with the non-empty value %r is missing, output has %r' % (r[0], r[2], got)
            g = got.pop(at[0])
            if g[2] != r[2]:
                return 'expected attribute %r with value %r, output has %r' % (r[0], r[2], g)
        elif at:
            got.pop(at[0])
    if len(fixed) != len(got):
        return 'expected %d attributes %r, output has %d: %r' % (len(fixed), [e[:3] for e in fixed], len(got), got)

    def words(v):
        return [TAB] if isinstance(v, tuple) else v.split()
    for e, g in zip(fixed, got):
        if e[3]:
            if tuple(e[:3]) != tuple(g):
                return 'expected attribute %r, output has %r' % (e[:3], g)
        elif e[0] != g[0] or e[1] != g[1]:
            return 'expected attribute %r, output has %r' % (e[:2], g)
        elif e[2] != ('unclaimed',) and words(e[2]) != words(g[2]):
            # an empty class mention among others: the class words are claimed, not the spacing
            return 'expected class words %r, output has %r' % (words(e[2]), g[2])
    return None


def plain_claimed(ms, opts):
    """The default-field output of an element is judged unless a boolean / implied mention is involved (a value that
    prints as nothing is then indistinguishable from an omitted one)."""
    booleans = set(x.lower() for x in (opts.get('output.booleanAttributes') or []))
    return not any(m['boolean'] or m['implied'] or (m['name'] or '').lower() in booleans for m in ms)


def check_vocab(abbr, cfg, expected, impl_expand, resolved_options):
    """The property oracle on the implementation: (why or None, impl_result_plain)."""
    plain = impl_expand(abbr, cfg)
    if plain[0] != 'ok':
        return 'expand raised %r' % (plain,), plain
    c2 = copy.deepcopy(cfg)
    c2['options'] = dict(c2.get('options') or {})
    c2['options']['output.field'] = plain_marker
    marked = impl_expand(abbr, c2)
    if marked[0] != 'ok':
        return 'expand with a field callback raised %r' % (marked,), plain
    opts = resolved_options(cfg)
    for label, out, is_marked in (('output.field marked', marked[1], True), ('default output.field', plain[1], False)):
        tags = au.parse_tags(out)
        if tags is None:
            return '%s: output has a malformed tag head: %r' % (label, out[:200]), plain
        if [t for t, _ in tags] != [e[0] for e in expected]:
            return '%s: tags %r, expected %r' % (label, [t for t, _ in tags], [e[0] for e in expected]), plain
        for (tag, got), (_, ms, flag) in zip(tags, expected):
            if not is_marked and not plain_claimed(ms, opts):
                continue
            bad = compare_expect(element_expect(ms, opts, flag, is_marked), got)
            if bad:
                return '%s: <%s>: %s' % (label, tag, bad), plain
    return None, plain


# ---------------------------------------------------------------- generators
def sweep_cases():
    """Every token shape of up to two tokens (and six of three) as the value of every attribute name the element's
    snippet or the label rule knows, on the vocabulary elements, in every position: alone, child / grandchild /
    sibling of a label or a div, and (for label) with a control child / grandchild / sibling or none.
    Yields (abbr, cfg, expected)."""
    out = []
    targets = ['label', 'input', 'textarea', 'select', 'a', 'div']
    for t in targets:
        names = []
        for nm in [n for n, _ in VOCAB[t][0]] + ['for', 'id']:
            if nm not in names:
                names.append(nm)
        for nm in names:
            for k, shape in enumerate(SHAPES1 + SHAPES2 + SHAPES3):
                toks = shape_tokens(shape)
                for vt in (('raw', 'q2') if k % 2 else ('raw', 'expr') if k % 3 == 0 else ('raw',)):
                    m = token_mention(nm, toks, vt)
                    other = au.mention('title', 't', 'raw', text='title=t')
                    tn = node(t, [m, other] if k % 2 else [m])
                    if t == 'label':
                        trees = [[tn],
                                 [dict(tn, children=[node('input')])],
                                 [dict(tn, children=[node('span', [], [node('textarea')])])],
                                 [dict(tn, children=[node('span')])],
                                 [tn, node('input')]]
                    else:
                        trees = [[tn],
                                 [node('label', [], [tn])],
                                 [node('label', [], [node('span', [], [tn])])],
                                 [node('label'), tn],
                                 [node('div', [], [tn])]]
                    for tree in trees:
                        for rev in ((False, True) if t in ('label', 'input', 'textarea') else (False,)):
                            cfg = {'options': {'output.reverseAttributes': True}} if rev else {}
                            out.append((render(tree), cfg, flatten(tree, rev)))
    return out


def rand_value_mention(rng, name):
    k = rng.random()
    if k < 0.12:
        return au.mention(name, None, 'raw', text=name)
    if k < 0.17:
        return au.mention(name, None, 'raw', text=name + '=')
    if k < 0.22:
        q = rng.choice('\'"')
        return au.mention(name, '', 'q1' if q == "'" else 'q2', text='%s=%s%s' % (name, q, q))
    if k < 0.26:
        return au.mention(name, '', 'expr', text=name + '={}')
    if k < 0.31:
        return au.mention(name, None, 'raw', implied=True, text='!' + name)
    if k < 0.45:
        v = au.rand_word(rng, WORD)
        return au.mention(name, v, 'raw', text='%s=%s' % (name, v))
    vt = rng.choice(['raw', 'raw', 'q1', 'q2', 'q2', 'expr'])
    shape = rng.choice(SHAPES1 + SHAPES2 + SHAPES2 + SHAPES3)
    if rng.random() < 0.15:
        shape = tuple(rng.choice('sfp') for _ in range(rng.randint(1, 4)))
        shape = tuple(c for k, c in enumerate(shape) if not (c == 's' and k and shape[k - 1] == 's'))
    return token_mention(name, shape_tokens(shape, rng, spaces=vt in ('q1', 'q2')), vt,
                         implied=rng.random() < 0.05)


def rand_node_mentions(rng, tag):
    own = [n for n, _ in VOCAB[tag][0]]
    pool = own + own + ['for', 'id', 'id', 'for'] + VNAMES
    ms = []
    for _ in range(rng.choice([0, 1, 1, 2, 2, 3, 4])):
        k = rng.random()
        if k < 0.12:
            v = au.rand_word(rng, WORD)
            ms.append(au.mention('id', v, 'raw', text='#' + v, form='id'))
        elif k < 0.27:
            v = au.rand_word(rng, WORD)
            ms.append(au.mention('class', v, 'raw', text='.' + v, form='class'))
        else:
            ms.append(rand_value_mention(rng, rng.choice(pool)))
    return ms


def rand_tree(rng):
    names = list(VOCAB)
    boosted = ['label', 'label', 'input', 'input', 'textarea', 'textarea', 'select', 'a']

    def pick(void_ok=True):
        while True:
            nm = rng.choice(boosted if rng.random() < 0.55 else names)
            if void_ok or not VOCAB[nm][1]:
                return nm

    def leaf():
        nm = pick()
        return node(nm, rand_node_mentions(rng, nm))

    def inner(children):
        nm = pick(void_ok=False)
        return node(nm, rand_node_mentions(rng, nm), children)
    shape = rng.choice([0, 1, 1, 1, 2, 2, 3, 4, 5, 6])
    if shape == 0:
        return [leaf()]
    if shape == 1:
        return [inner([leaf()])]
    if shape == 2:
        return [inner([inner([leaf()])])]
    if shape == 3:
        return [leaf() if rng.random() < 0.5 else inner([]), leaf()]
    if shape == 4:
        return [inner([leaf(), leaf()])]
    if shape == 5:
        return [inner([leaf()]), leaf()]            # a group followed by a sibling
    return [inner([inner([leaf()]), leaf()])]


def rand_case(rng, rand_options):
    syntax = rng.choice(['html', 'html', 'html', 'xml', 'jsx', 'vue'])
    opts = rand_options(rng, syntax)
    for k in ('output.booleanAttributes', 'markup.valuePrefix'):
        opts.pop(k, None)
    cfg = {'syntax': syntax, 'options': opts} if syntax != 'html' or rng.random() < 0.5 else {'options': opts}
    tree = rand_tree(rng)
    return render(tree), cfg, flatten(tree, bool(opts.get('output.reverseAttributes')))


def cover(ctx, expected):
    for tag, ms, flag in expected:
        ctx.cover('C03:vocab:element:%s' % tag)
        if flag:
            ctx.cover('C03:vocab:%s' % flag)
        for m in ms:
            if m['form'] != 'snippet' and m.get('tokens') is not None:
                ctx.cover('C03:vocab:value-shape:%s' % shape_bucket(m['tokens'])[:3])
                if flag and m['name'] == {'label-with-control': 'for', 'control-in-label': 'id'}[flag]:
                    ctx.cover('C03:vocab:%s:%s-value:%s' % (flag, m['name'], 'empty' if emptyish(m) else 'non-empty'))
