"""C12 only: two input classes the statement quantifies over ("all abbreviations of the documented grammar") that
the shared statement generator of format_util does not produce at level 'c12' / 'depth'.

1. VALUES WITH FIELDS.  A text value (and an attribute value) may contain fields `${n}` / `${n:placeholder}` at any
   place: first, last, in the middle, several in a row, directly after one another.  On a node that has children the
   FIRST field of the text value is the child slot (the children are written there, the rest of the value after
   them), whatever follows the slot: plain text, blanks, another field, nothing.  Hosts: elements and bare text nodes
   `{...}`, with and without children.  The value may sit inside a pair of brackets / tags / comment marks.
   The texts are composed from pieces, so every neighbourhood of a field (string|field|end on either side) occurs.

2. LETTER CASE OF ELEMENT NAMES.  Element names are case-sensitive (XML, JSX components, `HTML>BODY` written in
   capitals); the list options of the statement (output.formatSkip, output.formatForce) name elements by their exact
   name.  So `Html`, `HTML`, `Section` are NOT the entries `html` / `section`: an upper- or mixed-case name whose
   lower-case form is an entry of formatSkip (default ['html'] or an explicit list) is not exempted, and the other way
   round (element `section`, entry `Section`).  Names are drawn with every case shape (lower, UPPER, Capitalised,
   miXed) over the plain names, the names the documented defaults mention (html, body, head) and inline names.

Nothing here looks at the library's tables; the names and defaults are the documented ones (see c12_opts.py).
"""
import re

import abbr_gen as g
import format_util as fu
import c12_opts as co

# ---------------------------------------------------------------- 1. values with fields
FIELDS_EMPTY = ['${0}', '${1}', '${2}', '${3}']
FIELDS_PH = ['${1:note}', '${2:ph}', '${0:end}', '${3:a b}', '${1:N1}', '${2:two}']
STR_PIECES = ['t', 'x y', ' lead', 'trail ', ' mid ', ':', 'T1', 'some text', ' ']
STR_PIECES_ML = ['a\nb', 'one\r\ntwo ']
WRAPPERS = [('', ''), ('', ''), ('', ''), ('[', ']'), ('(', ')'), ('<b>', '</b>'), ('<div>', '</div>'), ('<!--', '-->'),
            ('<!-- ', ' -->'), ('<em class="k">', '</em> tail')]


def value_shapes(max_len):
    """Every sequence of 1..max_len pieces over S (plain string), E (field without placeholder), P (field with
    placeholder) that contains a field and has no two strings in a row (they would be one string)."""
    out = []

    def rec(prefix):
        if prefix and any(c in 'EP' for c in prefix):
            out.append(prefix)
        if len(prefix) == max_len:
            return
        for c in 'SEP':
            if c == 'S' and prefix.endswith('S'):
                continue
            rec(prefix + c)
    rec('')
    return out


def fill_shape(shape, pick, multiline=False):
    """Text for a shape; `pick(list)` chooses.  Field indices are whatever the pieces say (repeats allowed)."""
    parts = []
    for c in shape:
        if c == 'S':
            parts.append(pick(STR_PIECES_ML if multiline and pick([0, 0, 1]) else STR_PIECES))
        elif c == 'E':
            parts.append(pick(FIELDS_EMPTY))
        else:
            parts.append(pick(FIELDS_PH))
    return ''.join(parts)


def rand_field_value(rng, multiline_ok=True):
    n = rng.choice([1, 2, 2, 3, 3, 4, 5])
    shape = ''
    while not any(c in 'EP' for c in shape):
        shape = ''
        for _ in range(n):
            c = rng.choice('SEPP' if not shape.endswith('S') else 'EPP')
            shape += c
    pre, post = rng.choice(WRAPPERS)
    return pre + fill_shape(shape, rng.choice, multiline_ok and rng.random() < 0.15) + post


def text_node(text, repeat=None):
    return g.El(name=None, text=text, repeat=repeat)


def put_field_values(rng, stmt, p_el=0.45, p_textnode=0.2, p_attr=0.1):
    """Gives elements of the statement (in place) text values with fields, turns some elements into bare text nodes
    with such a value -- those followed by `>` keep their children -- and puts fields into some attribute values."""
    n = 0
    for k, (unit, op) in enumerate(stmt):
        if isinstance(unit, g.Group):
            n += put_field_values(rng, unit.items, p_el, p_textnode, p_attr)
            continue
        r = rng.random()
        if r < p_textnode:
            stmt[k] = (text_node(rand_field_value(rng), unit.repeat), op)
            n += 1
        elif r < p_textnode + p_el:
            unit.text = rand_field_value(rng)
            unit.self_close = False
            n += 1
        if rng.random() < p_attr and stmt[k][0].name:
            u = stmt[k][0]
            u.attrs = list(u.attrs) + [(rng.choice(['title', 'data-f']), rng.choice(fu.FIELD_ATTR_VALUES[:4]), '"')]
            n += 1
    return n


def rand_field_abbr(rng):
    """Statement of the 'c12' level with field values put in; at least one value with a field has children in most
    draws (the first unit is followed by `>` in half of the statements rand_stmt builds)."""
    for _ in range(20):
        st = fu.rand_abbr(rng, 'c12', size=rng.randint(2, 7))
        if put_field_values(rng, st):
            return g.render(st)
    return '{${0}${1:x}}>p'


# children that do / do not put the following text on a new line
CHILD_SHAPES = ['p', 'p*2', 'span', 'em+b', 'div>p', 'section+p', 'ul>li*2', 'span>div', 'p{x}', '{t}+p', 'b*3']
HOSTS = ['{%s}>%s', 'div>{%s}>%s', 'p{%s}>%s', 'div>section.c{%s}>%s', '{%s}*2>%s', 'ul>li*2>{%s}>%s']
SWEEP_PAIRS = [
    ({'output.format': False}, {}),
    ({'output.inlineBreak': 0, 'output.formatLeafNode': True, 'output.indent': '  '}, {'output.format': False}),
    ({'output.inlineBreak': 1, 'output.newline': '\r\n', 'output.baseIndent': '  '}, {'output.inlineBreak': 0}),
    ({'output.formatForce': ['p', 'span']}, {'output.format': False, 'output.formatLeafNode': True}),
]


def field_value_sweep(max_len, stride=1):
    """Every value shape up to max_len pieces x a rotating choice of wrapper, host (element / text node, top level /
    nested / repeated), children shape and option pair.  Deterministic.  Yields (abbr, options_a, options_b)."""
    k = 0
    for shape in value_shapes(max_len):
        for rot in range(0, len(CHILD_SHAPES), stride):
            k += 1

            def pick(lst, _k=[k]):
                _k[0] = _k[0] * 7 + 3
                return lst[_k[0] % len(lst)]
            pre, post = WRAPPERS[(k * 3) % len(WRAPPERS)]
            text = pre + fill_shape(shape, pick) + post
            kids = CHILD_SHAPES[(rot + k) % len(CHILD_SHAPES)]
            host = HOSTS[k % len(HOSTS)]
            a, b = SWEEP_PAIRS[k % len(SWEEP_PAIRS)]
            yield host % (text, kids), dict(a), dict(b)


# ---------------------------------------------------------------- 2. letter case of element names
# inline element names of HTML (HTML 4.01 DTD %inline; as listed in the Emmet documentation for `inlineElements`)
SOME_INLINE = ['span', 'em', 'b', 'i', 'a', 'strong', 'q', 'u']


def case_shapes(name):
    """UPPER, Capitalised (every part), miXed -- all different from `name` when it has a letter to change."""
    up = name.upper()
    cap = re.sub(r'[A-Za-z]+', lambda m: m.group(0).capitalize(), name)
    mixed = ''.join(c.upper() if i % 2 else c for i, c in enumerate(name))
    out = []
    for v in (up, cap, mixed):
        if v != name and v not in out:
            out.append(v)
    return out


def shaped(name, k):
    v = case_shapes(name)
    return v[k % len(v)] if v else name


def cased(rng, name):
    v = case_shapes(name)
    return rng.choice(v) if v else name


def stmt_names(stmt, out=None):
    out = set() if out is None else out
    for unit, _ in stmt:
        if isinstance(unit, g.Group):
            stmt_names(unit.items, out)
        elif unit.name:
            out.add(unit.name)
    return out


def recase(rng, stmt, p=0.6):
    """Re-spells the element names of the statement (in place): each DISTINCT name keeps one spelling with
    probability 1-p or gets one case shape; with a small probability single occurrences differ."""
    spell = {}
    for unit, _ in stmt:
        if isinstance(unit, g.Group):
            recase(rng, unit.items, p)
        elif unit.name:
            if unit.name not in spell or rng.random() < 0.15:
                spell[unit.name] = cased(rng, unit.name) if rng.random() < p else unit.name
            unit.name = spell[unit.name]


def rand_cased_stmt(rng, level):
    names = g.safe_names()
    names = names + co.DEFAULT_LISTED_NAMES * max(1, len(names) // 6)
    if level != 'depth':
        names = names + fu.SNIPPET_NAMES[:4]
    n = rng.randint(2, 8)
    st = g.rand_stmt(rng, names, n, max_depth=3, rep_max=3, decorate=fu.decorator(rng, level))
    recase(rng, st)
    k = rng.random()
    if k < 0.3:
        # the usual document skeleton, written in some case shape
        head = rng.choice([['html'], ['html', 'body'], ['body'], ['div', 'html'], ['section', 'html', 'body']])
        shape = rng.randrange(3)
        pre = [(g.El(name=(shaped(h, shape) if rng.random() < 0.8 else h)), '>') for h in head]
        st = pre + st
    return st


def near_miss_list(rng, names):
    """A list for formatSkip / formatForce none of whose entries IS a name of `names`, most of which EQUAL one
    ignoring letter case (lower-case form of a cased name, a cased form of a lower-case name)."""
    names = sorted(names)
    cand = []
    for nm in names:
        for v in [nm.lower()] + case_shapes(nm):
            if v not in names and v not in cand:
                cand.append(v)
    if not cand:
        return rng.sample(co.ABSENT_NAMES, 1)
    out = rng.sample(cand, min(len(cand), rng.randint(1, 3)))
    if rng.random() < 0.3:
        out.append(rng.choice(co.ABSENT_NAMES))
    return out


CASE_SKELETONS = ['%(a)s>%(b)s>%(c)s', 'div>%(a)s>%(b)s>p', '%(a)s>%(b)s+%(c)s>p*2', '%(a)s>p+%(b)s>span', '%(a)s#i>%(b)s.c>%(c)s{t}',
                  'ul>li>%(a)s>%(b)s', '%(a)s>{t}+%(b)s>div']
CASE_TRIPLES = [('html', 'body', 'p'), ('html', 'head', 'body'), ('section', 'article', 'p'), ('div', 'span', 'em'),
                ('body', 'div', 'ul'), ('table', 'tr', 'td')]


def case_sweep():
    """Skeletons x name triples x case shapes x formatSkip given as: unset (documented default ['html']), the
    lower-case forms of the names, the names in another case shape.  Deterministic.
    Yields (abbr, names, formatSkip or None)."""
    k = 0
    for sk in CASE_SKELETONS:
        for tr in CASE_TRIPLES:
            for shape in range(3):
                k += 1
                nm = [shaped(x, shape) if (k + j) % 4 else x for j, x in enumerate(tr)]
                abbr = sk % {'a': nm[0], 'b': nm[1], 'c': nm[2]}
                present = set(re.findall(r'[A-Za-z][A-Za-z0-9:\-]*', abbr))
                lows = [x.lower() for x in nm if x.lower() not in present]
                others = [v for x in nm for v in case_shapes(x)[:2] if v not in present]
                skip = [None, lows or None, others[:2] or None][k % 3]
                yield abbr, present, skip


# ---------------------------------------------------------------- the premise "no element exempted through formatSkip"
ABBR_WORD_RE = re.compile(r"[A-Za-z!][A-Za-z0-9:!\-]*")


def exempted_by_format_skip(abbr, out, opts):
    """Is some element of the expansion exempted through output.formatSkip?  An element is exempted when its name IS
    an entry of the list in force.  Read conservatively from both ends: a word of the abbreviation that is an entry
    (element names of the abbreviation; snippets resolve to other names, so also:) or an element name of the output
    that is an entry -- compared ignoring case when output.tagCase re-spells the names.  Over-approximates (a class
    name or a word of a text equal to an entry also counts): then the statement's second sentence is not applied."""
    skip = [s for s in (opts.get('output.formatSkip') or []) if isinstance(s, str)]
    if not skip:
        return False
    words = set(ABBR_WORD_RE.findall(abbr))
    if any(s in words for s in skip):
        return True
    recased = bool(opts.get('output.tagCase'))
    for t, _ in fu.scan(out):
        if t[0] == 'open':
            if t[1] in skip or (recased and t[1].lower() in [s.lower() for s in skip]):
                return True
    return False
