"""C12 only: two input classes the statement quantifies over ("all abbreviations of the documented grammar") that
the shared statement generator of format_util does not produce at level 'c12' / 'depth'.

1. VALUES WITH FIELDS.  A text value (and an attribute value) may contain fields `${n}` / `${n:placeholder}` at any
   place: first, last, in the middle, several in a row, directly after one another.  On a node that has children the
   FIRST field of the text value is the child slot (the children are written there, the rest of the value after
   them), whatever follows the slot: plain text, blanks, another field, nothing.  Hosts: elements and bare text nodes
   `{...}`, with and without children.  The value may sit inside a pair of brackets / tags / comment marks.
   The texts are composed from pieces, so every neighbourhood of a field (string|field|end on either side) occurs.

2. LETTER CASE OF ELEMENT NAMES.  Element names are case-sensitive (XML, JSX components, `HTML>BODY` written in
   capitals); the list options of the statement (output.formatSkip, output.formatForce) name elements by their exact
   name.  So `Html`, `HTML`, `Section` are NOT the entries `html` / `section`: an upper- or mixed-case name whose
   lower-case form is an entry of formatSkip (default ['html'] or an explicit list) is not exempted, and the other way
   round (element `section`, entry `Section`).  Names are drawn with every case shape (lower, UPPER, Capitalised,
   miXed) over the plain names, the names the documented defaults mention (html, body, head) and inline names.

3. LINE SEPARATORS.  A text is "multi-line" whatever its line ends are: LF (Unix), CR LF (Windows) and the bare CR of
   old Mac files (what an editor hands over when such a file is wrapped) -- alone, mixed in one text, doubled (an
   empty line), leading and trailing.  Every one of them ends a line of the output (the output then uses the
   configured output.newline), so every continuation line is subject to the second sentence of the statement.  Hosts:
   the text `{...}` of an element (block / inline, with and without children), a bare text node, a quoted attribute
   value, and the text handed over for wrapping (`text` of the config: one string with line ends, a list of lines,
   a list whose items have line ends themselves).

4. SHORTHAND ATTRIBUTES IN EVERY MULTIPLICITY AND USER ATTRIBUTE MAPS.  `.c` and `..c` (the "multiple" shorthand:
   jsx writes styleName={styles.c}, vue :class), `#i`, several of them on one element, names that are / are not
   property keys (`x-y` -> styles['x-y']); plus the non-cosmetic options that re-spell attributes, given by the user:
   markup.attributes and markup.valuePrefix with plain and starred (`class*`) keys, in every syntax.

5. ONE PARSED TREE, MANY RENDERINGS (a call sequence, see c12.py: tree_reuse_sequences).  emmet.markup.parse gives
   the tree, emmet.markup.stringify renders it; an editor that previews an abbreviation under several option sets
   parses once.  The renderings of one tree under option sets that differ in cosmetic options only must carry the
   same content -- the first sentence of the statement for the two-step route.

6. EMPTY VALUES AND ABBREVIATIONS CUT SHORT (see the section at the end of this file): `{}`, `p{}`, `[title=""]` in
   every position, and every prefix of an abbreviation as an as-you-type expansion sees it (`div>{`, `ul>li+`).

Nothing here looks at the library's tables; the names and defaults are the documented ones (see c12_opts.py).
"""
import re

import abbr_gen as g
import format_util as fu
import c12_opts as co

# ---------------------------------------------------------------- 1. values with fields
FIELDS_EMPTY = ['${0}', '${1}', '${2}', '${3}']
FIELDS_PH = ['${1:note}', '${2:ph}', '${0:end}', '${3:a b}', '${1:N1}', '${2:two}']
STR_PIECES = ['t', 'x y', ' lead', 'trail ', ' mid ', ':', 'T1', 'some text', ' ']
STR_PIECES_ML = ['a\nb', 'one\r\ntwo ']
WRAPPERS = [('', ''), ('', ''), ('', ''), ('[', ']'), ('(', ')'), ('<b>', '</b>'), ('<div>', '</div>'), ('<!--', '-->'),
            ('<!-- ', ' -->'), ('<em class="k">', '</em> tail')]


def value_shapes(max_len):
    """Every sequence of 1..max_len pieces over S (plain string), E (field without placeholder), P (field with
    placeholder) that contains a field and has no two strings in a row (they would be one string)."""
    out = []

    def rec(prefix):
        if prefix and any(c in 'EP' for c in prefix):
            out.append(prefix)
        if len(prefix) == max_len:
            return
        for c in 'SEP':
            if c == 'S' and prefix.endswith('S'):
                continue
            rec(prefix + c)
    rec('')
    return out


def fill_shape(shape, pick, multiline=False):
    """Text for a shape; `pick(list)` chooses.  Field indices are whatever the pieces say (repeats allowed)."""
    parts = []
    for c in shape:
        if c == 'S':
            parts.append(pick(STR_PIECES_ML if multiline and pick([0, 0, 1]) else STR_PIECES))
        elif c == 'E':
            parts.append(pick(FIELDS_EMPTY))
        else:
            parts.append(pick(FIELDS_PH))
    return ''.join(parts)


def rand_field_value(rng, multiline_ok=True):
    n = rng.choice([1, 2, 2, 3, 3, 4, 5])
    shape = ''
    while not any(c in 'EP' for c in shape):
        shape = ''
        for _ in range(n):
            c = rng.choice('SEPP' if not shape.endswith('S') else 'EPP')
            shape += c
    pre, post = rng.choice(WRAPPERS)
    return pre + fill_shape(shape, rng.choice, multiline_ok and rng.random() < 0.15) + post


def text_node(text, repeat=None):
    return g.El(name=None, text=text, repeat=repeat)


def put_field_values(rng, stmt, p_el=0.45, p_textnode=0.2, p_attr=0.1):
    """Gives elements of the statement (in place) text values with fields, turns some elements into bare text nodes
    with such a value -- those followed by `>` keep their children -- and puts fields into some attribute values."""
    n = 0
    for k, (unit, op) in enumerate(stmt):
        if isinstance(unit, g.Group):
            n += put_field_values(rng, unit.items, p_el, p_textnode, p_attr)
            continue
        r = rng.random()
        if r < p_textnode:
            stmt[k] = (text_node(rand_field_value(rng), unit.repeat), op)
            n += 1
        elif r < p_textnode + p_el:
            unit.text = rand_field_value(rng)
            unit.self_close = False
            n += 1
        if rng.random() < p_attr and stmt[k][0].name:
            u = stmt[k][0]
            u.attrs = list(u.attrs) + [(rng.choice(['title', 'data-f']), rng.choice(fu.FIELD_ATTR_VALUES[:4]), '"')]
            n += 1
    return n


def rand_field_abbr(rng):
    """Statement of the 'c12' level with field values put in; at least one value with a field has children in most
    draws (the first unit is followed by `>` in half of the statements rand_stmt builds)."""
    for _ in range(20):
        st = fu.rand_abbr(rng, 'c12', size=rng.randint(2, 7))
        if put_field_values(rng, st):
            return g.render(st)
    return '{${0}${1:x}}>p'


# children that do / do not put the following text on a new line
CHILD_SHAPES = ['p', 'p*2', 'span', 'em+b', 'div>p', 'section+p', 'ul>li*2', 'span>div', 'p{x}', '{t}+p', 'b*3']
HOSTS = ['{%s}>%s', 'div>{%s}>%s', 'p{%s}>%s', 'div>section.c{%s}>%s', '{%s}*2>%s', 'ul>li*2>{%s}>%s']
SWEEP_PAIRS = [
    ({'output.format': False}, {}),
    ({'output.inlineBreak': 0, 'output.formatLeafNode': True, 'output.indent': '  '}, {'output.format': False}),
    ({'output.inlineBreak': 1, 'output.newline': '\r\n', 'output.baseIndent': '  '}, {'output.inlineBreak': 0}),
    ({'output.formatForce': ['p', 'span']}, {'output.format': False, 'output.formatLeafNode': True}),
]


def field_value_sweep(max_len, stride=1):
    """Every value shape up to max_len pieces x a rotating choice of wrapper, host (element / text node, top level /
    nested / repeated), children shape and option pair.  Deterministic.  Yields (abbr, options_a, options_b)."""
    k = 0
    for shape in value_shapes(max_len):
        for rot in range(0, len(CHILD_SHAPES), stride):
            k += 1

            def pick(lst, _k=[k]):
                _k[0] = _k[0] * 7 + 3
                return lst[_k[0] % len(lst)]
            pre, post = WRAPPERS[(k * 3) % len(WRAPPERS)]
            text = pre + fill_shape(shape, pick) + post
            kids = CHILD_SHAPES[(rot + k) % len(CHILD_SHAPES)]
            host = HOSTS[k % len(HOSTS)]
            a, b = SWEEP_PAIRS[k % len(SWEEP_PAIRS)]
            yield host % (text, kids), dict(a), dict(b)


# ---------------------------------------------------------------- 2. letter case of element names
# inline element names of HTML (HTML 4.01 DTD %inline; as listed in the Emmet documentation for `inlineElements`)
SOME_INLINE = ['span', 'em', 'b', 'i', 'a', 'strong', 'q', 'u']


def case_shapes(name):
    """UPPER, Capitalised (every part), miXed -- all different from `name` when it has a letter to change."""
    up = name.upper()
    cap = re.sub(r'[A-Za-z]+', lambda m: m.group(0).capitalize(), name)
    mixed = ''.join(c.upper() if i % 2 else c for i, c in enumerate(name))
    out = []
    for v in (up, cap, mixed):
        if v != name and v not in out:
            out.append(v)
    return out


def shaped(name, k):
    v = case_shapes(name)
    return v[k % len(v)] if v else name


def cased(rng, name):
    v = case_shapes(name)
    return rng.choice(v) if v else name


def stmt_names(stmt, out=None):
    out = set() if out is None else out
    for unit, _ in stmt:
        if isinstance(unit, g.Group):
            stmt_names(unit.items, out)
        elif unit.name:
            out.add(unit.name)
    return out


def recase(rng, stmt, p=0.6):
    """Re-spells the element names of the statement (in place): each DISTINCT name keeps one spelling with
    probability 1-p or gets one case shape; with a small probability single occurrences differ."""
    spell = {}
    for unit, _ in stmt:
        if isinstance(unit, g.Group):
            recase(rng, unit.items, p)
        elif unit.name:
            if unit.name not in spell or rng.random() < 0.15:
                spell[unit.name] = cased(rng, unit.name) if rng.random() < p else unit.name
            unit.name = spell[unit.name]


def rand_cased_stmt(rng, level):
    names = g.safe_names()
    names = names + co.DEFAULT_LISTED_NAMES * max(1, len(names) // 6)
    if level != 'depth':
        names = names + fu.SNIPPET_NAMES[:4]
    n = rng.randint(2, 8)
    st = g.rand_stmt(rng, names, n, max_depth=3, rep_max=3, decorate=fu.decorator(rng, level))
    recase(rng, st)
    k = rng.random()
    if k < 0.3:
        # the usual document skeleton, written in some case shape
        head = rng.choice([['html'], ['html', 'body'], ['body'], ['div', 'html'], ['section', 'html', 'body']])
        shape = rng.randrange(3)
        pre = [(g.El(name=(shaped(h, shape) if rng.random() < 0.8 else h)), '>') for h in head]
        st = pre + st
    return st


def near_miss_list(rng, names):
    """A list for formatSkip / formatForce none of whose entries IS a name of `names`, most of which EQUAL one
    ignoring letter case (lower-case form of a cased name, a cased form of a lower-case name)."""
    names = sorted(names)
    cand = []
    for nm in names:
        for v in [nm.lower()] + case_shapes(nm):
            if v not in names and v not in cand:
                cand.append(v)
    if not cand:
        return rng.sample(co.ABSENT_NAMES, 1)
    out = rng.sample(cand, min(len(cand), rng.randint(1, 3)))
    if rng.random() < 0.3:
        out.append(rng.choice(co.ABSENT_NAMES))
    return out


CASE_SKELETONS = ['%(a)s>%(b)s>%(c)s', 'div>%(a)s>%(b)s>p', '%(a)s>%(b)s+%(c)s>p*2', '%(a)s>p+%(b)s>span', '%(a)s#i>%(b)s.c>%(c)s{t}',
                  'ul>li>%(a)s>%(b)s', '%(a)s>{t}+%(b)s>div']
CASE_TRIPLES = [('html', 'body', 'p'), ('html', 'head', 'body'), ('section', 'article', 'p'), ('div', 'span', 'em'),
                ('body', 'div', 'ul'), ('table', 'tr', 'td')]


def case_sweep():
    """Skeletons x name triples x case shapes x formatSkip given as: unset (documented default ['html']), the
    lower-case forms of the names, the names in another case shape.  Deterministic.
    Yields (abbr, names, formatSkip or None)."""
    k = 0
    for sk in CASE_SKELETONS:
        for tr in CASE_TRIPLES:
            for shape in range(3):
                k += 1
                nm = [shaped(x, shape) if (k + j) % 4 else x for j, x in enumerate(tr)]
                abbr = sk % {'a': nm[0], 'b': nm[1], 'c': nm[2]}
                present = set(re.findall(r'[A-Za-z][A-Za-z0-9:\-]*', abbr))
                lows = [x.lower() for x in nm if x.lower() not in present]
                others = [v for x in nm for v in case_shapes(x)[:2] if v not in present]
                skip = [None, lows or None, others[:2] or None][k % 3]
                yield abbr, present, skip


# ---------------------------------------------------------------- the premise "no element exempted through formatSkip"
ABBR_WORD_RE = re.compile(r"[A-Za-z!][A-Za-z0-9:!\-]*")


def exempted_by_format_skip(abbr, out, opts):
    """Is some element of the expansion exempted through output.formatSkip?  An element is exempted when its name IS
    an entry of the list in force.  Read conservatively from both ends: a word of the abbreviation that is an entry
    (element names of the abbreviation; snippets resolve to other names, so also:) or an element name of the output
    that is an entry -- compared ignoring case when output.tagCase re-spells the names.  Over-approximates (a class
    name or a word of a text equal to an entry also counts): then the statement's second sentence is not applied."""
    skip = [s for s in (opts.get('output.formatSkip') or []) if isinstance(s, str)]
    if not skip:
        return False
    words = set(ABBR_WORD_RE.findall(abbr))
    if any(s in words for s in skip):
        return True
    recased = bool(opts.get('output.tagCase'))
    for t, _ in fu.scan(out):
        if t[0] == 'open':
            if t[1] in skip or (recased and t[1].lower() in [s.lower() for s in skip]):
                return True
    return False


# ---------------------------------------------------------------- 3. line separators
LINE_SEPS = ['\n', '\r\n', '\r']
SEP_NAMES = {'\n': 'LF', '\r\n': 'CRLF', '\r': 'CR'}
LINE_WORDS = ['one', 'two', 'three', 'a b', 'x', 'l1', 'some words', 'T-2', 'end.']


def join_lines(lines, seps):
    """lines[0] seps[0] lines[1] seps[1] ... ; a separator beyond the last line is a trailing one."""
    out = []
    for k, ln in enumerate(lines):
        out.append(ln)
        if k < len(seps):
            out.append(seps[k])
    return ''.join(out)


def rand_lines_text(rng, sep=None):
    """2-4 lines of plain words (no '<', no leading blanks: readable by the depth oracle).  Each line end is drawn on
    its own unless `sep` fixes it, so mixed texts occur; sometimes an empty line, a leading or a trailing line end."""
    n = rng.randint(2, 4)
    lines = [rng.choice(LINE_WORDS) for _ in range(n)]
    seps = [sep or rng.choice(LINE_SEPS) for _ in range(n - 1)]
    r = rng.random()
    if r < 0.12:
        seps.append(sep or rng.choice(LINE_SEPS))                   # trailing line end
    elif r < 0.2:
        lines.insert(0, '')                                         # leading line end
        seps.insert(0, sep or rng.choice(LINE_SEPS))
    elif r < 0.3:
        k = rng.randrange(len(seps))
        seps[k] = seps[k] + (sep or rng.choice(['\n', '\r']))       # an empty line (LF LF, CR CR, LF CR, CRLF CR ...)
    return join_lines(lines, seps)


BREAK_RE = re.compile('\r\n|\r|\n')


def respell_breaks(rng, text):
    return BREAK_RE.sub(lambda m: rng.choice(LINE_SEPS), text)


def text_seps(text):
    """Names of the line ends a text has."""
    return sorted(set(SEP_NAMES[m.group(0)] for m in BREAK_RE.finditer(text)))


# Guarded sub-class (OFF): a line break inside a quoted ATTRIBUTE VALUE under the COSMETIC oracle.  On the unchanged
# library the formatter writes newline + baseIndent + indentation INSIDE the quotes (push_string treats every value
# alike), also with output.format off, so output.indent / output.baseIndent / output.newline change the attribute
# value itself: expand('div>p[data-m="one\ntwo"]{t}') has data-m="one\n\ttwo" by default and data-m="one\n      two"
# with indent '  ' + baseIndent '    '.  coq/props/C12.v lists "line breaks inside attribute values" as not covered.
# With the switch off such values are generated for the DEPTH check only (sweep hosts); switch it on to see the
# cosmetic failures.
LINE_BREAKS_IN_ATTRIBUTE_VALUES_COSMETIC = True     # listed finding C12:cosmetic-line-break-inside-attribute-value


def put_line_texts(rng, stmt, p_new=0.3, p_attr=None):
    """In place: every multi-line text of the statement gets its line ends re-drawn from LF / CRLF / CR, elements get
    new multi-line texts with probability p_new (some elements become bare text nodes), some a quoted multi-line
    attribute value.  Returns the number of multi-line values."""
    n = 0
    if p_attr is None:
        p_attr = 0.08 if LINE_BREAKS_IN_ATTRIBUTE_VALUES_COSMETIC else 0.0
    for k, (unit, op) in enumerate(stmt):
        if isinstance(unit, g.Group):
            n += put_line_texts(rng, unit.items, p_new, p_attr)
            continue
        if unit.text is not None and BREAK_RE.search(unit.text):
            unit.text = respell_breaks(rng, unit.text)
            n += 1
        elif rng.random() < p_new:
            t = rand_lines_text(rng)
            if rng.random() < 0.25:
                stmt[k] = (text_node(t, unit.repeat), op)
            else:
                unit.text = t
                unit.self_close = False
            n += 1
        u = stmt[k][0]
        if u.name and rng.random() < p_attr:
            u.attrs = list(u.attrs) + [(rng.choice(['title', 'data-m']), rand_lines_text(rng), '"')]
            n += 1
    return n


def rand_wrap_text(rng):
    """The `text` of the config (text to wrap): a string with line ends, a list of lines, a list whose items have
    line ends."""
    k = rng.random()
    if k < 0.5:
        return rand_lines_text(rng)
    if k < 0.75:
        return [rng.choice(LINE_WORDS) for _ in range(rng.randint(1, 4))]
    return [rand_lines_text(rng) if rng.random() < 0.6 else rng.choice(LINE_WORDS) for _ in range(rng.randint(1, 3))]


def rand_lines_stmt(rng, level):
    """Statement of the given level with multi-line values in every line-end spelling."""
    names = g.safe_names()
    if level != 'depth':
        names = names + fu.SNIPPET_NAMES[:4]
    for _ in range(20):
        st = g.rand_stmt(rng, names, rng.randint(1, 7), max_depth=3, rep_max=3, decorate=fu.decorator(rng, level))
        if put_line_texts(rng, st):
            return st
    return [(g.El(name='p', text='a\rb'), '')]


# (line-end spelling of a three-line text) x (host); %s is the text
SEP_SPELLINGS = [
    ('LF', 'one\ntwo\nthree'), ('CRLF', 'one\r\ntwo\r\nthree'), ('CR', 'one\rtwo\rthree'),
    ('LF+CR', 'one\ntwo\rthree'), ('CR+CRLF', 'one\rtwo\r\nthree'), ('CR CR (empty line)', 'one\r\rtwo'),
    ('LF CR (empty line)', 'one\n\rtwo'), ('trailing CR', 'one\rtwo\r'), ('leading CR', '\rone\rtwo'),
    ('trailing LF', 'one\ntwo\n'), ('CR only', 'one\r'),
]
SEP_HOSTS = ['p{%s}', 'div>p{%s}', 'section>div>p{%s}+p', 'div>{%s}+p', 'div>{%s}', 'ul>li*2>{%s}', 'div>p{%s}>section',
             'div>p{%s}>em', 'div>p+{%s}', '{%s}+p', '{%s}>p', 'div>a[title="%s"]', 'div>p[data-m="%s"]{t}', 'div>span{%s}',
             'table>tr>td{%s}*2', '(div>p{%s})*2']
WRAP_ABBRS = ['div>p', 'ul>li>em', 'ul>li*', 'div>p*', 'section>div>p+p', 'p', 'ul>li*>p', 'div>{x }']
SEP_OPTION_SETS = [
    {},
    {'output.indent': '  ', 'output.baseIndent': '    '},
    {'output.indent': '    ', 'output.inlineBreak': 1, 'output.formatForce': [], 'output.newline': '\r\n'},
    {'output.formatLeafNode': True, 'output.indent': '  '},
]


def line_separator_sweep():
    """Every line-end spelling x every host (inline text, text node, attribute value) and x the wrap-text route (one
    string; the list of its lines; a list with the string as one item), option sets and syntaxes rotating.
    Deterministic.  Yields (abbr, text-of-the-config or None, options, spelling name)."""
    k = 0
    for nm, text in SEP_SPELLINGS:
        for host in SEP_HOSTS:
            k += 1
            yield host % text, None, dict(SEP_OPTION_SETS[k % len(SEP_OPTION_SETS)]), nm
        for j, abbr in enumerate(WRAP_ABBRS):
            k += 1
            wrap = [text, BREAK_RE.split(text), [text, 'last']][(k + j) % 3]
            yield abbr, wrap, dict(SEP_OPTION_SETS[k % len(SEP_OPTION_SETS)]), nm


# ---------------------------------------------------------------- 4. shorthand attributes, user attribute maps
SHORT_CLASSES = ['foo', 'bar', 'c', 'item', 'x-y', 'a-b', 'k1', 'for', 'T']
# user-given maps of markup.attributes / markup.valuePrefix (documented options: "attribute name -> name to write" and
# "attribute name -> prefix of its value"; a key with `*` applies to the multiple shorthand `..c` / `##i`)
USER_ATTR_MAPS = [{'class': 'klass'}, {'class*': 'styleName'}, {'class': 'className', 'class*': ':class', 'id': 'key'},
                  {'title': 'data-title'}, {'id*': 'ref'}]
USER_PREFIX_MAPS = [{'class*': 'styles'}, {'class': 'css'}, {'class*': 'st', 'id': 'ids'}, {'class': 'a', 'class*': 'b'},
                    {'id*': 'refs'}, {'title': 't'}]


def put_shorthands(rng, stmt, p=0.6):
    """In place: elements get class / id shorthands in every multiplicity (`.c`, `..c`, `.a..b`, `..a..b`, `#i`,
    `##i`), rendered through El.classes / El.id (a class entry that starts with '.' renders as `..c`)."""
    n = 0
    for unit, _ in stmt:
        if isinstance(unit, g.Group):
            n += put_shorthands(rng, unit.items, p)
            continue
        if rng.random() >= p:
            continue
        cl = []
        for _k in range(rng.choice([1, 1, 1, 2, 2, 3])):
            c = rng.choice(SHORT_CLASSES)
            cl.append('.' + c if rng.random() < 0.55 else c)
        unit.classes = cl
        r = rng.random()
        if r < 0.15:
            unit.id = rng.choice(['i', 'main', 'x-1'])
        elif r < 0.25:
            unit.id = '#' + rng.choice(['i', 'main', 'x-1'])
        if rng.random() < 0.1 and unit.name and unit.name not in ('p',):
            unit.name = None            # `..c` alone: implicit name
        n += 1
    return n


def rand_shorthand_stmt(rng, level='c12'):
    names = g.safe_names()
    if level != 'depth':
        names = names + fu.SNIPPET_NAMES[:4]
    for _ in range(20):
        st = g.rand_stmt(rng, names, rng.randint(1, 6), max_depth=3, rep_max=3, decorate=fu.decorator(rng, level))
        if put_shorthands(rng, st):
            return st
    return [(g.El(name='div', classes=['.foo']), '')]


def rand_attr_maps(rng, syntax):
    """Non-cosmetic options that re-spell attributes: nothing (the documented preset of the syntax: jsx, vue have
    one), a user map of names, a user map of value prefixes, both."""
    o = {}
    r = rng.random()
    if syntax in ('jsx', 'vue') and r < 0.5:
        return o
    if r < 0.75 or rng.random() < 0.5:
        o['markup.valuePrefix'] = dict(rng.choice(USER_PREFIX_MAPS))
    if r >= 0.6:
        o['markup.attributes'] = dict(rng.choice(USER_ATTR_MAPS))
    return o


SHORTHAND_SKELETONS = ['%(a)s>%(b)s', '%(a)s>%(b)s*2>%(c)s', '%(a)s>%(b)s+%(c)s', '(%(a)s>%(b)s)*2', '%(a)s>%(b)s{t}', '%(a)s+%(b)s>%(c)s']
SHORTHAND_UNITS = ['div..%s', 'p.%s', 'span..%s..k', 'li.a..%s.c', '..%s', 'em##%s', 'section#i..%s', 'img..%s/', 'div..%s[title=v]']


def shorthand_sweep():
    """Skeletons x shorthand units (single / multiple class and id shorthands, mixed, with implicit name, on a
    self-closed element, next to a bracket attribute) x class names.  Deterministic.  Yields abbreviations."""
    k = 0
    for sk in SHORTHAND_SKELETONS:
        for j in range(len(SHORTHAND_UNITS)):
            k += 1
            u = [SHORTHAND_UNITS[(j + d * (k % 3 + 1)) % len(SHORTHAND_UNITS)] % SHORT_CLASSES[(k + d) % len(SHORT_CLASSES)] for d in range(3)]
            if '/' in u[0]:
                u[0], u[2] = u[2], u[0]
            if '/' in u[1] and ('%(c)s' in sk.split('%(b)s')[1][:3] or '{' in sk):
                u[1] = u[1].rstrip('/')
            yield sk % {'a': u[0], 'b': u[1], 'c': u[2]}


# ---------------------------------------------------------------- 6. empty values and abbreviations cut short
# EMPTY VALUES WRITTEN EXPLICITLY.  A closing delimiter may follow its opening one directly: the empty text node `{}`,
# the empty text of an element `p{}`, the empty attribute list `p[]`, the empty quoted attribute value `[title=""]`,
# the empty expression `[on={}]`, the empty group-like repeat `{}*2`.  An empty text node is a node like any other
# for the operators: only / first / last / middle child, top level, next to another text node, next to another empty
# one, inside a group, repeated, below an inline element, with children of its own.
# ABBREVIATIONS CUT SHORT (as-you-type).  An editor expands what the user has typed so far: every PREFIX of an
# abbreviation -- cut directly after an opening `{` `[` `(` (the unclosed forms are accepted by the parser), after an
# operator, inside a text, inside a name.  A prefix either fails to parse under every option set alike or expands
# under every option set with the same content.
# Nothing is special about these inputs in the statement: the formatting options stay cosmetic (in particular an
# expansion that succeeds with formatting off succeeds with formatting on, and the other way round) and every line
# of the formatted output -- also a line that holds nothing but the indentation of an empty text node -- starts with
# baseIndent plus one unit per open element.
EMPTY_UNITS = ['{}', 'p{}', 'span{}', 'p[]', 'p[title=""]', "a[title='']{}", 'p[on={}]', '{}*2', 'p{}*2', 'em{}/', '.c{}', '#i{}']
EMPTY_HOSTS = ['%s', 'div>%s', 'div>%s+p', 'div>p+%s', 'div>p+%s+span', 'p+%s', '%s+p', 'div>(%s)', 'div>(%s+p)', '(%s)+p',
               'ul>li*2>%s', 'div>{a}+%s', 'div>%s+{a}', 'div>%s+{}', 'span>%s', 'div>span>%s', 'div>%s>p', 'section>div>%s+p',
               'div>p>%s^%s', '(div>%s)*2', 'p{t}>%s', '{t}>%s', 'div>em+%s+b']
EMPTY_OPTION_SETS = [
    {},
    {'output.indent': '  ', 'output.baseIndent': '\t', 'output.newline': '\r\n'},
    {'output.formatLeafNode': True, 'output.inlineBreak': 1},
    {'output.inlineBreak': 0, 'output.formatForce': ['p', 'div']},
    {'output.indent': '    ', 'output.formatLeafNode': True},
]
# full abbreviations whose every prefix is expanded (deterministic part of the as-you-type class)
TYPED_ABBRS = ['div>{a}', 'ul>li+{t}', 'p+{x y}', 'div>p{a}+{b}', 'section>div>{}+p', 'ul>li*2>{i$}', 'div>(p+{t})*2',
               'div#i.c[title="x y"]>span{t}', 'p>a[href=x]{l}+em', 'table>tr>td{a\nb}', 'div>(header>{h})+{t}', '{a}+div>{b}',
               'nav>ul>li.item$*2>a{T $}', 'div>p[on={f}]+{z}', 'span>{a}+b', "p[title='q' data-e]>{t}^{u}"]


def empty_value_sweep():
    """(abbr, options of the formatted run): every empty unit in every host, option sets rotating."""
    k = 0
    for host in EMPTY_HOSTS:
        for unit in EMPTY_UNITS:
            yield host.replace('%s', unit), EMPTY_OPTION_SETS[k % len(EMPTY_OPTION_SETS)]
            k += 1


def prefixes(abbr):
    """Every proper non-empty prefix and the abbreviation itself."""
    return [abbr[:i] for i in range(1, len(abbr) + 1)]


def typed_prefix_sweep(stride=1):
    """(prefix, options of the formatted run) for every prefix of the TYPED_ABBRS; with a stride only every stride-th
    prefix that does NOT end in an opening delimiter or operator is kept (those that do are always kept)."""
    k = 0
    seen = set()
    for abbr in TYPED_ABBRS:
        for p in prefixes(abbr):
            k += 1
            if p in seen:
                continue
            if stride > 1 and p[-1] not in '{[(>+^*' and k % stride:
                continue
            seen.add(p)
            yield p, EMPTY_OPTION_SETS[k % len(EMPTY_OPTION_SETS)]


def put_empty_values(rng, stmt, p_textnode=0.2, p_text=0.15, p_attr=0.1, p_insert=0.15):
    """In place: some elements become empty text nodes `{}` (those followed by `>` keep their children), some get the
    empty text `{}`, some an empty quoted attribute value; an empty text node is inserted as a new sibling here and
    there.  Returns the number of empty values."""
    n = 0
    k = 0
    while k < len(stmt):
        unit, op = stmt[k]
        if isinstance(unit, g.Group):
            n += put_empty_values(rng, unit.items, p_textnode, p_text, p_attr, p_insert)
            k += 1
            continue
        r = rng.random()
        if r < p_textnode:
            stmt[k] = (text_node('', unit.repeat), op)
            n += 1
        elif r < p_textnode + p_text:
            unit.text = ''
            unit.self_close = False
            n += 1
        u = stmt[k][0]
        if u.name and rng.random() < p_attr:
            u.attrs = list(u.attrs) + [(rng.choice(['title', 'data-q']), '', rng.choice(['"', "'", '{']))]
            n += 1
        if rng.random() < p_insert and op != '>':
            # a new sibling after this unit: `x+{}` followed by what followed x
            stmt[k] = (stmt[k][0], '+')
            stmt.insert(k + 1, (text_node('', rng.choice([None, None, 2])), op))
            n += 1
            k += 1
        k += 1
    return n


def cut_short(rng, abbr):
    """A prefix of the abbreviation: in most draws cut directly after an opening delimiter or an operator (the
    positions an as-you-type expansion sees most often), else anywhere."""
    spots = [i + 1 for i, c in enumerate(abbr) if c in '{[(>+^']
    if spots and rng.random() < 0.7:
        return whole_tags_only(abbr[:rng.choice(spots)])
    return whole_tags_only(abbr[:rng.randint(1, len(abbr))])


def whole_tags_only(prefix):
    """A text that itself writes tags (`{<div>x</div>}`) is cut at its opening brace only: a partial tag left in a
    text (`{<d`, `{<div>x</di`) cannot be told from a real tag by the tag scanner the oracles read the output with."""
    stack = []          # (offset, is the brace of a field `${`)
    for i, c in enumerate(prefix):
        if c == '{':
            stack.append((i, prefix[i - 1:i] == '$'))
        elif c == '}' and stack:
            stack.pop()
    texts = [i for i, is_field in stack if not is_field]
    if texts and '<' in prefix[texts[0]:]:
        return prefix[:texts[0] + 1]
    return prefix


def rand_unfinished_stmt_abbr(rng, level):
    """Abbreviation of the given level with empty values put in; half of the draws are then cut short."""
    names = g.safe_names()
    if level != 'depth':
        names = names + fu.SNIPPET_NAMES[:4]
    abbr = None
    for _ in range(20):
        st = g.rand_stmt(rng, names, rng.randint(1, 7), max_depth=3, rep_max=3, decorate=fu.decorator(rng, level))
        if put_empty_values(rng, st):
            abbr = g.render(st)
            break
    if abbr is None:
        abbr = 'div>{}+p'
    if rng.random() < 0.5:
        abbr = cut_short(rng, abbr)
    return abbr


def empty_class_marks(abbr):
    """Names of the sub-classes an abbreviation of class 6 belongs to (for the coverage record)."""
    out = []
    if re.search(r'(^|[>+^(])\{\}', abbr):
        out.append('empty-text-node')
    if re.search(r'[\w\]]\{\}', abbr):
        out.append('empty-element-text')
    if re.search(r'=(""|\'\'|\{\})', abbr) or '[]' in abbr:
        out.append('empty-attribute-value-or-list')
    if abbr.endswith('{'):
        out.append('cut-after-open-brace')
    elif abbr.endswith('['):
        out.append('cut-after-open-bracket')
    elif abbr.endswith('('):
        out.append('cut-after-open-paren')
    elif abbr[-1:] in '>+^*':
        out.append('cut-after-operator')
    else:
        # unbalanced delimiters: cut inside a text / attribute list / group
        depth = {'{': 0, '[': 0, '(': 0}
        close = {'}': '{', ']': '[', ')': '('}
        for c in abbr:
            if c in depth:
                depth[c] += 1
            elif c in close:
                depth[close[c]] -= 1
        if any(v > 0 for v in depth.values()):
            out.append('cut-inside-open-delimiter')
    return out
