"""C07, stylesheet part -- expand() with type stylesheet fails only with its two parse errors.

`run_css(ctx)` is called by harness/props/c07.py; `replay_css(ctx, obj)` replays a replay file of component 'css'.

Two ties of the model:
  * exhaustive short strings: implementation expand() outcome class vs the extracted tokenizer+parser model (with the
    built-in table, which converts without error -- swept in coq/props/C07Css.v -- every parse error of expand comes
    from tokenizing/parsing the abbreviation);
  * full pipeline inside Coq (expand_css, with the PrimFloat scorer): corpus, short strings, random strings, mutations
    of valid abbreviations, under random option sets, scopes and user snippets.
The property oracle (outcome class of the real expand) runs on every case.
"""
import glob
import itertools
import json
import os

import common
import style_util as su
from style_util import Cfg

ALPHABET = list('at1#.-+()"\'$:!,{}@ %/A_0*[e\\=') + ['٣', '\n', 'é', '\x0c', '\u2028', '\r', '²', '①', '٫']
VALID = ['p10', 'm10-20', 'bd1-s#fc0', 'c#f.5!', 'p10+m10-20', 'trf-s(2, 3)', 'lg(to right, #0, #f00.5)', '@k-name10', 'pos:a',
         'bgc#f0', 'fz1.', 'p-10--20', 'm0-a', '!', 'p!', 'bxsh', 'gt', 'p10p', 'z10', 'opa.1', 'trf:rx', 'd:n', 'p${1}', 'p${1:foo}',
         'c#e7bc0b', 'animic', '--foo', 'p--foo:1', 'ff"Arial"', "cnt'x'", 'w100%', 'mt-.5e', 'anim-infinite', 'p1 2', 'bd(1)',
         'scale3d(1,2)', 'p10-', 'p#', '@f', '@media', 'us', 'ov:h+d:b+p0']
OPTION_SETS = [
    {}, {'stylesheet.json': True}, {'stylesheet.json': True, 'stylesheet.jsonDoubleQuotes': True},
    {'stylesheet.skipUnmatched': False}, {'stylesheet.shortHex': False}, {'output.format': False},
    {'stylesheet.intUnit': 'pt', 'stylesheet.floatUnit': 'vh', 'stylesheet.unitAliases': {'e': 'em', 'p': '%', 'x': 'ex', 'r': ' / @rem'}},
    {'stylesheet.fuzzySearchMinScore': 0.3}, {'stylesheet.fuzzySearchMinScore': 1}, {'stylesheet.between': '', 'stylesheet.after': ''},
    {'stylesheet.keywords': [], 'stylesheet.unitless': []}, {'output.newline': '\r\n', 'output.baseIndent': '  '},
    {'stylesheet.unitAliases': {}, 'stylesheet.intUnit': '', 'stylesheet.floatUnit': ''},
]
CONTEXTS = [None, None, None, '@@value', '@@section', '@@property', '@@global', 'align-content', 'border', 'transform', 'nope', '@@x', '']
USER_TABLES = [
    {}, {}, {},
    {'mten': 'margin: 10px;', 'fsz': 'font-size', 'myCenterAwesome': 'body {\n\tdisplay: grid;\n}'},
    {'p': 'foo-bar:baz|qux', 'annii': 'a-b:${1:x} ${2}', 'raw': 'x ${1} y ${2:z} ${3'},
    {'gt': 'grid-template: repeat(2,auto) / repeat(auto-fit, minmax(250px, 1fr))', 'bxsh': 'box-shadow: var(--bxsh-${1})'},
    {'x': 'a:b|', 'y': 'c-d:|', 'z': 'e: ;', 'p': 'padding:||1px'},
    {'ff': 'form\x0cfeed ${1}', 'ls': 'a\u2028b ${1:x\x0by}', 'q': 'quotes:"a\x0cb"'},
]


def corpus(ctx):
    out = []
    for p in sorted(glob.glob(os.path.join(common.VERIF, 'corpus', 'C07', 'css-*.json'))):
        try:
            with open(p) as f:
                o = json.load(f)
        except Exception:
            continue
        if isinstance(o.get('input'), str):
            out.append((Cfg.from_json(o.get('config', {})), o['input']))
    return out


def mutate(rng, s):
    ops = rng.randint(1, 3)
    for _ in range(ops):
        k = rng.random()
        i = rng.randint(0, len(s))
        if k < 0.35 and s:
            i = min(i, len(s) - 1)
            s = s[:i] + s[i + 1:]
        elif k < 0.7:
            s = s[:i] + rng.choice(ALPHABET) + s[i:]
        elif k < 0.85 and len(s) > 1:
            i = min(i, len(s) - 2)
            s = s[:i] + s[i + 1] + s[i] + s[i + 2:]
        else:
            j = rng.randint(0, len(s))
            s = s[:i] + s[min(i, j):max(i, j)] + s[i:]
    return s[:80]


# ---- value grammar: every kind of value token of the stylesheet abbreviation syntax (emmet docs, "CSS abbreviations":
# numbers with units, `#` colours with alpha, keywords, quoted strings, function calls with arguments, `${n}` /
# `${n:placeholder}` fields, `$var` / `@var` variables, `!`), written next to every other kind.  The samples are
# hard-coded here; nothing is read from the library.
VALUE_KINDS = {
    'number': ['10', '0', '1.5', '.5', '10p', '2px', '1e', '7%', '-3'],
    'color': ['#f', '#fc0', '#f.5', '#0', '#e7bc0b', '#t', '#'],
    'keyword': ['a', 'auto', 's', 'n', 'foo', 'x-y'],
    'string': ['"a b"', "'x'", '""', '"${1}"'],
    'function': ['f()', 'rotate(10)', 'url(a.png)', 'lg(red, #0.5)', 'r(${1})', 'a(b(1),"c")', 'calc(1+2)', 'v(--x)', 'F(,)'],
    'field': ['${1}', '${0}', '${0:x}', '${2:a b}', '${12:}', '${1:f()}', '${x}', '${:y}'],
    'variable': ['$foo', '@bar', '$a-b', '@x1', '$'],
    'important': ['!'],
}
VALUE_KIND_NAMES = sorted(VALUE_KINDS)
VALUE_DELIMS = ['', '-', ' ', ',', '--', ', ']
VALUE_HEADS = ['', 'p', 'p:', 'trf:', 'bg:', 'bgi-', 'foo:', 'm', 'm-', 'zzq', '@k-', 'bd', 'c', '--v:', 'lg']
VALUE_CFGS = [
    Cfg(), Cfg(tabstop=True), Cfg(syntax='scss'), Cfg(syntax='sass', options={'stylesheet.shortHex': False}),
    Cfg(syntax='stylus', options={'stylesheet.json': True}), Cfg(options={'stylesheet.skipUnmatched': False}, tabstop=True),
    Cfg(context='transform'), Cfg(context='transform', tabstop=True), Cfg(context='@@value'), Cfg(context='@@value', tabstop=True),
    Cfg(context='@@property'), Cfg(context='@@section', tabstop=True), Cfg(syntax='less', context='border'),
    Cfg(options={'output.format': False, 'stylesheet.between': '', 'stylesheet.after': ''}, tabstop=True),
]


def value_grammar_cases(rng, quick):
    """Grammar-built values: (1) every ordered pair of token kinds x every delimiter, each under two heads and two
    configurations (samples of the kinds drawn at random); (2) every single sample after every head; (3) random
    sequences of 3..6 tokens with random delimiters, optionally several properties joined by `+`."""
    out = []

    def tok(kind):
        return rng.choice(VALUE_KINDS[kind])

    for k1 in VALUE_KIND_NAMES:
        for k2 in VALUE_KIND_NAMES:
            for d in VALUE_DELIMS:
                for _ in range(2 if quick else 6):
                    out.append((rng.choice(VALUE_CFGS), rng.choice(VALUE_HEADS) + tok(k1) + d + tok(k2)))
    for k in VALUE_KIND_NAMES:
        for smp in VALUE_KINDS[k]:
            for h in VALUE_HEADS:
                out.append((rng.choice(VALUE_CFGS), h + smp))

    def value():
        s = rng.choice(VALUE_HEADS)
        for i in range(rng.randint(3, 6)):
            s += (rng.choice(VALUE_DELIMS) if i else '') + tok(rng.choice(VALUE_KIND_NAMES))
        return s

    for _ in range(900 if quick else 6000):
        out.append((rng.choice(VALUE_CFGS), '+'.join(value() for _ in range(1 if rng.random() < 0.7 else rng.randint(2, 3)))[:90]))
    return out


def random_cfg(rng):
    return Cfg(syntax=rng.choice(su.SYNTAXES), options=rng.choice(OPTION_SETS), snippets=rng.choice(USER_TABLES),
               context=rng.choice(CONTEXTS), tabstop=rng.random() < 0.5)


def gen(ctx):
    rng = ctx.rng
    quick = ctx.tier == 'quick'
    # (a) exhaustive short strings, parser-stage tie (extracted model)
    n_ex = 3 if quick else 4
    ex_alpha = ALPHABET[:22] if quick else ALPHABET[:21]
    short = ['']
    for n in range(1, n_ex + 1):
        if n == 4:
            short += [''.join(t) for t in itertools.product(ex_alpha, repeat=n)]
        else:
            short += [''.join(t) for t in itertools.product(ALPHABET[:26] if not quick else ex_alpha, repeat=n)]
    stage_cases = [(Cfg(), s) for s in short]
    stage_cases += [(Cfg(context='@@value'), s) for s in short if len(s) <= 3]
    # (b) full pipeline inside Coq
    full = corpus(ctx)
    cfgs = [Cfg(tabstop=True), Cfg(context='@@value'), Cfg(context='align-content', tabstop=True), Cfg(context='@@section'),
            Cfg(options={'stylesheet.json': True}), Cfg(context='@@property', options={'stylesheet.skipUnmatched': False}),
            Cfg(syntax='stylus', snippets=USER_TABLES[4])]
    n_full = 2 if quick else 3
    small = ['']
    for n in range(1, n_full + 1):
        small += [''.join(t) for t in itertools.product(ALPHABET[:22], repeat=n)]
    for c in (cfgs if quick else cfgs[:3]):
        full += [(c, s) for s in small]
    if not quick:
        for c in cfgs[3:]:
            full += [(c, s) for s in small if len(s) <= 2]
    for c in cfgs:
        full += [(c, s) for s in VALID]
    n_cfg = 12 if quick else 60
    per = 60 if quick else 250
    for _ in range(n_cfg):
        c = random_cfg(rng)
        for _ in range(per):
            k = rng.random()
            if k < 0.5:
                s = mutate(rng, rng.choice(VALID))
            elif k < 0.75:
                s = ''.join(rng.choice(ALPHABET) for _ in range(rng.randint(1, 40 if not quick else 20)))
            else:
                s = '+'.join(mutate(rng, rng.choice(VALID)) if rng.random() < 0.3 else rng.choice(VALID)
                             for _ in range(rng.randint(1, 4)))
            full.append((c, s))
    vg = value_grammar_cases(rng, quick)
    for c, s in vg:
        ctx.cover('css:value-grammar:%s' % ('context=' + c.context if c.context else 'property'))
    full += vg
    return stage_cases, full, (n_ex, len(ex_alpha), n_full)


def check_oracle(ctx, cases, impl, tag):
    for (cfg, s), r in zip(cases, impl):
        ctx.count_eval()
        bad = su.c07_oracle(s, r)
        if bad:
            ctx.property_failure('css:%s:%s' % (cfg.key(), s), 'stylesheet expand(%r) under %s: %s' % (s, cfg.to_json(), bad),
                                 {'component': 'css', 'input': s, 'config': cfg.to_json(), 'impl': repr(r)[:300], 'why': bad})
        ctx.cover('css:%s:%s' % (tag, r[0] if r[0] != 'internal' else 'internal-' + str(r[1])))
        if r[0] != 'ok' or (r[1] and len(s) >= 2):
            ctx.nontrivial(('c7', cfg.key(), s))


def run_css(ctx):
    ok = ctx.build(['props/C07Css.vo', 'run/StyleRun.vo', 'run/StyleShow.vo'])
    if ok:
        su.obligations(ctx, 'props/C07Css.v')
    stage_cases, full, (n_ex, n_alpha, n_full) = gen(ctx)
    rule = ('css: (a) every string up to length %d over a %d..26-character stylesheet alphabet through expand(type=stylesheet) '
            '[default and @@value scope], tied to the extracted tokenizer+parser model; (b) corpus + every string up to length %d '
            'under 7 configurations + mutations of %d valid abbreviations + random strings under random option sets / scopes / '
            'user tables + value grammar (every ordered pair of the 8 value-token kinds number/colour/keyword/string/function call/'
            'field/variable/`!` x 6 delimiters after 15 heads, every sample alone, random 3..6-token values and `+` chains, '
            'under 14 configurations incl. value/property/section contexts and both field styles), tied to the full model '
            'evaluated inside Coq; observable = outcome class (ok | scanner pos | token pos | '
            'internal type); non-trivial = raises a parse error or expands to non-empty text from >=2 characters; distinct by '
            '(configuration, input)') % (n_ex, n_alpha, n_full, len(VALID))
    ctx.cov['rule'] = (ctx.cov.get('rule') + ' || ' if ctx.cov.get('rule') else '') + rule
    # ---- implementation + oracle
    impl_a = su.impl_expand_many(stage_cases)
    check_oracle(ctx, stage_cases, impl_a, 'short')
    impl_b = su.impl_expand_many(full)
    check_oracle(ctx, full, impl_b, 'full')
    for (cfg, s), r in list(zip(full, impl_b))[-4:]:
        ctx.sample({'component': 'css', 'input': s, 'config': cfg.to_json(), 'impl': repr(r)[:160]})
    runner = su.ImplRunner()
    chk = [runner.expand(s, c) for c, s in full[:300]]
    runner.selfcheck(ctx, full[:300], chk, rate=0.1)
    if not ok:
        return
    # ---- (a) parser-stage tie through the extracted model
    model = ctx.model('style')
    if model is not None:
        outs = model.run([su.enc_parse_case(s, cfg.context == '@@value') for cfg, s in stage_cases])
        dis = 0
        for (cfg, s), r, w in zip(stage_cases, impl_a, outs):
            m = su.decode_parse(w)
            mc = ('ok',) if m[0] == 'ok' else tuple(m)
            if mc != su.outcome_class(r):
                dis += 1
                if dis <= 5:
                    ctx.say('DISAGREE css expand/parse class %r (%s)\n  impl  %r\n  model %r' % (s, cfg.context, r, mc))
                    if not su.c07_oracle(s, r):
                        ctx.broken.append({'kind': 'correspondence', 'file': 'css-parser-stage', 'input': s,
                                           'config': cfg.to_json(), 'impl': repr(r)[:300], 'model': repr(mc)[:300]})
        ctx.cov['correspondence']['css_expand_vs_parser_model'] = {'cases': len(stage_cases), 'disagreements': dis}
    # ---- (b) full pipeline inside Coq
    res = su.coq_expand(ctx, full, tag='c07css')
    if res is not None:
        dis = 0
        for (cfg, s), r, m in zip(full, impl_b, res):
            if su.outcome_class(m) != su.outcome_class(r):
                dis += 1
                if dis <= 5:
                    ctx.say('DISAGREE css expand class %r under %s\n  impl  %r\n  model %r' % (s, cfg.to_json(), r, m))
                    if not su.c07_oracle(s, r):
                        ctx.broken.append({'kind': 'correspondence', 'file': 'css-expand', 'input': s, 'config': cfg.to_json(),
                                           'impl': repr(r)[:300], 'model': repr(m)[:300]})
        ctx.cov['correspondence']['css_expand_full_model'] = {'cases': len(full), 'disagreements': dis}


def replay_css(ctx, obj):
    rp = obj.get('replay', obj)
    s = rp.get('input')
    if s is None:
        print('replay names a broken obligation, no input: %s' % rp)
        return 1
    cfg = Cfg.from_json(rp.get('config', {}))
    r = su.impl_expand(s, cfg)
    bad = su.c07_oracle(s, r)
    print('css expand(%r) under %s -> %r : %s' % (s, cfg.to_json(), r, bad or 'property holds'))
    return 1 if bad else 0
