"""Generators and independent observers shared by C12 (formatting is cosmetic) and C13
(tabstops / callback positions).  Nothing here looks at the Coq model."""
import copy
import re

import abbr_gen as g

HTML_SYNTAXES = ['html', 'xml', 'xsl', 'jsx', 'vue', 'svelte']
INDENT_SYNTAXES = ['haml', 'pug', 'slim']
STYLE_SYNTAXES = ['css', 'scss', 'sass', 'less', 'sss', 'stylus']

# ---------------------------------------------------------------- abbreviation generator
SNIPPET_NAMES = ['a', 'img', 'br', 'input', 'label', 'bq', 'body', 'link', 'btn', 'hr']
PLAIN_TEXTS = ['t', 'hello world', 'x y', 'T1', 'some text here']
ML_TEXTS = ["a\nb", "one\r\ntwo", "l1\nl2\nl3", "p q\nr", "v\x0bt", "f\x0cf g", "u\u2028s"]
WS_TEXTS = [' lead', 'trail ', 'in\n  dented']
TAG_TEXTS = ['<div>in</div>', '<b>x</b>', '<section class="k">s</section> tail']
FIELD_TEXTS = ['a ${1} b', '${1:ph}', 'x ${2:two} y ${1:one}', '${3}${1}', '${0:zero} w', '${1:m\nn} z', 'k ${2:p\nq\nr}']
FIELD_ATTR_VALUES = ['${1}', '${1:v}', 'u${2:w}${1}', '${0}', '${2:l\nm}']
ML_ATTR_VALUES = ['x\ny', 'r\r\ns t']


def decorator(rng, level):
    """level: 'c12' (no explicit fields, no line breaks in attribute values), 'c13' (everything),
    'depth' (what the indentation oracle can read: no '<' in text, no leading blanks)."""
    def deco(_rng, el):
        r = rng.random
        if r() < 0.15:
            el.id = rng.choice(['i', 'main', 'x1'])
        if r() < 0.25:
            el.classes = rng.sample(['c', 'k', 'item', 'a-b'], rng.randint(1, 2))
        if r() < 0.07 and (el.id or el.classes):
            el.name = None
        if r() < 0.3:
            attrs = []
            for _ in range(rng.randint(1, 3)):
                k = rng.random()
                if k < 0.25:
                    attrs.append((rng.choice(['title', 'data-e', 'alt']), None, ''))
                elif k < 0.35:
                    attrs.append((rng.choice(['title', 'data-q']), '', rng.choice(['"', "'"])))
                elif k < 0.6:
                    attrs.append((rng.choice(['title', 'data-v', 'href', 'for', 'class']), rng.choice(['v', 'u v', 'Val-1']),
                                  rng.choice(['', '"', "'"]) if ' ' not in 'u v' else '"'))
                elif k < 0.7:
                    attrs.append((rng.choice(['disabled', 'checked', 'hidden']), None, ''))
                elif k < 0.78:
                    attrs.append((rng.choice(['sel.', 'open.']), None, ''))
                elif k < 0.86:
                    attrs.append((rng.choice(['on', 'bind']), rng.choice(['expr', 'a.b']), '{'))
                elif level == 'c13' and k < 0.95:
                    attrs.append((rng.choice(['title', 'data-f']), rng.choice(FIELD_ATTR_VALUES), rng.choice(['', '"'])))
                elif level == 'c13':
                    attrs.append((rng.choice(['title', 'data-m']), rng.choice(ML_ATTR_VALUES), '"'))
            # a value with a blank needs quotes
            el.attrs = [(n, v, (q or '"') if (v and (' ' in v or '\n' in v or '\r' in v) and q != '{') else q) for n, v, q in attrs]
        if r() < 0.3:
            k = rng.random()
            if k < 0.5:
                el.text = rng.choice(PLAIN_TEXTS)
            elif k < 0.7:
                el.text = rng.choice(ML_TEXTS)
            elif level == 'depth':
                el.text = rng.choice(PLAIN_TEXTS)
            elif k < 0.78:
                el.text = rng.choice(WS_TEXTS)
            elif k < 0.86:
                el.text = rng.choice(TAG_TEXTS)
            elif level == 'c13':
                el.text = rng.choice(FIELD_TEXTS)
            else:
                el.text = rng.choice(PLAIN_TEXTS)
        if r() < 0.06 and el.name:
            el.self_close = True
    return deco


def names_for(rng, with_snippets=True):
    names = g.safe_names()
    if with_snippets:
        names = names + SNIPPET_NAMES
    return names


def rand_abbr(rng, level, size=None):
    names = names_for(rng, with_snippets=(level != 'depth'))
    n = size or (rng.randint(1, 25) if rng.random() < 0.15 else rng.randint(1, 8))
    st = g.rand_stmt(rng, names, n, max_depth=3, rep_max=3, decorate=decorator(rng, level))
    return st


def has_explicit_field(abbr):
    return '${' in abbr


# ---------------------------------------------------------------- option sets
def rand_cosmetic(rng, names=()):
    """Random assignment of the options the statement calls cosmetic."""
    o = {}
    if rng.random() < 0.8:
        o['output.format'] = rng.random() < 0.7
    if rng.random() < 0.7:
        o['output.indent'] = rng.choice(['\t', '  ', '    ', ' ', '', '\t\t'])
    if rng.random() < 0.6:
        o['output.newline'] = rng.choice(['\n', '\r\n', '\n', '\r', ''])
    if rng.random() < 0.5:
        o['output.baseIndent'] = rng.choice(['', '  ', '\t', '      '])
    if rng.random() < 0.6:
        o['output.inlineBreak'] = rng.choice([0, 1, 2, 3, 4, 7])
    if rng.random() < 0.5:
        o['output.formatLeafNode'] = rng.random() < 0.5
    pool = list(names) or ['div', 'p', 'span', 'ul', 'li', 'html', 'body']
    if rng.random() < 0.5:
        o['output.formatSkip'] = rng.sample(pool, min(len(pool), rng.randint(0, 3)))
    if rng.random() < 0.5:
        o['output.formatForce'] = rng.sample(pool, min(len(pool), rng.randint(0, 3)))
    return o


COMMENT_TEMPLATES = [
    ('', '\n<!-- /[#ID][.CLASS] -->'),
    ('<!-- [#ID] -->\n', ''),
    ('<!-- begin [.CLASS|] -->', '<!-- end [#ID][ .CLASS] -->'),
    ('', '<!-- [TITLE] [[x]] -->'),
]


def rand_base(rng, syntaxes=HTML_SYNTAXES):
    """Random assignment of the options that are NOT cosmetic (kept equal in both runs)."""
    cfg = {'syntax': rng.choice(syntaxes)}
    o = {}
    if rng.random() < 0.3:
        o['output.selfClosingStyle'] = rng.choice(['html', 'xhtml', 'xml'])
    if rng.random() < 0.35:
        o['comment.enabled'] = True
        if rng.random() < 0.4:
            b, a = rng.choice(COMMENT_TEMPLATES)
            o['comment.before'] = b
            o['comment.after'] = a
        if rng.random() < 0.2:
            o['comment.trigger'] = rng.choice([['id'], ['class', 'title'], []])
    if rng.random() < 0.15:
        o['output.tagCase'] = rng.choice(['upper', 'lower'])
    if rng.random() < 0.15:
        o['output.attributeCase'] = rng.choice(['upper', 'lower'])
    if rng.random() < 0.2:
        o['output.attributeQuotes'] = rng.choice(['single', 'double'])
    if rng.random() < 0.2:
        o['output.compactBoolean'] = True
    if rng.random() < 0.1:
        o['output.reverseAttributes'] = True
    cfg['options'] = o
    return cfg


def with_options(cfg, extra):
    c = copy.deepcopy(cfg)
    c.setdefault('options', {})
    c['options'].update(copy.deepcopy(extra))
    return c


def resolved_options(cfg):
    from emmet.config import Config
    return Config(copy.deepcopy(cfg)).options


# ---------------------------------------------------------------- independent tag scanner
TOKEN_RE = re.compile(
    r'<!--.*?-->'
    r'|</[^>]*>'
    r'|<[A-Za-z_][^\s/>]*(?:"[^"]*"|\'[^\']*\'|\{[^{}]*\}|[^>"\'{])*>', re.S)
ATTR_RE = re.compile(r'\s+([^\s=/>]+)(?:=("[^"]*"|\'[^\']*\'|\{[^{}]*\}))?', re.S)
NAME_RE = re.compile(r'<([^\s/>]+)')


def tag_end(out, off):
    m = TOKEN_RE.match(out, off)
    return m.end() - 1


def squeeze(s):
    return ''.join(s.split())


def scan(out):
    """Token list of an HTML-formatter output: ('open', name, attrs, selfclosed) | ('close', name) |
    ('comment', text without blanks) | ('text', text without blanks).  Also returns, for every
    token, its start offset."""
    toks = []
    pos = 0
    for m in TOKEN_RE.finditer(out):
        if m.start() > pos:
            t = squeeze(out[pos:m.start()])
            if t:
                toks.append((('text', t), pos))
        s = m.group(0)
        if s.startswith('<!--'):
            toks.append((('comment', squeeze(s)), m.start()))
        elif s.startswith('</'):
            toks.append((('close', s[2:-1].strip()), m.start()))
        else:
            name = NAME_RE.match(s).group(1)
            body = s[1 + len(name):-1]
            selfc = body.endswith('/')
            if selfc:
                body = body[:-1]
            attrs = tuple((a.group(1), a.group(2)) for a in ATTR_RE.finditer(body))
            toks.append((('open', name, attrs, selfc), m.start()))
        pos = m.end()
    if pos < len(out):
        t = squeeze(out[pos:])
        if t:
            toks.append((('text', t), pos))
    return toks


def content(out):
    """What must not depend on cosmetic options: tags, attributes, comments and text in order
    (blanks between/inside text removed, adjacent text joined)."""
    res = []
    for t, _ in scan(out):
        if t[0] == 'text' and res and res[-1][0] == 'text':
            res[-1] = ('text', res[-1][1] + t[1])
        else:
            res.append(t)
    return res


def cosmetic_diff(out1, out2):
    a, b = content(out1), content(out2)
    if a == b:
        return None
    for i, (x, y) in enumerate(zip(a, b)):
        if x != y:
            return 'content item %d differs: %r vs %r' % (i, x, y)
    return 'content lengths differ: %d vs %d (first extra %r)' % (len(a), len(b), (a + b)[min(len(a), len(b))])


ALIGN_LEAF = '[element without child elements] '


def depth_check(out, opts):
    """Every line after the first starts with baseIndent + indent * (elements open at that point);
    a line that starts with a closing tag is aligned with the opening tag (one unit less).
    Requires: newline '\n' or '\r\n', non-empty indent, output readable by `scan` with
    self-closed tags marked (xhtml/xml style) or absent."""
    nl = opts['output.newline']
    indent = opts['output.indent']
    base = opts['output.baseIndent']
    toks = scan(out)
    # open-element count at each offset
    # an element is open from the end of its opening tag to the start of its closing tag
    events = []
    for t, off in toks:
        if t[0] == 'open' and not t[3]:
            events.append((out.index('>', off) if t[2] == () else tag_end(out, off), +1))
        elif t[0] == 'close':
            events.append((off, -1))
    # a closing tag on its own line is aligned with its opening tag: the line on which the opening tag
    # stands has the same indentation as the closing tag's line
    def line_indent(off):
        ls = out.rfind(nl, 0, off)
        ls = 0 if ls < 0 else ls + len(nl)
        le = out.find(nl, ls)
        line = out[ls:le if le >= 0 else len(out)]
        return line[:len(line) - len(line.lstrip(' \t'))], out[ls:off]
    stack = []
    for t, off in toks:
        if t[0] == 'open' and not t[3]:
            if stack:
                stack[-1][2] = True
            stack.append([t[1], off, False])
        elif t[0] == 'open' and stack:
            stack[-1][2] = True
        elif t[0] == 'close' and stack:
            name, ooff, has_kids = stack.pop()
            ind_c, before_c = line_indent(off)
            ind_o, _ = line_indent(ooff)
            if out.rfind(nl, 0, ooff) < 0:
                ind_o = base + ind_o          # the first line carries no baseIndent
            if out.rfind(nl, 0, off) >= 0 and before_c.strip(' \t') == '' and ind_c != ind_o:
                return ('%sclosing tag </%s> at offset %d stands first on its line (indentation %r) but the line of its opening '
                        'tag (offset %d) is indented %r: not aligned' % ('' if has_kids else ALIGN_LEAF, t[1], off, ind_c, ooff, ind_o))
    lines = out.split(nl)
    pos = 0
    for i, line in enumerate(lines):
        start = pos
        pos += len(line) + len(nl)
        if i == 0:
            continue
        depth = sum(d for off, d in events if off < start)
        if not line.startswith(base):
            return 'line %d %r does not start with baseIndent %r' % (i, line, base)
        rest = line[len(base):]
        stripped = rest.lstrip(' \t') if indent.strip(' \t') == '' else rest
        body = rest
        k = 0
        while indent and body.startswith(indent):
            body = body[len(indent):]
            k += 1
        if body == '' and depth >= 0:
            # an empty line body (formatLeafNode caret line): indentation only
            pass
        exp = depth - 1 if body.startswith('</') else depth
        if k != exp:
            return 'line %d %r: %d indent unit(s), %d element(s) open there%s' % (
                i, line, k, depth, ' (line starts with a closing tag: expected one less)' if body.startswith('</') else '')
    return None


def strip_comments_tokens(out):
    return [t for t in content(out) if t[0] != 'comment']


def selfclose_neutral(out):
    """Erase the self-closing mark: ' />' and '/>' become '>'."""
    return re.sub(r' ?/>', '>', out)


# ---------------------------------------------------------------- C13 observers
def line_col_table(final, nl):
    """(line, column) of every offset 0..len(final): a line ends at every occurrence of the
    configured newline string and at every line feed."""
    n = len(final)
    tab = [None] * (n + 1)
    line = 0
    last = 0
    i = 0
    while i <= n:
        tab[i] = (line, i - last)
        if i == n:
            break
        if nl and final.startswith(nl, i):
            for j in range(i + 1, i + len(nl)):
                tab[j] = (line, j - last)
            i += len(nl)
            line += 1
            last = i
        elif final[i] == '\n':
            i += 1
            line += 1
            last = i
        else:
            i += 1
    return tab


def line_col(final, off, nl):
    return line_col_table(final, nl)[off]


def positions_check(final, events, nl):
    """events: ('text', returned, off, line, col) | ('field', idx, returned, off, line, col)."""
    pos = 0
    tab = line_col_table(final, nl) if nl != '' else None
    for k, e in enumerate(events):
        if e[0] == 'text':
            ret, off, line, col = e[1], e[2], e[3], e[4]
        else:
            ret, off, line, col = e[2], e[3], e[4], e[5]
        if final[off:off + len(ret)] != ret:
            return 'callback %d %r: returned %r is not at offset %d of the result (found %r)' % (
                k, e[0], ret, off, final[off:off + len(ret)])
        if off != pos:
            return 'callback %d %r: offset %d but %d characters were written before' % (k, e[0], off, pos)
        pos = off + len(ret)
        if tab is not None:
            el, ec = tab[off]
            if (line, col) != (el, ec):
                return 'callback %d %r at offset %d: told line %d column %d, in the result it is line %d column %d' % (
                    k, e[0], off, line, col, el, ec)
    if pos != len(final):
        return 'callbacks account for %d characters, result has %d' % (pos, len(final))
    return None


EMPTY_ATTR_RE = re.compile(r'=(""|\'\'|\{\})')


def count_tabstop_sites(out):
    """Empty attribute values + empty (blank-only) content of elements that are not self-closed,
    read from the final output (callbacks return the placeholder, i.e. '' for a bare tabstop)."""
    toks = scan(out)
    n = 0
    for i, (t, off) in enumerate(toks):
        if t[0] == 'open':
            n += sum(1 for _, v in t[2] if v in ('""', "''", '{}'))
            if not t[3] and i + 1 < len(toks) and toks[i + 1][0] == ('close', t[1]):
                n += 1
    return n
