"""C08 helpers: history generators, the pool of pristine-process workers, the property oracle.

A history is a JSON object (format: harness/history_worker.py).  Everything that survives a call in the
implementation can only be reached through: the caller's dicts / Config objects / cache dicts (named and shared
explicitly in the history) and module state of emmet.* (observed by the worker)."""
import json
import os
import subprocess
import threading

import common

WORKER = os.path.join(common.HERE, 'history_worker.py')


# ------------------------------------------------------------------ worker pool
class Pool:
    """N fork servers (each imports emmet freshly and never calls it; every history and every reference call
    runs in its own forked child)."""

    def __init__(self, n=None):
        self.n = n or common.NPROC
        self.env = dict(os.environ, PYTHONPATH=common.REPO, PYTHONHASHSEED='0', PYTHONDONTWRITEBYTECODE='1')

    def run(self, histories, timeout=3000):
        hs = list(histories)
        if not hs:
            return []
        n = max(1, min(self.n, len(hs)))
        chunks = [hs[i::n] for i in range(n)]
        results = [None] * n

        def work(i):
            data = ''.join(json.dumps(h) + '\n' for h in chunks[i])
            p = subprocess.Popen([common.PY, WORKER, '--server'], stdin=subprocess.PIPE, stdout=subprocess.PIPE,
                                 stderr=subprocess.PIPE, text=True, env=self.env)
            try:
                o, e = common.patient_communicate(p, data, timeout)
            except subprocess.TimeoutExpired:
                p.kill()
                o, e = '', 'timeout'
            results[i] = (o, e, p.returncode)
        ths = [threading.Thread(target=work, args=(i,)) for i in range(n)]
        for t in ths:
            t.start()
        for t in ths:
            t.join()
        out = [None] * len(hs)
        for i in range(n):
            o, e, rc = results[i]
            lines = [ln for ln in o.split('\n') if ln]
            if rc != 0 or len(lines) != len(chunks[i]):
                raise RuntimeError('history worker failed rc=%s got %d of %d lines: %s' % (rc, len(lines), len(chunks[i]), e[-800:]))
            for j, ln in enumerate(lines):
                out[i + j * n] = json.loads(ln)
        return out

    def once(self, h, call, variant='cache', timeout=120, pc=None):
        """the same single call in a really fresh interpreter (no fork server involved); `pc` = the parse call that
        governs the tree a stringify call writes out"""
        p = common.patient_run([common.PY, WORKER, '--once'], input=json.dumps({'h': h, 'call': call, 'variant': variant, 'pc': pc}),
                           stdout=subprocess.PIPE, stderr=subprocess.PIPE, text=True, env=self.env, timeout=timeout)
        if p.returncode != 0:
            raise RuntimeError('fresh interpreter failed: ' + p.stderr[-800:])
        return json.loads(p.stdout)


# ------------------------------------------------------------------ the property oracle (implementation only)
def oracle(h, r):
    """All ways in which history `h` (observed as `r`) contradicts the statement of C08.
    Returns a list of (key, what, detail)."""
    out = []
    hist = r['history']
    if 'worker_error' in hist:
        return [('harness:worker-error', 'the history child crashed: ' + hist['worker_error'][-300:], {})]
    seq = list(h['calls']) + [h['probe']]
    extras = r.get('extra') or [{}] * len(seq)
    writes = {}   # tree number -> how often it has been written out since it was parsed
    for i, (c, rec, fr, fn) in enumerate(zip(seq, hist['calls'], r['fresh'], r['fresh_nocache'])):
        if 'worker_error' in fr or 'worker_error' in fn:
            out.append(('harness:worker-error', 'a reference child crashed: ' + str(fr)[-300:], {}))
            continue
        role = 'probe' if i == len(seq) - 1 else 'call %d' % i
        op = c.get('op', 'expand')
        ex = extras[i] or {}
        if op == 'parse':
            writes[c.get('tree')] = 0
        if op == 'stringify':
            # the two-step route: write-out number n of a caller-owned parsed tree
            writes[c.get('tree')] = n = writes.get(c.get('tree'), 0) + 1
            if rec['out'] != fr['out']:
                out.append(('tree-output-depends-on-history:' + rec['kind'],
                            '%s: write-out number %d of caller-owned tree %r (stringify after %d earlier call(s)) gave %r; the same tree '
                            'parsed and written out once with the same arguments in a fresh interpreter state gives %r'
                            % (role, n, c.get('tree'), i, rec['out'], fr['out']), {'call': i}))
            if 'expand' in ex and 'worker_error' not in ex['expand'] and fr['out'] != ex['expand']['out'] and fr['out'] != ['skipped']:
                out.append(('two-step-route-differs-from-expand:' + rec['kind'],
                            '%s: in a fresh interpreter state, parsing and writing out once gives %r; expand() of the same abbreviation '
                            'with the same configuration gives %r' % (role, fr['out'], ex['expand']['out']), {'call': i}))
        elif rec['out'] != fr['out']:
            out.append(('result-depends-on-history:' + rec['kind'],
                        '%s %s(%r) after %d earlier call(s) gave %r, the same call in a fresh interpreter state gives %r'
                        % (role, 'expand' if op == 'expand' else op, c.get('abbr'), i, rec['out'], fr['out']), {'call': i}))
        if fr['out'] != fn['out']:
            out.append(('cache-changes-result:' + rec['kind'],
                        '%s %s(%r) in a fresh state gives %r with an (empty) cache dict and %r without cache'
                        % (role, 'expand' if op == 'expand' else op, c.get('abbr'), fr['out'], fn['out']), {'call': i}))
        if 'plain' in ex and 'worker_error' not in ex['plain'] and ex['plain']['out'] != fr['out']:
            out.append(('equal-arguments-differ:' + rec['kind'],
                        '%s expand(%r) in a fresh state gives %r with the configuration as written and %r with an EQUAL configuration '
                        '(==) whose mappings were built in another key order' % (role, c.get('abbr'), ex['plain']['out'], fr['out']),
                        {'call': i}))
    for p in hist['problems']:
        w = p['what']
        if w == 'caller-config-changed':
            out.append(('caller-config-changed', 'after call %d the caller\'s configuration dict %r differs: before %s after %s'
                        % (p['call'], p['which'], p['before'], p['after']), {'call': p['call']}))
        elif w == 'config-object-changed':
            out.append(('config-object-changed', 'after call %d the caller\'s Config object %d differs' % (p['call'], p['obj']),
                        {'call': p['call']}))
        elif w == 'library-state-changed':
            kind = 'library-state-grew' if p.get('grew') else 'library-state-changed'
            out.append((kind, 'call %d changed %s: len %s -> %s' % (p['call'], p['where'], p['len_before'], p['len_after']),
                        {'call': p['call'], 'where': p['where']}))
        elif w == 'objects-kept-alive':
            out.append(('objects-kept-alive', 'after the history, with everything the caller owns dropped, %d more %s instance(s) are alive than before (%d -> %d)'
                        % (p['after'] - p['before'], p['class'], p['before'], p['after']), {'class': p['class']}))
    return out


def shrink(pool, h, key, rounds=12):
    """greedy removal of calls while a failure with the same key remains (one parallel batch per round)"""
    cur = h
    for _ in range(rounds):
        cands = [dict(cur, calls=cur['calls'][:i] + cur['calls'][i + 1:]) for i in range(len(cur['calls']))]
        if not cands:
            break
        nxt = None
        for cand, r in zip(cands, pool.run(cands)):
            if any(k == key for k, _, _ in oracle(cand, r)):
                nxt = cand
                break
        if nxt is None:
            break
        cur = nxt
    return cur


# ------------------------------------------------------------------ generators
TEXTS = [None, 'hello', ['x', 'y'], '', [], ['one']]
MK_SNIPPETS = [None, {'foo': 'div.x>span{hi}'}, {'bad': 'a)'}, {'foo': 'ul>li*2', 'bad': 'p[', 'bad2': 'a[b="'},
               {'foo': 'bad'}, {'p': 'p.lead'}]
MK_ABBRS = ['div', 'ul>li*3', 'a', 'p*', 'ul>li*', '.b>._e', '.block>.-elem_mod+.-x', 'bad', 'foo', 'a)', 'a[b="', '!',
            'ul>li.item$*2>{$#}', 'foo>bad', 'p{hi}+foo', 'input:t', 'a[href=x]{t}', '(a>b)*2+c', 'bad2', 'foo*2>bad',
            '.b_m>.-e>.--f', 'p>{$#}', 'ul>li*>a', 'img', 'bad+p', 'p+bad', '', 'gs', 'gs>foo',
            # rejected by the tokenizer while a bracket / quote / field is open, then ordinary operators again
            'p{${1', 'a[href=${1', 'p{${1:text', 'a{t', 'ul>li[title="x', '(a>b', 'ul>li+p', 'div>span^em', 'a+b>c']
MK_OPTIONS = [None, {'bem.enabled': True}, {'comment.enabled': True}, {'output.field': '@tabstop'},
              {'bem.enabled': True, 'output.field': '@tabstop'}, {'output.format': False},
              {'bem.enabled': True, 'bem.element': '-', 'comment.enabled': True}, {'jsx.enabled': True}]
MK_SYNTAX = [None, 'html', 'xml', 'xsl', 'pug', 'haml', 'slim', 'jsx']
MK_CONTEXT = [None, {'name': 'div', 'attributes': {'class': 'blk'}}, {'name': 'ul'}]
MK_VARS = [None, {'lang': 'ru'}, {'charset': 'koi8'}]

CSS_SNIPPETS = [None, {'foo': 'margin:10'}, {'foo': 'padding:5 7'}, {'foo': 'margin:10', 'bar': 'foo-bar: ${1:7} baz'},
                {'foo': 'line-height:1.5'}, {'foo': 'top:3|5', 'm': 'margin:1.5'}, {'bad': 'margin:(('},
                {'gt': 'grid-template: repeat(2,auto) / minmax(250px, 1fr)', 'foo': 'width:2 3.5'},
                {'foo': 'margin:10', 'bad': 'margin:(('}, {'p': 'padding:4'}]
CSS_ABBRS = ['m10', 'p10-20', 'foo', 'foo20', 'fz1.5', 'c#f', 'bd', 'lg(top, red)', 'd:n', 'pos:a', 'w100p', 'z1', 'op.5', 'bar',
             'm0-a', '@k', '!', '-', 'm10!', 'gt', 'm', 'p', 'foo+m', 'foo+foo', 'm+foo', 'bar+foo', 'zom', 'animic', 'fo', 'mt', 'p1.5',
             'bad', 'trf:r', 'bgc#1', 'm-10--20', 'foo!', 'w', 'c:r(1)', '10', 'auto', '', 'gfoo', 'gfoo+foo',
             'm${1', 'p${1:{{', 'c:r(1', 'ff"x', 'm10+p${a', 'lg(top']
CSS_OPTIONS = [None, {'stylesheet.intUnit': 'pt'}, {'stylesheet.intUnit': 'px'}, {'stylesheet.intUnit': ''},
               {'stylesheet.floatUnit': 'rem'}, {'stylesheet.intUnit': 'pt', 'stylesheet.floatUnit': 'cm'},
               {'stylesheet.unitAliases': {'e': 'em', 'p': 'pc', 'x': 'ex', 'r': 'rem'}}, {'stylesheet.shortHex': False},
               {'stylesheet.fuzzySearchMinScore': 0.3}, {'output.field': '@tabstop'},
               {'stylesheet.after': '', 'stylesheet.between': ' '}, {'stylesheet.unitless': ['margin']},
               {'stylesheet.keywords': ['auto', 'bogus']}, {'stylesheet.json': True}]
CSS_SYNTAX = [None, 'css', 'scss', 'sass', 'less', 'stylus', 'sss']
CSS_CONTEXT = [None, None, None, {'name': 'margin'}, {'name': '@@section'}, {'name': '@@property'}, {'name': 'foo'},
               {'name': '@@value'}]


MK_GLOBAL = [{'markup': {'snippets': {'gs': 'section.g>p'}}, 'html': {'options': {'output.indent': '  '}}},
             {'markup': {'options': {'bem.enabled': True}}, 'xml': {'snippets': {'gs': 'x-y'}}}]
CSS_GLOBAL = [{'stylesheet': {'snippets': {'gfoo': 'margin:3'}}, 'css': {'options': {'stylesheet.intUnit': 'mm'}}},
              {'stylesheet': {'options': {'stylesheet.floatUnit': 'vw'}}, 'scss': {'snippets': {'gfoo': 'padding:2.5', 'foo': 'top:1'}}}]


def _put(d, k, v):
    if v is not None:
        d[k] = v


def rand_mk_dict(rng):
    d = {}
    if rng.random() < 0.3:
        d['type'] = 'markup'
    _put(d, 'syntax', rng.choice(MK_SYNTAX))
    _put(d, 'options', rng.choice(MK_OPTIONS))
    _put(d, 'snippets', rng.choice(MK_SNIPPETS))
    t = rng.choice(TEXTS) if rng.random() < 0.7 else None
    if t is not None or rng.random() < 0.1:
        d['text'] = t
    _put(d, 'variables', rng.choice(MK_VARS) if rng.random() < 0.3 else None)
    _put(d, 'context', rng.choice(MK_CONTEXT) if rng.random() < 0.3 else None)
    if rng.random() < 0.1:
        d['maxRepeat'] = 2
    if rng.random() < 0.12:
        d['@global'] = rng.choice(MK_GLOBAL)
    return d


def rand_css_dict(rng, ncaches):
    d = {'type': 'stylesheet'}
    _put(d, 'syntax', rng.choice(CSS_SYNTAX))
    _put(d, 'options', rng.choice(CSS_OPTIONS))
    _put(d, 'snippets', rng.choice(CSS_SNIPPETS))
    _put(d, 'context', rng.choice(CSS_CONTEXT))
    if ncaches and rng.random() < 0.85:
        d['cache'] = rng.randrange(ncaches)
    if rng.random() < 0.15:
        d['text'] = rng.choice(TEXTS)
    if rng.random() < 0.15:
        d['@global'] = rng.choice(CSS_GLOBAL)
    return d


def rand_history(rng, max_len=12, extra_abbrs=()):
    ncaches = rng.choice([0, 1, 1, 1, 2])
    mode = rng.random()
    n_css = rng.randint(2, 4) if mode < 0.45 else (0 if mode < 0.65 else rng.randint(1, 3))
    n_mk = 0 if mode < 0.3 else rng.randint(1, 3)
    if n_css + n_mk == 0:
        n_mk = 1
    dicts = [rand_css_dict(rng, ncaches) for _ in range(n_css)] + [rand_mk_dict(rng) for _ in range(n_mk)]
    if n_mk and ncaches and rng.random() < 0.3:
        dicts[-1]['cache'] = 0   # a markup config sharing the cache dict
    # near-copies: same config, one aspect changed (the interesting interactions)
    if n_css >= 2 and rng.random() < 0.6:
        base = dicts[0]
        twin = json.loads(json.dumps(base))
        what = rng.random()
        if what < 0.4:
            _put(twin, 'options', rng.choice(CSS_OPTIONS[1:6]))
        elif what < 0.8:
            twin.pop('snippets', None)
            _put(twin, 'snippets', rng.choice(CSS_SNIPPETS))
        else:
            _put(twin, 'syntax', rng.choice(CSS_SYNTAX))
        dicts[1] = twin
    objs = [i for i in range(len(dicts)) if rng.random() < 0.3]

    def call():
        r = rng.random()
        if r < 0.04 and n_mk:
            return {'abbr': rng.choice(MK_ABBRS), 'via': 'default', 'd': 0}
        if objs and r < 0.3:
            k = rng.randrange(len(objs))
            di = objs[k]
            via = 'obj'
            ref = k
        else:
            di = rng.randrange(len(dicts))
            via = 'dict' if r < 0.75 else ('copy' if r < 0.95 else 'nocache')
            ref = di
        css = dicts[di].get('type') == 'stylesheet'
        pool = CSS_ABBRS if css else MK_ABBRS
        if not css and extra_abbrs and rng.random() < 0.25:
            pool = extra_abbrs
        return {'abbr': rng.choice(pool), 'via': via, 'd': ref}
    n = rng.randint(1, max_len)
    calls = [call() for _ in range(n)]
    probe = call()
    if rng.random() < 0.5:
        # probe related to an earlier call: same abbreviation through another configuration, or the same call again
        c0 = rng.choice(calls)
        if rng.random() < 0.5:
            probe = dict(c0)
        else:
            probe = dict(probe, abbr=c0['abbr'])
    return {'dicts': dicts, 'ncaches': ncaches, 'objs': objs, 'calls': calls, 'probe': probe}


def pair_histories():
    """every ordered pair (call, probe) over a compact pool where everything shareable is shared"""
    css = []
    for sn in (None, {'foo': 'margin:10'}, {'foo': 'padding:5 7.5'}):
        for op in (None, {'stylesheet.intUnit': 'pt', 'stylesheet.floatUnit': 'rem'}):
            d = {'type': 'stylesheet', 'cache': 0}
            _put(d, 'snippets', sn)
            _put(d, 'options', op)
            css.append(d)
    css.append({'type': 'stylesheet', 'cache': 0, 'snippets': {'bad': 'margin:(('}})
    css.append({'type': 'stylesheet', 'cache': 0, 'snippets': {'foo': 'margin:10'}, 'context': {'name': 'margin'}})
    abbrs = ['foo', 'm10']
    out = []
    calls = [{'abbr': a, 'via': 'dict', 'd': i} for i in range(len(css)) for a in abbrs]
    for c1 in calls:
        for c2 in calls:
            if c1['d'] != c2['d']:
                out.append({'dicts': css, 'ncaches': 1, 'objs': [], 'calls': [c1], 'probe': c2})
    mk = []
    for tx in (None, ['x', 'y']):
        for op in (None, {'bem.enabled': True}):
            d = {'snippets': {'bad': 'a)', 'foo': 'div.x>span{hi}'}}
            _put(d, 'text', tx)
            _put(d, 'options', op)
            mk.append(d)
    calls = [{'abbr': a, 'via': v, 'd': i} for i in range(len(mk)) for a in ('bad', 'p*', '.b>._e+foo') for v in ('dict', 'obj')]
    for c1 in calls:
        for c2 in calls:
            if c1['d'] == c2['d']:
                out.append({'dicts': mk, 'ncaches': 0, 'objs': list(range(len(mk))), 'calls': [c1], 'probe': c2})
    return out


def search_candidates(h, upto):
    """SEARCH: the model and the implementation disagree about the state after call `upto` of `h`, but no call of
    `h` shows a wrong result.  Probes that would expose a corrupted state: after the same prefix, every
    configuration of the history and its twins with other units / other snippets / with text, with the
    abbreviations of the history and a few fixed ones."""
    prefix = h['calls'][:upto + 1] if upto < len(h['calls']) else list(h['calls'])
    dicts = [json.loads(json.dumps(d)) for d in h['dicts']]
    base_n = len(dicts)
    for i in range(base_n):
        d = dicts[i]
        if d.get('type') == 'stylesheet':
            for op in ({'stylesheet.intUnit': 'pt', 'stylesheet.floatUnit': 'rem'}, {'stylesheet.intUnit': 'px'}):
                t = json.loads(json.dumps(d))
                t['options'] = dict(t.get('options') or {}, **op)
                dicts.append(t)
            for sn in (None, {'foo': 'margin:10'}):
                t = json.loads(json.dumps(d))
                t.pop('snippets', None)
                _put(t, 'snippets', sn)
                dicts.append(t)
    abbrs = []
    for c in list(h['calls']) + [h['probe']]:
        if c['abbr'] not in abbrs:
            abbrs.append(c['abbr'])
    out = []
    for i in list(range(base_n, len(dicts))) + list(range(base_n)):   # the twins first
        d = dicts[i]
        pool = abbrs + (['foo', 'm10', 'p1.5'] if d.get('type') == 'stylesheet' else ['p*', 'div', '.b>._e'])
        for a in pool[:6]:
            out.append({'dicts': dicts, 'globals': h.get('globals', []), 'ncaches': h.get('ncaches', 0), 'objs': h.get('objs', []),
                        'calls': prefix, 'probe': {'abbr': a, 'via': 'dict', 'd': i}})
            if i < base_n and i in h.get('objs', []):
                out.append({'dicts': dicts, 'globals': h.get('globals', []), 'ncaches': h.get('ncaches', 0), 'objs': h.get('objs', []),
                            'calls': prefix, 'probe': {'abbr': a, 'via': 'obj', 'd': h['objs'].index(i)}})
    return out
