#!/usr/bin/env python3
"""Regenerates MANIFEST.json from the table below (keeps it schema-valid and the
not_applicable list complete).  Run: python3 harness/manifest_gen.py"""
import json
import os

VERIF = os.path.dirname(os.path.dirname(os.path.abspath(__file__)))

NOTE = ("Trusted: Coq 8.16.1 kernel (+vm_compute), extraction with ExtrOcamlBasic only, OCaml driver, table generator, "
        "Python harness and CPython. The Python code is modelled by hand-written Gallina and tied to it by generated "
        "tables and differential correspondence; theorems are about the model.")

CHECKS = {
    'C18': dict(
        text="Machine-checked Coq theorems (tiling, error position inside input, losslessness) for all strings about a "
             "Gallina model of the tokenizers; model tied to the code by differential correspondence on exhaustive short "
             "strings and random strings; a direct tiling oracle on the implementation finds the failing input when they diverge.",
        technique="Coq proof by structural induction over the input (skip-counter tokenizer model) + model/implementation correspondence",
        ref="DESIGN.md §5 C18"),
}

PENDING_REASON = "not claimed yet: model/theorems for this property are not built at this commit (see DESIGN.md §8 build order)"


def main():
    ids = []
    with open(os.path.join(VERIF, 'properties.jsonl')) as f:
        for line in f:
            if line.strip():
                ids.append(json.loads(line)['id'])
    checks = []
    for pid in ids:
        if pid in CHECKS:
            c = CHECKS[pid]
            checks.append({
                'property_id': pid,
                'quick_cmd': './check %s --tier quick' % pid,
                'thorough_cmd': './check %s --tier thorough' % pid,
                'evidence_file': 'evidence/%s.json' % pid,
                'replay_cmd_template': './check %s --replay {path}' % pid,
                'engine': 'coq-model',
                'level_claimed': {'category': 'proof', 'text': c['text'], 'design_ref': c['ref']},
                'level_note': c.get('note', NOTE),
                'technique': c['technique'],
            })
    man = {
        'version': 1,
        'setup_cmd': './setup.sh',
        'hooks': {
            'guard': 'EMMETIO_PY_EMMET_VERIF',
            'enable': 'no hooks are needed: every observable is reachable through the public API, callbacks and module '
                      'attributes; checks run the working tree of /repo directly with PYTHONPATH=/repo',
            'baseline_off_cmd': 'cd /repo && /venv/bin/python -m pytest -ra -q -p no:cacheprovider --timeout=900 '
                                '--continue-on-collection-errors',
            'source_commits': [],
            'add_only': True,
        },
        'engines': [{
            'name': 'coq-model', 'path': 'coq/', 'serves_properties': sorted(CHECKS),
            'kind_free_text': 'Coq 8.16.1 development: hand-written Gallina models, theorems, tables generated from /repo; '
                              'extracted to OCaml for differential correspondence with the Python implementation',
        }],
        'checks': checks,
        'not_applicable': [{'property_id': p, 'reason': PENDING_REASON} for p in ids if p not in CHECKS],
        'notes': 'see DESIGN.md; known findings and fix records in known_findings.json',
    }
    with open(os.path.join(VERIF, 'MANIFEST.json'), 'w') as f:
        json.dump(man, f, indent=1)
    print('MANIFEST.json: %d checks, %d not claimed' % (len(checks), len(man['not_applicable'])))


if __name__ == '__main__':
    main()
