#!/usr/bin/env python3
"""Regenerates MANIFEST.json from the table below (keeps it schema-valid and the
not_applicable list complete).  Run: python3 harness/manifest_gen.py"""
import json
import os

VERIF = os.path.dirname(os.path.dirname(os.path.abspath(__file__)))

NOTE = ("Trusted: Coq 8.16.1 kernel (+vm_compute), extraction with ExtrOcamlBasic only, OCaml driver, table generator, "
        "Python harness and CPython. The Python code is modelled by hand-written Gallina and tied to it by generated "
        "tables and differential correspondence; theorems are about the model.")

CHECKS = {
    'C01': dict(
        text="Coq theorems about the whole expand model at STRING level (props/C01Expand.v): for every text of names separated by > + "
             "and runs of ^, with *N on elements and with nested groups ( ... )*N, and every configuration of a stated clean domain "
             "(HTML-family formatter, comments off, no wrap text, names not snippet keys / lorem; formatting on or off, every "
             "self-closing style), expand_markup succeeds and its tag chunks nest to exactly the denoted (depth, name) list: every "
             "written element once per repetition, in document order, with its own name. Built from: tokenizer step lemmas, parser "
             "spine invariant (flat and groups), converter unrolling spec, snippet/transform identity on plain names, format_events. "
             "Implicit names end to end (props/C01Implicit.v): for statements whose units are name | name.cls | name#id | .cls | #id "
             "(groups, *N), a nameless element receives the documented implicit name of its parent in the denoted tree (table-free "
             "rule proved equal to the lookup over the regenerated ELEMENT_MAP / inline list) and carries its class/id attribute. "
             "Whole-pipeline model/implementation correspondence and an independent denotation oracle "
             "on expand() output cover attributes, snippets, wrap text and the remaining configurations.",
        technique="Coq proof: end-to-end composition (tokenizer, parser spine by mutual induction over statements and groups, converter unrolling, resolve/transform identity, formatter tag events) + generated ELEMENT_MAP table + whole-pipeline model/implementation correspondence and denotation oracle",
        ref="DESIGN.md §5 C01, §10"),
    'C02': dict(
        text="Coq theorems for all token trees (without $# / implicit *): convert equals a pure unrolling spec with a budget "
             "(C02_limit_full, closed form of maxRepeat), exactly N consecutive copies indexed in order, counters of the nearest "
             "enclosing repeated unit, numbering value incl. reverse-with-base, zero padding width, tokenization of every $..$@-M form, "
             "budget step/exhausted/enough lemmas; every tree the parser returns on tokenizer output free of `$#` / bare `*` is in "
             "that domain (parser_output_clean), and the closed form extends to implicit repeaters with wrap text. Independent oracle computes the expected forest from the abbreviation AST and "
             "compares with a tag parse of expand() output; extracted spec and model compared with the implementation.",
        technique="Coq proof by structural induction over token trees (converter vs unrolling spec with budget) + numbering arithmetic lemmas + model/implementation correspondence and AST oracle",
        ref="DESIGN.md §5 C02"),
    'C03': dict(
        text="Coq theorems for ALL attribute lists and both reverse settings: merge_attributes computes a short merge spec (stable "
             "de-duplication at the first position, class values joined by single spaces in written order, last value wins / first "
             "under reverseAttributes, flag rules); decision table of push_attribute over all configs, names, values and flags "
             "(quotes, braces, boolean expansion/compaction, implied dropped, empty value = tabstop, name mapping); CHARACTER level: for every "
             "element written as name + #id/.class shorthands + [ ... ] sets (valueless, unquoted, quoted, {expr}, boolean `n.`, implied "
             "`!n`) tokenize+parse+convert yields exactly the written mentions in order with value, type and flags, and the whole expand "
             "pipeline prints `<name` + merged mentions through the output table + `>text</name>` (BEM off); flat statements at text "
             "level. Not covered by a theorem: $ numbering/fields in values, bare quoted attributes, jsx `.{e}`. Independent oracle "
             "parses the tags of expand() output and applies the rules to the generated mentions.",
        technique="Coq proof by induction over attribute lists (merge loop vs spec) and case analysis of push_attribute + model/implementation correspondence (output string and full parse tree) and attribute oracle",
        ref="DESIGN.md §5 C03"),
    'C04': dict(
        text="Coq theorems: text_literal for ALL brace-balanced payloads (tokenize+parse+convert of name{T} gives [unescape T]), "
             "placeholder totality, group brackets, wrap_plain for all trees and texts, and the implicit-repeater wrap clause IN FULL "
             "(props/C04Wrap.v: convert equals a pure spec for every token tree incl. nested explicit/implicit repeaters and `$#` at "
             "any depth, every line list, every budget; from the abbreviation text itself), text reaches the stream verbatim split only at CR/LF/CRLF, "
             "children after text; attribute values are the written text character for character (quoted, unquoted with balanced "
             "parentheses, expression), a[b=(c)] end to end, text on elements with attributes through expand; C04_text_nested and "
             "companions: payloads with `$` counters, `$#` and `${n}` fields at ANY brace depth of a text or `{expression}` value "
             "(closing brace is the last token, value tokens in order, copy i of *N, through expand; false before repair 86fc68a, shown "
             "on the pre-repair tokenizer); whole-text insertion incl. markup.href (insert_wrap). Independent oracle over "
             "the whole punctuation alphabet, nested payloads with counters, snippet-alias trees and wrap-line lists / strings.",
        technique="Coq proof by induction over the payload (tokenizer literal scanner with brace depth) and over converted forests + model/implementation correspondence and payload oracle",
        ref="DESIGN.md §5 C04"),
    'C05': dict(
        text="Coq theorems about the stylesheet pipeline model: end-to-end value_seq_expand from the STRING (numbers and colours of any "
             "length with the statement's connectors, +-joined properties, trailing !), hex round trip and short-hex iff (complete "
             "per-channel sweep), the four hex forms, alpha -> rgba with canonical decimals, unit decision rule, dash rule on the tokenizer "
             "step, important rule, line shape; every built-in property key satisfies the theorem's hypothesis (sweep). Independent "
             "oracle re-states the value rules over a product grammar x syntaxes x unit/shortHex options; colour value never changes.",
        technique="Coq proof (tokenizer/parser/resolver/formatter composition over value sequences, complete finite sweeps for channels and alpha digits) + generated snippet/option tables + in-Coq model evaluation compared with the implementation",
        ref="DESIGN.md §5 C05",
        note=NOTE + " Theorems that mention the scorer or the configuration record list the kernel primitives PrimFloat.* / PrimInt63.* under Print Assumptions (declared Primitive, not axioms)."),
    'C06': dict(
        text="Coq theorems: keys_reach_self as a COMPLETE vm_compute sweep over every key of the regenerated built-in table (matcher selects "
             "the key's own snippet, output is its property + first value/tabstop or raw body), keywords_resolve sweep over every "
             "(snippet, letters-only keyword) in five letter cases, keyword_any_case for all tables, score_case_invariant for all "
             "strings (PrimFloat, bit-exact), exact_key_wins for all tables, user_overrides, scope filters; for user property snippets: "
             "C06_value_print / _wrapped_print / _wrapped_numbering / _erase_identity for ALL written values (keywords, numbers, colours, "
             "strings, nested calls; fields 1..k in document order; erasing the fields gives the unwrapped printing) and the source-text "
             "theorems for the canonical layout (_partial: other blank layouts, explicit fields in the text). Four listed findings "
             "(keyword with a digit, raw snippet line break before a tabstop, user override of the gradient key, tabstop directly after "
             "a call). Oracle over every key/keyword x syntax x scope, random user tables with cased keys, values compared as listed, "
             "tables supplied through global_config layers.",
        technique="Coq proof + complete finite sweeps over the generated snippet table (PrimFloat scorer evaluated by vm_compute) + in-Coq model evaluation compared with the implementation",
        ref="DESIGN.md §5 C06",
        note=NOTE + " Theorems that mention the scorer list the kernel primitives PrimFloat.* / PrimInt63.* under Print Assumptions (declared Primitive, not axioms)."),
    'C07': dict(
        text="Coq theorems for the markup model: for ALL abbreviations and ALL configurations with well-formed snippet tables expand_markup "
             "returns Ok or a Scanner/Token parse error with 0 <= pos <= length, never Internal, never OutOfFuel (tokenize_safe, "
             "parser_safe for all token lists, convert_safe, resolve_safe with tight fuel bound, complete sweep of the regenerated "
             "built-in tables), including the BEM addon (bem never raises; bem.enabled configurations are inside C07_expand_safe); the same "
             "for the stylesheet model (C07_css_expand_safe, parser over all token lists with fuel adequacy). "
             "markup.href is inside the model (matchers proved equivalent to the regex denotations over tables regenerated from the compiled "
             "patterns, props/Href.v; full expand() output compared), and so is lorem text generation with the random draws as an explicit "
             "stream (props/Lorem.v: never Internal for every header and stream, exactly word_count vocabulary entries, OutOfFuel exactly "
             "when the draws run out; the implementation runs under the same recorded draws). CPython's limits (recursion depth, the 4300-digit int "
             "conversion) are implementation-oracle only (exhaustive short strings, random and "
             "mutated abbreviations, random option sets); two listed recursion-limit findings.",
        technique="Coq proof stage-wise (tokenizer, parser over all token lists, converter, snippet resolution with fuel bound, composition) + complete vm_compute sweep of generated snippet tables + exhaustive short-string outcome-class correspondence",
        ref="DESIGN.md §5 C07"),
    'C08': dict(
        text="Coq theorems over a state-machine model of the library state that survives a call (caller text slot, cache dicts, BEM "
             "default dict), for every history length, every world (pure pipeline parts abstract) and every probe: history_independent, "
             "every_call_independent, caller_cfg_preserved, cache_transparent, cache_entries_valid (inductive invariant), no_growth; "
             "one refutation per pre-repair defect switch; C08_markup_history_is_expand_markup (the world whose markup parts are the real "
             "pipeline model: after ANY history a markup probe returns exactly expand_markup_str of the probe alone, also from any "
             "starting state), C08_state_size_bounded, C08_cache_entry_origin. Tied to the code by per-call state correspondence and by "
             "running the history model over the real markup and stylesheet models (the executed world is the one the theorem speaks about). Oracle: random histories followed by a probe compared with the same call "
             "in a fresh interpreter process; caller dict deep-equality; sizes of module containers and function defaults; gc-based "
             "reachability is support, not proof.",
        technique="Coq proof of an inductive invariant over fold_left step on a history state machine + model/implementation state correspondence + fresh-interpreter differential oracle",
        ref="DESIGN.md §5 C08"),
    'C09': dict(
        text="Coq theorems: match/balanced_outward/balanced_inward as folds over scanner events return the innermost element, the "
             "enclosing chain and the first-child chain for every well-nested forest (unbounded), attribute ranges are exact; "
             "public entry points composed with the scanner model (level A); scan_render: for ALL documents of a text grammar (paired, "
             "self-closed and void elements, quoted/unquoted/expression attribute values containing > and <, directive and bracketed "
             "attribute names, comments, CDATA, PIs, doctype, script/style bodies) scan (render d) = events d (level B), composed into "
             "match/outward/inward and attribute-range theorems on TEXT; the name classes of the model ARE the XML 1.0 productions "
             "(C09_name_start_char_is_xml, C09_name_char_is_xml, C09_grammar_names_are_xml_names; the character-class comparison with "
             "the implementation sweeps all code points in the thorough tier). Correspondence over generated documents (names over the "
             "whole alphabet, self-closed raw-text elements, call sequences) with ground truth at every position.",
        technique="Coq proof by induction over forests with a stack invariant (events fold) + model/implementation correspondence on generated documents with ground truth",
        ref="DESIGN.md §5 C09"),
    'C10': dict(
        text="Coq theorems: CSS match/balanced_outward/balanced_inward over scanner events equal innermost rule/declaration, chain and "
             "first-child chain for all well-formed rule trees with ;-terminated declarations (level A); css_scan_render: for ALL sheets of a "
             "text grammar (nested rules, pseudo-selectors, at-rules with parenthesised conditions, strings, comments, SCSS variables, "
             "custom properties, arbitrary gaps) scan (render sh) = events sh (level B), composed into match/outward/inward theorems on "
             "TEXT. Generated stylesheets are read back as grammar sheets and compared with model and implementation. One known "
             "finding (delimiters inside parentheses), refuted on the model and excluded from the grammar.",
        technique="Coq proof by induction over rule trees (events fold with selector stack invariant) + model/implementation correspondence on generated stylesheets with ground truth",
        ref="DESIGN.md §5 C10"),
    'C11': dict(
        text="Coq theorems for all lines, positions and options: extract result consistency (slice, bounds, no dangling operator, "
             "prefix placement, look-ahead bound); round trip for the stated grammar after start of line / whitespace / complete HTML "
             "tag proved for abbreviations free of the three listed finding shapes (_partial), with refutation witnesses for those shapes.",
        technique="Coq proof by induction over the backward scan with bracket stack + generated char tables + model/implementation correspondence",
        ref="DESIGN.md §5 C11"),
    'C12': dict(
        text="Coq theorems about the HTML formatter model: format_cosmetic (for all trees, two option records differing only in the "
             "formatting options give equal content: relational induction); C12_indent_is_depth (FULL: one statement over every "
             "line-break chunk of the output of every forest in depth_dom -- the number of indent units equals the number of open "
             "elements read off the tag chunks, tag_chunks_are_events); C12_close_aligned (FULL on align_dom: a closing tag on its own "
             "line has the units of the line of its opening tag); C12_comments_additive (FULL: the stream with comments off is the "
             "stream with comments on minus inserted comment chunks, comments_erase); C12_selfclose_local (FULL on its exact domain: "
             "streams differ only at self-closing marks; refuted under compactBoolean = listed finding); level_restored; the earlier "
             "_partial statements stay beside them; the four places where the faithful model violates the statement are proved as "
             "_refuted theorems and listed findings. Oracle: same abbreviation under two option sets compared after stripping "
             "inter-tag whitespace; indentation of every line vs open elements; closing-tag alignment; comments; self-closing styles; "
             "html/xml/xsl/jsx/vue/svelte; the depth/alignment domains and per-line units also evaluated in Coq (run/DepthRun.v) against the implementation.",
        technique="Coq proof by relational induction over the tree (two runs, related streams), line-break/level invariants over the whole stream + callback-event correspondence with the implementation + two-option-set oracle",
        ref="DESIGN.md §5 C12"),
    'C13': dict(
        text="Coq theorems: every stream produced by the HTML and indent formatters is built from the stream primitives (reachability), "
             "and for every reachable stream every callback event sits at exactly the offset, line and column it reports in the final "
             "string (callback_positions_exact; any newline string: relative to the stream's own line ends); tabstops_in_order for "
             "trees without explicit fields (HTML and haml/pug/slim), explicit fields keep relative order and are disjoint across values, "
             "field counter monotone. Stylesheet formatter (props/C13Css.v, stream model beside the string model with os_value = stringify "
             "proved): its stream is reachable, every callback position exact for every abbreviation and configuration, field callbacks "
             "are the resolved tokens in document order with their own indices (stylesheet indices may repeat across properties, as "
             "the code, its tests and upstream do: the numbering clause speaks about markup output). Oracle checks every callback "
             "invocation against the final string (markup and stylesheet syntaxes, \n / \r\n / custom newlines, indent, baseIndent).",
        technique="Coq proof of a stream-position invariant over all operation sequences + reachability of formatter streams by induction over the tree + callback-event correspondence and position oracle",
        ref="DESIGN.md §5 C13"),
    'C14': dict(
        text="Coq theorems: snippet resolution never runs out of fuel with the fuel markup_parse supplies (pigeonhole on the duplicate-free "
             "stack), nesting depth <= |snippets|, for ALL tables incl. self-referencing and mutually recursive ones; "
             "C14_alias_eq_definition for ALL tables and keys whose definition does not reach itself through the names it mentions "
             "(self_free: decidable, proved equivalent to the reachability relation; the cyclic case is refuted by example, "
             "C14_cyclic_cut_refuted, both sides terminate) -- markup_parse and expand of the key equal those of the definition; "
             "C14_alias_decorated / _attributes / _repeat / _text / _self_closing / _children: attributes, text, repeater and the "
             "self-closing mark written on the alias land on every top-level node of the resolved definition, children under its "
             "deepest node; string forms k>c, k+c, k.c, k#c; alias = definition additionally as a COMPLETE vm_compute sweep over every "
             "key of the regenerated html/xsl/pug tables in four forms (covers the built-in self-references such as a = a[href]). "
             "Oracle: expand(alias form) == expand(definition-in-place form) on random user tables with cycles (termination, depth), "
             "decorated-alias equations stated directly on resolve_snippets' trees; extracted resolver (run/SnipRun.v) compared on the same trees.",
        technique="Coq proof (fuel bound by pigeonhole over the resolution stack, reachability/stack-irrelevance lemmas, merge equations) + complete finite sweep over generated snippet tables + model/implementation correspondence",
        ref="DESIGN.md §5 C14"),
    'C15': dict(
        text="Coq theorems for ALL forests (names/attributes free of CR/LF, arbitrary multi-line values), all option and punctuation "
             "records: the output of the indent formatter equals the join of node_lines (indent^depth ++ head ++ inline value, text "
             "lines and children one level deeper; div omitted iff id/class present), for haml/slim/pug and end to end through "
             "expand_markup_str; multi-line text layout; format_events for the HTML formatter and same-tree theorem (the depth list "
             "recovered from indentation equals the nesting of the HTML tag chunks). Extracted SPEC compared with the implementation.",
        technique="Coq proof by induction over the tree with stream value/level lemmas (indent and HTML formatters) + extracted spec and model compared with the implementation + AST oracle",
        ref="DESIGN.md §5 C15"),
    'C16': dict(
        text="Coq theorems for ALL strings and positions (Z): HTML and CSS scanner events are well-formed ranges inside the source, "
             "ordered; tag ranges start with < and end with >; folds (match/outward/inward) well-formed, match = head of outward, strict "
             "nesting; attributes and split_value ranges well-formed; no internal error in the models. Tied by exhaustive short-string "
             "and random/mutated-document correspondence at positions -1..len+1.",
        technique="Coq proof by structural induction over the input (skip-counter scanner models) and over event lists + exhaustive short-string correspondence",
        ref="DESIGN.md §5 C16"),
    'C17': dict(
        text="Coq theorems, all full: select_item_html as an EQUATION for every string, position and direction (tag-name range, per "
             "attribute full range, unquoted value, class words with de-duplication), get_open_tag as an equation; on TEXT of the "
             "C09/C10 level-B grammars: select_item_html / get_open_tag return the tags of the document's own record with ranges "
             "slicing exactly to the written names, attributes, values and class tokens; get_css_section returns the innermost rule "
             "and its direct declarations with exact name/value/before/after offsets; select_item_css equals the tree spec. Tied by "
             "correspondence on generated documents with ground truth at every position (incl. names over the whole XML 1.0 name alphabet -- "
             "C09_name_start_char_is_xml / C09_name_char_is_xml, repair a3d4986 --, empty-valued declarations, a last declaration `name:` ended by the body: C17_css_properties_every_tail, "
             "repair f0985e3). One known finding (brace-terminated declaration full range).",
        technique="Coq proof over scanner-event and attribute-token models + model/implementation correspondence on generated documents with ground truth",
        ref="DESIGN.md §5 C17"),
    'C18': dict(
        text="Machine-checked Coq theorems (tiling, error position inside input, losslessness, merge_tokens preserves tiling) for all "
             "strings about Gallina models of both tokenizers (markup; stylesheet in property and value mode); models tied to the code by "
             "differential correspondence on exhaustive short strings and random strings; a direct tiling oracle on the implementation "
             "finds the failing input when they diverge.",
        technique="Coq proof by structural induction over the input (skip-counter tokenizer model) + model/implementation correspondence",
        ref="DESIGN.md §5 C18"),
    'C19': dict(
        text="Coq theorems: order_tokens yields the postfix of the regrouped expression tree for every expression of the documented "
             "grammar, the stack evaluator computes its value over Q (evaluate_correct), malformed input yields only the parse error or "
             "ZeroDivision (parse_errors_only, parse_sound), extract ranges are well-formed; operator tables regenerated from source. "
             "Float rounding/range is outside the model (three listed float-range findings).",
        technique="Coq proof (shunting-yard invariant by induction over expression trees, stack-machine evaluation over Q) + generated priority tables + exhaustive token-sequence correspondence",
        ref="DESIGN.md §5 C19"),
    'C20': dict(
        text="Coq theorems: layer order regenerated from the AST of config.merged_data equals the documented order; merged_lookup for all "
             "layer contents (most specific defining layer wins), untouched layers, unknown syntax fall-back, Config.__init__ slots; "
             "complete sweep of all 2^6 layer subsets x every syntax name x {options, snippets, variables} over the generated tables; "
             "purity on a heap model with explicit aliasing; an expand model over the merged configuration (config_init, then what expand "
             "reads, then the markup / stylesheet pipeline models): C20_expand_uses_merged, C20_canonical_form and "
             "C20_expand_layers_congruent (layer contents with the same effective values give the same expansion, for every abbreviation); "
             "values behind the table ids regenerated from emmet/config.py (gen_configvals). The expand model is executed on every "
             "expand-visible cell (markup: extracted; stylesheet: inside Coq). Exhaustive implementation table (evidence exhaustive: true) observed on "
             "Config(...) and through expand() output.",
        technique="Coq proof over association-list layers + fail-closed AST translation of merged_data/Config.__init__ + complete finite sweep over generated tables + exhaustive implementation table",
        ref="DESIGN.md §5 C20"),
}

PENDING_REASON = "not claimed yet: model/theorems for this property are not built at this commit (see DESIGN.md §8 build order)"


def main():
    ids = []
    with open(os.path.join(VERIF, 'properties.jsonl')) as f:
        for line in f:
            if line.strip():
                ids.append(json.loads(line)['id'])
    checks = []
    for pid in ids:
        if pid in CHECKS:
            c = CHECKS[pid]
            checks.append({
                'property_id': pid,
                'quick_cmd': './check %s --tier quick' % pid,
                'thorough_cmd': './check %s --tier thorough' % pid,
                'evidence_file': 'evidence/%s.json' % pid,
                'replay_cmd_template': './check %s --replay {path}' % pid,
                'engine': 'coq-model',
                'level_claimed': {'category': 'proof', 'text': c['text'], 'design_ref': c['ref']},
                'level_note': c.get('note', NOTE),
                'technique': c['technique'],
            })
    man = {
        'version': 1,
        'setup_cmd': './setup.sh',
        'hooks': {
            'guard': 'EMMETIO_PY_EMMET_VERIF',
            'enable': 'no hooks are needed: every observable is reachable through the public API, callbacks and module '
                      'attributes; checks run the working tree of /repo directly with PYTHONPATH=/repo',
            'baseline_off_cmd': 'cd /repo && /venv/bin/python -m pytest -ra -q -p no:cacheprovider --timeout=900 '
                                '--continue-on-collection-errors',
            'source_commits': [],
            'add_only': True,
        },
        'engines': [{
            'name': 'coq-model', 'path': 'coq/', 'serves_properties': sorted(CHECKS),
            'kind_free_text': 'Coq 8.16.1 development: hand-written Gallina models, theorems, tables generated from /repo; '
                              'extracted to OCaml for differential correspondence with the Python implementation',
        }],
        'checks': checks,
        'not_applicable': [{'property_id': p, 'reason': PENDING_REASON} for p in ids if p not in CHECKS],
        'notes': 'see DESIGN.md; known findings and fix records in known_findings.json',
    }
    with open(os.path.join(VERIF, 'MANIFEST.json'), 'w') as f:
        json.dump(man, f, indent=1)
    print('MANIFEST.json: %d checks, %d not claimed' % (len(checks), len(man['not_applicable'])))


if __name__ == '__main__':
    main()
