#!/usr/bin/env python3
"""Regenerates MANIFEST.json from the table below (keeps it schema-valid and the
not_applicable list complete).  Run: python3 harness/manifest_gen.py"""
import json
import os

VERIF = os.path.dirname(os.path.dirname(os.path.abspath(__file__)))

NOTE = ("Trusted: Coq 8.16.1 kernel (+vm_compute), extraction with ExtrOcamlBasic only, OCaml driver, table generator, "
        "Python harness and CPython. The Python code is modelled by hand-written Gallina and tied to it by generated "
        "tables and differential correspondence; theorems are about the model.")

CHECKS = {
    'C01': dict(
        text="Coq theorems about the Gallina models of tokenizer, parser and converter: (string level) for EVERY text of letter names "
             "separated by > + and runs of ^, tokenize+parse yields a tree whose preorder (depth, name) list is the denotation of the "
             "operators; (token level) the same for all flat statements and for statements with groups ( ... )*N nested to any depth "
             "(mutual induction); convert_shape: the unrolled forest has the denoted depth list and every written element times the "
             "repeat counts around it; implicit-name decision rule over the table regenerated from the source. _partial: the "
             "formatter's tag events and the composition into one expand theorem are covered by the whole-pipeline "
             "model/implementation correspondence and by an independent denotation oracle on expand() output.",
        technique="Coq proof by induction over statements/units with a parser-spine invariant, tokenizer step lemmas, converter unrolling spec + generated ELEMENT_MAP table + whole-pipeline model/implementation correspondence and denotation oracle",
        ref="DESIGN.md §5 C01"),
    'C02': dict(
        text="Coq theorems for all token trees (without $# / implicit *): convert equals a pure unrolling spec with a budget "
             "(C02_limit_full, closed form of maxRepeat), exactly N consecutive copies indexed in order, counters of the nearest "
             "enclosing repeated unit, numbering value incl. reverse-with-base, zero padding width, tokenization of every $..$@-M form, "
             "budget step/exhausted/enough lemmas. Independent oracle computes the expected forest from the abbreviation AST and "
             "compares with a tag parse of expand() output; extracted spec and model compared with the implementation.",
        technique="Coq proof by structural induction over token trees (converter vs unrolling spec with budget) + numbering arithmetic lemmas + model/implementation correspondence and AST oracle",
        ref="DESIGN.md §5 C02"),
    'C04': dict(
        text="Coq theorems: text_literal for ALL brace-balanced payloads (tokenize+parse+convert of name{T} gives [unescape T]), "
             "placeholder totality, group brackets, wrap_plain for all trees and texts, wrap text on leaves and (partial: state-purity "
             "assumption, no nested repeaters) implicit-repeater wrap, text reaches the stream verbatim split only at CR/LF/CRLF, "
             "children after text. Attribute-position compositions are partial (correspondence + oracle). Independent oracle over the "
             "whole punctuation alphabet and wrap-line lists.",
        technique="Coq proof by induction over the payload (tokenizer literal scanner with brace depth) and over converted forests + model/implementation correspondence and payload oracle",
        ref="DESIGN.md §5 C04"),
    'C07': dict(
        text="Coq theorems for the markup model: for ALL abbreviations and ALL configurations with well-formed snippet tables expand_markup "
             "returns Ok or a Scanner/Token parse error with 0 <= pos <= length, never Internal, never OutOfFuel (tokenize_safe, "
             "parser_safe for all token lists, convert_safe, resolve_safe with tight fuel bound, complete sweep of the regenerated "
             "built-in tables). Stylesheet half, BEM, lorem text and CPython's recursion limit are implementation-oracle only "
             "(exhaustive short strings, random and mutated abbreviations, random option sets); two listed recursion-limit findings.",
        technique="Coq proof stage-wise (tokenizer, parser over all token lists, converter, snippet resolution with fuel bound, composition) + complete vm_compute sweep of generated snippet tables + exhaustive short-string outcome-class correspondence",
        ref="DESIGN.md §5 C07"),
    'C09': dict(
        text="Coq theorems: match/balanced_outward/balanced_inward as folds over scanner events return the innermost element, the "
             "enclosing chain and the first-child chain for every well-nested forest (unbounded), attribute ranges are exact; "
             "public entry points composed with the scanner model. Scanner-level rendering theorem is partial (correspondence over "
             "generated documents with ground truth at every position).",
        technique="Coq proof by induction over forests with a stack invariant (events fold) + model/implementation correspondence on generated documents with ground truth",
        ref="DESIGN.md §5 C09"),
    'C10': dict(
        text="Coq theorems: CSS match/balanced_outward/balanced_inward over scanner events equal innermost rule/declaration, chain and "
             "first-child chain for all well-formed rule trees with ;-terminated declarations (level A); css_scan_render: for ALL sheets of a "
             "text grammar (nested rules, pseudo-selectors, at-rules with parenthesised conditions, strings, comments, SCSS variables, "
             "custom properties, arbitrary gaps) scan (render sh) = events sh (level B), composed into match/outward/inward theorems on "
             "TEXT. Generated stylesheets are read back as grammar sheets and compared with model and implementation. One known "
             "finding (delimiters inside parentheses), refuted on the model and excluded from the grammar.",
        technique="Coq proof by induction over rule trees (events fold with selector stack invariant) + model/implementation correspondence on generated stylesheets with ground truth",
        ref="DESIGN.md §5 C10"),
    'C11': dict(
        text="Coq theorems for all lines, positions and options: extract result consistency (slice, bounds, no dangling operator, "
             "prefix placement, look-ahead bound); round trip for the stated grammar after start of line / whitespace / complete HTML "
             "tag proved for abbreviations free of the three listed finding shapes (_partial), with refutation witnesses for those shapes.",
        technique="Coq proof by induction over the backward scan with bracket stack + generated char tables + model/implementation correspondence",
        ref="DESIGN.md §5 C11"),
    'C16': dict(
        text="Coq theorems for ALL strings and positions (Z): HTML and CSS scanner events are well-formed ranges inside the source, "
             "ordered; tag ranges start with < and end with >; folds (match/outward/inward) well-formed, match = head of outward, strict "
             "nesting; attributes and split_value ranges well-formed; no internal error in the models. Tied by exhaustive short-string "
             "and random/mutated-document correspondence at positions -1..len+1.",
        technique="Coq proof by structural induction over the input (skip-counter scanner models) and over event lists + exhaustive short-string correspondence",
        ref="DESIGN.md §5 C16"),
    'C17': dict(
        text="Coq theorems: get_open_tag soundness/completeness, next/previous item selection and selection-model ranges for HTML; "
             "get_css_section, direct declarations with name/value/token/before/after offsets, select_item_css ranges for CSS, over the "
             "event/token models; tied by correspondence on generated documents with ground truth at every position. One known finding "
             "(brace-terminated declaration full range).",
        technique="Coq proof over scanner-event and attribute-token models + model/implementation correspondence on generated documents with ground truth",
        ref="DESIGN.md §5 C17"),
    'C18': dict(
        text="Machine-checked Coq theorems (tiling, error position inside input, losslessness, merge_tokens preserves tiling) for all "
             "strings about Gallina models of both tokenizers (markup; stylesheet in property and value mode); models tied to the code by "
             "differential correspondence on exhaustive short strings and random strings; a direct tiling oracle on the implementation "
             "finds the failing input when they diverge.",
        technique="Coq proof by structural induction over the input (skip-counter tokenizer model) + model/implementation correspondence",
        ref="DESIGN.md §5 C18"),
    'C19': dict(
        text="Coq theorems: order_tokens yields the postfix of the regrouped expression tree for every expression of the documented "
             "grammar, the stack evaluator computes its value over Q (evaluate_correct), malformed input yields only the parse error or "
             "ZeroDivision (parse_errors_only, parse_sound), extract ranges are well-formed; operator tables regenerated from source. "
             "Float rounding/range is outside the model (three listed float-range findings).",
        technique="Coq proof (shunting-yard invariant by induction over expression trees, stack-machine evaluation over Q) + generated priority tables + exhaustive token-sequence correspondence",
        ref="DESIGN.md §5 C19"),
    'C20': dict(
        text="Coq theorems: layer order regenerated from the AST of config.merged_data equals the documented order; merged_lookup for all "
             "layer contents (most specific defining layer wins), untouched layers, unknown syntax fall-back, Config.__init__ slots; "
             "complete sweep of all 2^6 layer subsets x every syntax name x {options, snippets, variables} over the generated tables; "
             "purity on a heap model with explicit aliasing. Exhaustive implementation table (evidence exhaustive: true) observed on "
             "Config(...) and through expand() output.",
        technique="Coq proof over association-list layers + fail-closed AST translation of merged_data/Config.__init__ + complete finite sweep over generated tables + exhaustive implementation table",
        ref="DESIGN.md §5 C20"),
}

PENDING_REASON = "not claimed yet: model/theorems for this property are not built at this commit (see DESIGN.md §8 build order)"


def main():
    ids = []
    with open(os.path.join(VERIF, 'properties.jsonl')) as f:
        for line in f:
            if line.strip():
                ids.append(json.loads(line)['id'])
    checks = []
    for pid in ids:
        if pid in CHECKS:
            c = CHECKS[pid]
            checks.append({
                'property_id': pid,
                'quick_cmd': './check %s --tier quick' % pid,
                'thorough_cmd': './check %s --tier thorough' % pid,
                'evidence_file': 'evidence/%s.json' % pid,
                'replay_cmd_template': './check %s --replay {path}' % pid,
                'engine': 'coq-model',
                'level_claimed': {'category': 'proof', 'text': c['text'], 'design_ref': c['ref']},
                'level_note': c.get('note', NOTE),
                'technique': c['technique'],
            })
    man = {
        'version': 1,
        'setup_cmd': './setup.sh',
        'hooks': {
            'guard': 'EMMETIO_PY_EMMET_VERIF',
            'enable': 'no hooks are needed: every observable is reachable through the public API, callbacks and module '
                      'attributes; checks run the working tree of /repo directly with PYTHONPATH=/repo',
            'baseline_off_cmd': 'cd /repo && /venv/bin/python -m pytest -ra -q -p no:cacheprovider --timeout=900 '
                                '--continue-on-collection-errors',
            'source_commits': [],
            'add_only': True,
        },
        'engines': [{
            'name': 'coq-model', 'path': 'coq/', 'serves_properties': sorted(CHECKS),
            'kind_free_text': 'Coq 8.16.1 development: hand-written Gallina models, theorems, tables generated from /repo; '
                              'extracted to OCaml for differential correspondence with the Python implementation',
        }],
        'checks': checks,
        'not_applicable': [{'property_id': p, 'reason': PENDING_REASON} for p in ids if p not in CHECKS],
        'notes': 'see DESIGN.md; known findings and fix records in known_findings.json',
    }
    with open(os.path.join(VERIF, 'MANIFEST.json'), 'w') as f:
        json.dump(man, f, indent=1)
    print('MANIFEST.json: %d checks, %d not claimed' % (len(checks), len(man['not_applicable'])))


if __name__ == '__main__':
    main()
