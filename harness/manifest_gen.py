#!/usr/bin/env python3
"""Regenerates MANIFEST.json from the table below (keeps it schema-valid and the
not_applicable list complete).  Run: python3 harness/manifest_gen.py"""
import json
import os

VERIF = os.path.dirname(os.path.dirname(os.path.abspath(__file__)))

NOTE = ("Trusted: Coq 8.16.1 kernel (+vm_compute), extraction with ExtrOcamlBasic only, OCaml driver, table generator, "
        "Python harness and CPython. The Python code is modelled by hand-written Gallina and tied to it by generated "
        "tables and differential correspondence; theorems are about the model.")

CHECKS = {
    'C01': dict(
        text="Coq theorems about the Gallina model of the markup parser: for ALL flat statements (any number of elements, any "
             "mix of > + ^ runs) the preorder depth list of the parsed tree equals the depth-counter denotation of the operators "
             "(parser spine invariant), and the implicit-name decision rule proved over the table regenerated from the source. "
             "_partial: groups, repeater unrolling and formatter tag events are covered by the whole-pipeline model/implementation "
             "correspondence and by an independent denotation oracle on expand() output, not by a theorem yet.",
        technique="Coq proof by induction over statements with a parser-spine invariant + generated ELEMENT_MAP table + whole-pipeline model/implementation correspondence and denotation oracle",
        ref="DESIGN.md §5 C01"),
    'C09': dict(
        text="Coq theorems: match/balanced_outward/balanced_inward as folds over scanner events return the innermost element, the "
             "enclosing chain and the first-child chain for every well-nested forest (unbounded), attribute ranges are exact; "
             "public entry points composed with the scanner model. Scanner-level rendering theorem is partial (correspondence over "
             "generated documents with ground truth at every position).",
        technique="Coq proof by induction over forests with a stack invariant (events fold) + model/implementation correspondence on generated documents with ground truth",
        ref="DESIGN.md §5 C09"),
    'C10': dict(
        text="Coq theorems: CSS match/balanced_outward/balanced_inward over scanner events equal innermost rule/declaration, chain and "
             "first-child chain for all well-formed rule trees with ;-terminated declarations; events of trees are ordered. Scanner "
             "level tied by correspondence on generated stylesheets with ground truth at every position. One known finding "
             "(delimiters inside parentheses).",
        technique="Coq proof by induction over rule trees (events fold with selector stack invariant) + model/implementation correspondence on generated stylesheets with ground truth",
        ref="DESIGN.md §5 C10"),
    'C11': dict(
        text="Coq theorems for all lines, positions and options: extract result consistency (slice, bounds, no dangling operator, "
             "prefix placement, look-ahead bound); round trip for the stated grammar after start of line / whitespace / complete HTML "
             "tag proved for abbreviations free of the three listed finding shapes (_partial), with refutation witnesses for those shapes.",
        technique="Coq proof by induction over the backward scan with bracket stack + generated char tables + model/implementation correspondence",
        ref="DESIGN.md §5 C11"),
    'C16': dict(
        text="Coq theorems for ALL strings and positions (Z): HTML and CSS scanner events are well-formed ranges inside the source, "
             "ordered; tag ranges start with < and end with >; folds (match/outward/inward) well-formed, match = head of outward, strict "
             "nesting; attributes and split_value ranges well-formed; no internal error in the models. Tied by exhaustive short-string "
             "and random/mutated-document correspondence at positions -1..len+1.",
        technique="Coq proof by structural induction over the input (skip-counter scanner models) and over event lists + exhaustive short-string correspondence",
        ref="DESIGN.md §5 C16"),
    'C17': dict(
        text="Coq theorems: get_open_tag soundness/completeness, next/previous item selection and selection-model ranges for HTML; "
             "get_css_section, direct declarations with name/value/token/before/after offsets, select_item_css ranges for CSS, over the "
             "event/token models; tied by correspondence on generated documents with ground truth at every position. One known finding "
             "(brace-terminated declaration full range).",
        technique="Coq proof over scanner-event and attribute-token models + model/implementation correspondence on generated documents with ground truth",
        ref="DESIGN.md §5 C17"),
    'C18': dict(
        text="Machine-checked Coq theorems (tiling, error position inside input, losslessness, merge_tokens preserves tiling) for all "
             "strings about Gallina models of both tokenizers (markup; stylesheet in property and value mode); models tied to the code by "
             "differential correspondence on exhaustive short strings and random strings; a direct tiling oracle on the implementation "
             "finds the failing input when they diverge.",
        technique="Coq proof by structural induction over the input (skip-counter tokenizer model) + model/implementation correspondence",
        ref="DESIGN.md §5 C18"),
    'C19': dict(
        text="Coq theorems: order_tokens yields the postfix of the regrouped expression tree for every expression of the documented "
             "grammar, the stack evaluator computes its value over Q (evaluate_correct), malformed input yields only the parse error or "
             "ZeroDivision (parse_errors_only, parse_sound), extract ranges are well-formed; operator tables regenerated from source. "
             "Float rounding/range is outside the model (three listed float-range findings).",
        technique="Coq proof (shunting-yard invariant by induction over expression trees, stack-machine evaluation over Q) + generated priority tables + exhaustive token-sequence correspondence",
        ref="DESIGN.md §5 C19"),
}

PENDING_REASON = "not claimed yet: model/theorems for this property are not built at this commit (see DESIGN.md §8 build order)"


def main():
    ids = []
    with open(os.path.join(VERIF, 'properties.jsonl')) as f:
        for line in f:
            if line.strip():
                ids.append(json.loads(line)['id'])
    checks = []
    for pid in ids:
        if pid in CHECKS:
            c = CHECKS[pid]
            checks.append({
                'property_id': pid,
                'quick_cmd': './check %s --tier quick' % pid,
                'thorough_cmd': './check %s --tier thorough' % pid,
                'evidence_file': 'evidence/%s.json' % pid,
                'replay_cmd_template': './check %s --replay {path}' % pid,
                'engine': 'coq-model',
                'level_claimed': {'category': 'proof', 'text': c['text'], 'design_ref': c['ref']},
                'level_note': c.get('note', NOTE),
                'technique': c['technique'],
            })
    man = {
        'version': 1,
        'setup_cmd': './setup.sh',
        'hooks': {
            'guard': 'EMMETIO_PY_EMMET_VERIF',
            'enable': 'no hooks are needed: every observable is reachable through the public API, callbacks and module '
                      'attributes; checks run the working tree of /repo directly with PYTHONPATH=/repo',
            'baseline_off_cmd': 'cd /repo && /venv/bin/python -m pytest -ra -q -p no:cacheprovider --timeout=900 '
                                '--continue-on-collection-errors',
            'source_commits': [],
            'add_only': True,
        },
        'engines': [{
            'name': 'coq-model', 'path': 'coq/', 'serves_properties': sorted(CHECKS),
            'kind_free_text': 'Coq 8.16.1 development: hand-written Gallina models, theorems, tables generated from /repo; '
                              'extracted to OCaml for differential correspondence with the Python implementation',
        }],
        'checks': checks,
        'not_applicable': [{'property_id': p, 'reason': PENDING_REASON} for p in ids if p not in CHECKS],
        'notes': 'see DESIGN.md; known findings and fix records in known_findings.json',
    }
    with open(os.path.join(VERIF, 'MANIFEST.json'), 'w') as f:
        json.dump(man, f, indent=1)
    print('MANIFEST.json: %d checks, %d not claimed' % (len(checks), len(man['not_applicable'])))


if __name__ == '__main__':
    main()
