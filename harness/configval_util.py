"""C20, expand model: the structured form of an option / snippet / variable value (coq/lib/ConfigVal.v `cval`).

cval_of(v, cfgmod) -> a tagged tuple; coq_cval / wire_cval print it as a Coq term / wire ints.
Built-in callables: the two objects DEFAULT_OPTIONS['output.field'] / ['output.text'] are recognised by identity,
every other value the model does not look into is ('other', id)."""
import re

from common import enc_str, enc_list

_DEC = re.compile(r'^(\d+)\.(\d+)$')


def cval_of(v, cfgmod, other_id=0):
    do = getattr(cfgmod, 'DEFAULT_OPTIONS', {})
    if v is None:
        return ('none',)
    if isinstance(v, bool):
        return ('bool', v)
    if isinstance(v, int):
        return ('num', v) if v >= 0 else ('other', other_id)
    if isinstance(v, float):
        m = _DEC.match(repr(v))
        if m and v >= 0 and len(m.group(1) + m.group(2)) <= 15:
            frac = m.group(2).rstrip('0')
            return ('dec', int(m.group(1) + frac), len(frac))
        return ('other', other_id)
    if isinstance(v, str):
        return ('str', v)
    if isinstance(v, list) and all(isinstance(x, str) for x in v):
        return ('strs', list(v))
    if isinstance(v, dict) and all(isinstance(k, str) and isinstance(x, str) for k, x in v.items()):
        return ('pairs', list(v.items()))
    if callable(v):
        if v is do.get('output.field'):
            return ('field',)
        if v is do.get('output.text'):
            return ('text',)
    return ('other', other_id)


def _cs(s):
    return '(@nil N)' if s == '' else '[' + '; '.join('%d' % ord(c) for c in s) + ']%N'


def coq_cval(c):
    t = c[0]
    if t == 'none':
        return 'CNone'
    if t == 'bool':
        return 'CBool %s' % ('true' if c[1] else 'false')
    if t == 'num':
        return 'CNum %d%%N' % c[1]
    if t == 'dec':
        return 'CDec %d%%N %d%%nat' % (c[1], c[2])
    if t == 'str':
        return 'CStr %s' % _cs(c[1])
    if t == 'strs':
        return 'CStrs [%s]' % '; '.join(_cs(x) for x in c[1])
    if t == 'pairs':
        return 'CPairs [%s]' % '; '.join('(%s, %s)' % (_cs(k), _cs(x)) for k, x in c[1])
    if t == 'field':
        return 'CFieldDefault'
    if t == 'text':
        return 'CTextDefault'
    return 'COther (%d)%%Z' % c[1]


def wire_cval(c):
    t = c[0]
    if t == 'none':
        return [0]
    if t == 'bool':
        return [1, int(c[1])]
    if t == 'num':
        return [2, c[1]]
    if t == 'dec':
        return [3, c[1], c[2]]
    if t == 'str':
        return [4] + enc_str(c[1])
    if t == 'strs':
        return [5] + enc_list(enc_str, c[1])
    if t == 'pairs':
        return [6] + enc_list(lambda kv: enc_str(kv[0]) + enc_str(kv[1]), c[1])
    if t == 'field':
        return [7]
    if t == 'text':
        return [8]
    return [9, c[1]]
