"""C04 only -- wrap abbreviations the way they are TYPED, beyond the tidy spellings of text_gen.W:

* explicit repeat counts at their numeric boundaries and in every spelling (`*0`, `*00`, `*1`, `*01`, `*001`, `*2`,
  `*02`, `*10`, `*010`) on elements and groups, beside / above / below / instead of the implicit repeater;
* the repeater written at every position the element grammar allows (`li*[a=b]{t}`, `li[a=b]*{t}`, `li[a=b]{t}*`),
  attributes and text in either order;
* `$#` in every attribute value form (unquoted, double / single quoted, `{expression}`) with literal text around it,
  several attributes per element;
* half-typed abbreviations: the closing `}` / `]` / `)` at the END of the abbreviation not typed yet (1 .. all of
  them missing).  The library accepts these (its own tests: test_missingBraces, `[a={foo]`); what was typed after the
  opening bracket is the content, so every `$#` typed is a placeholder like in the completed abbreviation.

The expected output is computed from the tree by the words of the statement (never from the library or the model).
An explicit count of ZERO is the one thing the statement leaves open ("without an implicit repeater the whole text is
inserted once into the deepest last element" -- of the result, whatever `*0` makes of X): both "no copy" and "one copy"
are accepted (two alternative piece lists), any number of copies that depends on the LINES is not."""
import text_gen as g

REP_SPELLINGS = ['0', '0', '00', '000', '1', '01', '001', '2', '2', '02', '3', '03', '10', '010']
ATTR_NAMES = ['title', 'data-v', 'a', 'b']
ATTR_FORMS = ['u', 'd', 's', 'e', 'e']


class N2:
    __slots__ = ('name', 'attrs', 'text', 'ph', 'kids', 'star', 'rep', 'rpos', 'order', 'group', 'bare')

    def __init__(self, name=None, text='', kids=(), group=False):
        self.name = name
        self.attrs = []          # dicts name, form (u d s e), pre, post, ph
        self.text = text
        self.ph = False
        self.kids = list(kids)
        self.star = False
        self.rep = None          # the count as spelled, e.g. '00'
        self.rpos = 2            # repeater after 0 / 1 / all of the parts (attributes, text) of the element
        self.order = 'at'        # attributes then text, or text then attributes
        self.group = group
        self.bare = False        # as last sibling: written without the parentheses around `name>children`


def all_nodes(roots):
    out = []

    def go(n):
        out.append(n)
        for k in n.kids:
            go(k)
    for r in roots:
        go(r)
    return out


def has_ph(n):
    return (not n.group and (n.ph or any(a['ph'] for a in n.attrs))) or any(has_ph(k) for k in n.kids)


def has_star(n):
    return n.star or any(has_star(k) for k in n.kids)


# ---------------------------------------------------------------- rendering: list of (characters, is structural closer)
def _join(kids):
    t = []
    for i, k in enumerate(kids):
        if i:
            t.append(('+', False))
        t.extend(toks(k, i == len(kids) - 1))
    return t


def toks(n, last):
    rp = [('*' + (n.rep or ''), False)] if (n.star or n.rep) else []
    if n.group:
        return [('(', False)] + _join(n.kids) + [(')', True)] + rp
    pa = []
    if n.attrs:
        pa.append(('[', False))
        for i, a in enumerate(n.attrs):
            if i:
                pa.append((' ', False))
            v = a['pre'] + ('$#' if a['ph'] else '') + a['post']
            if a['form'] == 'u':
                pa.append((a['name'] + '=' + v, False))
            elif a['form'] == 'd':
                pa.append((a['name'] + '="' + v + '"', False))
            elif a['form'] == 's':
                pa.append((a['name'] + "='" + v + "'", False))
            else:
                pa.append((a['name'] + '={' + v, False))
                pa.append(('}', True))
        pa.append((']', True))
    pt = [('{' + n.text + ('$#' if n.ph else ''), False), ('}', True)] if (n.text or n.ph) else []
    parts = [p for p in ([pa, pt] if n.order == 'at' else [pt, pa]) if p]
    pos = min(n.rpos, len(parts))
    t = [(n.name, False)]
    for i, p in enumerate(parts):
        if i == pos:
            t.extend(rp)
        t.extend(p)
    if pos >= len(parts):
        t.extend(rp)
    if n.kids:
        t = t + [('>', False)] + _join(n.kids)
        if not (last and n.bare):
            t = [('(', False)] + t + [(')', True)]
    return t


def render(roots):
    return ''.join(s for s, _ in _join(roots))


def trailing_closers(roots):
    n = 0
    for s, closer in reversed(_join(roots)):
        if not closer:
            break
        n += 1
    return n


# ---------------------------------------------------------------- expected output, by the words of the statement
class X2:
    __slots__ = ('name', 'attrs', 'text', 'kids')

    def __init__(self, name, attrs, text):
        self.name = name
        self.attrs = attrs       # (name, form, value)
        self.text = text
        self.kids = []


def _deepest_last(items):
    x = items[-1]
    while x.kids:
        x = x.kids[-1]
    return x


def expect(roots, lines, zero_copies):
    """lines: list of str, or None (no text supplied).  zero_copies: how many copies an explicit count of 0 makes."""
    nonblank = [l.strip() for l in (lines or []) if l.strip()]
    starred = any(has_star(r) for r in roots)

    def one(n, line, out):
        if n.group:
            for k in n.kids:
                unroll(k, line, out)
            return
        sub = line if line is not None else ''
        attrs = [(a['name'], a['form'], a['pre'] + (sub if a['ph'] else '') + a['post']) for a in n.attrs]
        x = X2(n.name, attrs, n.text + (sub if n.ph else ''))
        for k in n.kids:
            unroll(k, line, x.kids)
        out.append(x)

    def unroll(n, line, out):
        if n.star and line is None:
            for ln in nonblank:
                copy = []
                one(n, ln, copy)
                if not has_ph(n) and copy:
                    _deepest_last(copy).text += ln
                out.extend(copy)
            return
        cnt = int(n.rep) if n.rep else 1
        if n.rep and cnt == 0:
            cnt = zero_copies
        for _ in range(cnt):
            one(n, line, out)
    out = []
    for r in roots:
        unroll(r, None, out)
    if not starred and out and lines is not None:
        _deepest_last(out).text += '\n'.join(lines).strip()
    return out


def pieces(items):
    s = []
    for x in items:
        s.append('<' + x.name)
        for nm, form, v in x.attrs:
            v = g.attr_value_form(v)
            s.append(' %s={%s}' % (nm, v) if form == 'e' else ' %s="%s"' % (nm, v))
        s.append('>')
        if x.text:
            s.append(['T', x.text])
        s.extend(pieces(x.kids))
        s.append('</' + x.name + '>')
    return s


# ---------------------------------------------------------------- random trees
def rand_n(rng, depth):
    n = N2(rng.choice(g.WNAMES), rng.choice(['', '', '', 't', 'ab ']))
    if depth < 3 and rng.random() < (0.75 if depth == 0 else 0.5):
        for _ in range(rng.choice([1, 1, 2, 3])):
            if depth < 2 and rng.random() < 0.15:
                n.kids.append(N2(group=True, kids=[rand_n(rng, depth + 2) for _ in range(rng.choice([1, 2, 3]))]))
            else:
                n.kids.append(rand_n(rng, depth + 1))
    n.bare = rng.random() < 0.6
    n.order = rng.choice(['at', 'at', 'ta'])
    n.rpos = rng.choice([0, 1, 2, 2])
    return n


def add_attr(rng, n, ph):
    free = [a for a in ATTR_NAMES if a not in [x['name'] for x in n.attrs]]
    if not free or n.group:
        return
    form = rng.choice(ATTR_FORMS)
    pool = ['', '', 'x', 'k-'] if form == 'u' else ['', '', 'x', '<', 'a ', '(', '*2']
    post = ['', '', 'y', '-z'] if form == 'u' else ['', '', 'y', '>', ' b', ')', '*']
    a = {'name': rng.choice(free), 'form': form, 'pre': rng.choice(pool), 'post': rng.choice(post), 'ph': ph}
    if not ph and not (a['pre'] + a['post']):
        a['pre'] = 'v'
    n.attrs.append(a)


def sprinkle(rng, n, p):
    if not n.group:
        if rng.random() < p:
            n.ph = True
        while rng.random() < p / 2 and len(n.attrs) < 3:
            add_attr(rng, n, True)
    for k in n.kids:
        sprinkle(rng, k, p)


def last_element(roots):
    n = roots[-1]
    while n.kids:
        n = n.kids[-1]
    return n


def rand_case(rng, want_star, half_typed):
    """(roots, lines): at most one implicit repeater, explicit counts in boundary spellings (at most ONE of them zero; on ancestors
    of the implicitly repeated part only counts 0 and 1), `$#` only inside the implicitly repeated part.  half_typed: the element written last ends in an attribute set or a
    text (its repeater, if any, stands before), so that the abbreviation ends in closing brackets."""
    lines = g.rand_lines(rng)
    roots = [rand_n(rng, 0) for _ in range(rng.choice([1, 1, 1, 2, 3]))]
    if rng.random() < 0.15:
        roots.append(N2(group=True, kids=[rand_n(rng, 1) for _ in range(rng.choice([1, 2, 3]))]))
    nodes = all_nodes(roots)
    target = None
    if want_star:
        target = rng.choice(nodes)
        target.star = True
        if rng.random() < 0.6:
            sprinkle(rng, target, rng.choice([0.3, 0.6, 1.0]))
            if not has_ph(target):
                first = [x for x in all_nodes([target]) if not x.group][0]
                if rng.random() < 0.5:
                    first.ph = True
                else:
                    add_attr(rng, first, True)
    for n in nodes:
        if not n.group and rng.random() < 0.15:
            add_attr(rng, n, False)
    # explicit counts
    k = 0
    zero = False
    cands = [n for n in nodes if not n.star]
    rng.shuffle(cands)
    above = [n for n in nodes if target is not None and n is not target and target in all_nodes([n])]
    for n in cands[:rng.choice([0, 1, 1, 2, 3])]:
        sp = rng.choice(REP_SPELLINGS)
        if n in above and int(sp) > 1:
            # several copies of an ancestor of X* unroll the implicit repeater several times (`ul*2>li*`): which of
            # them receive the lines is outside the statement's wording (props/c04.py gen_wrap_nested compares those
            # with the model only); above X only the counts 0 and 1 in all their spellings
            sp = rng.choice(['0', '00', '1', '01', '001'])
        if int(sp) == 0:
            if zero:
                sp = rng.choice(['1', '01'])
            zero = True
        if int(sp) == 10:
            if k:
                sp = '02'
            k += 1
        n.rep = sp
    if half_typed:
        e = last_element(roots)
        if not e.group:
            if not (e.attrs or e.text or e.ph):
                inside = target is not None and e in all_nodes([target])
                if rng.random() < 0.7:
                    add_attr(rng, e, inside and rng.random() < 0.8)
                    if rng.random() < 0.4:
                        add_attr(rng, e, inside and rng.random() < 0.5)
                else:
                    e.text = rng.choice(['t', 'ab ', '' if inside else 'c'])
                    e.ph = inside and (not e.text or rng.random() < 0.7)
                    if not (e.text or e.ph):
                        e.text = 't'
            e.rpos = rng.choice([0, 0, 1]) if len([1 for p in (e.attrs, e.text or e.ph) if p]) > 1 else 0
    return roots, lines
