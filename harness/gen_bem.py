"""Generated character tables for the BEM addon (emmet/markup/addon/bem.py).

The addon uses four regular expressions, all with re.I:
    re_element  ^(-+)([a-z0-9]+[a-z0-9-]*)        re_modifier  ^(_+)([a-z0-9]+[a-z0-9-_]*)
    block_candidates1  ^[a-z]-                     block_candidates2  ^[a-z]
Under re.I the class [a-z] also matches a few non-ASCII code points (U+0130, U+0131, U+017F, U+212A).
The tables below are read off the RUNNING interpreter and the COMPILED regex objects / functions of the
imported module (not off a re-typed pattern): for every code point, which position of which regex accepts
it.  coq/model/MarkupBem.v hand-compiles the SHAPE  ^(P+)(F+R*)  /  ^A B  /  ^A  over these tables.

Fail-closed: the shape assumptions the hand-compiled matchers rely on (prefix class disjoint from the first
class, first class inside the rest class, anchoring, no match on the empty string) are asserted here;
a regex that no longer has this shape aborts generation (GenError) and the check reports the broken tie.
"""
import re

from gen_tables import HEADER, GenError, coq_list, write_if_changed

MAXCP = 0x110000


def _cps(pred):
    """All code points whose character satisfies pred (the whole code space, surrogates included)."""
    try:
        return [cp for cp in range(MAXCP) if pred(chr(cp))]
    except Exception as e:  # noqa
        raise GenError('regex probe failed: %r' % (e,))


def _tables3(rx, name):
    """Tables of a regex of the shape ^(P+)(F+R*): P = prefix class, F = first class, R = rest class."""
    if not hasattr(rx, 'match') or not hasattr(rx, 'pattern'):
        raise GenError('%s is not a compiled regex' % name)
    if rx.groups != 2:
        raise GenError('%s: expected two groups, has %d' % (name, rx.groups))
    # a letter that certainly is in F (ASCII 'a')
    match = rx.match
    P = [cp for cp in _cps(lambda c: match(c + 'a')) if match(chr(cp) + 'a').group(1) == chr(cp)]
    if not P:
        raise GenError('%s: empty prefix class' % name)
    p = chr(P[0])
    F = [cp for cp in _cps(lambda c: match(p + c)) if match(p + chr(cp)).group(2) == chr(cp)]
    pa = p + 'a'
    R = [cp for cp in range(MAXCP) if match(pa + chr(cp)).group(2) == 'a' + chr(cp)]
    if set(P) & set(F):
        raise GenError('%s: prefix class and first class overlap (backtracking would matter)' % name)
    if not set(F) <= set(R):
        raise GenError('%s: first class not inside rest class' % name)
    # shape probes: anchored at the start, no match without prefix / without a first character,
    # greedy: group(1) = whole prefix run, group(2) = first char + maximal rest run
    probes = ['', 'a', p, p + p, 'a' + p + 'a', p + p + p + 'a' + p + 'a' + '!' + 'a', p + 'a' + chr(R[-1]) + ' x']
    for s in probes:
        m = rx.match(s)
        i = 0
        while i < len(s) and ord(s[i]) in P:
            i += 1
        j = i
        if j < len(s) and ord(s[j]) in F:
            j += 1
            while j < len(s) and ord(s[j]) in R:
                j += 1
        want = (s[:i], s[i:j]) if (i > 0 and j > i) else None
        got = (m.group(1), m.group(2)) if m else None
        if got != want:
            raise GenError('%s: shape probe %r: regex gives %r, the hand-compiled shape gives %r' % (name, s, got, want))
    return P, F, R


def _cm(s):
    """A pattern as text that is safe inside a Coq comment."""
    return repr(s).replace('*', '<star>').replace('"', '<dq>').replace("'", '`')


def _scan(B):
    """The nine tables, by a scan of the whole code space (about 9 s)."""
    pe, fe, r_e = _tables3(B.re_element, 're_element')
    pm, fm, r_m = _tables3(B.re_modifier, 're_modifier')
    c1 = B.block_candidates1
    c2 = B.block_candidates2
    b1a = _cps(lambda c: c1(c + '-'))
    if not b1a:
        raise GenError('block_candidates1: no first character followed by "-" is accepted')
    first = chr(b1a[0])
    b1b = _cps(lambda c: c1(first + c))
    b2 = _cps(c2)
    for s in ['', '-', 'a', '-a', ' a-']:
        want1 = len(s) >= 2 and ord(s[0]) in b1a and ord(s[1]) in b1b
        want2 = len(s) >= 1 and ord(s[0]) in b2
        if bool(c1(s)) != want1 or bool(c2(s)) != want2:
            raise GenError('block_candidates: shape probe %r' % s)
    return [pe, fe, r_e, pm, fm, r_m, b1a, b1b, b2]


def _cached_scan(B):
    """The scan is a function of (interpreter, source text of bem.py, this generator): its result is kept in
    build/gen_bem_cache.json under the hash of exactly these and recomputed whenever one of them changes."""
    import hashlib
    import json
    import os
    import sys
    from gen_tables import VERIF
    h = hashlib.sha256()
    h.update(sys.version.encode())
    for path in (B.__file__, os.path.abspath(__file__)):
        with open(path, 'rb') as f:
            h.update(hashlib.sha256(f.read()).digest())
    key = h.hexdigest()
    cache = os.path.join(VERIF, 'build', 'gen_bem_cache.json')
    try:
        with open(cache) as f:
            o = json.load(f)
        if o.get('key') == key and len(o.get('tables', [])) == 9:
            return o['tables']
    except Exception:  # noqa
        pass
    tables = _scan(B)
    try:
        os.makedirs(os.path.dirname(cache), exist_ok=True)
        tmp = cache + '.%d' % os.getpid()
        with open(tmp, 'w') as f:
            json.dump({'key': key, 'tables': tables}, f)
        os.replace(tmp, cache)
    except Exception:  # noqa
        pass
    return tables


def gen_bem():
    from emmet.markup.addon import bem as B
    pe, fe, r_e, pm, fm, r_m, b1a, b1b, b2 = _cached_scan(B)
    out = HEADER % ('emmet.markup.addon.bem: re_element %s, re_modifier %s (flags %d/%d), block_candidates1/2; '
                    'code points accepted at each position, from the running interpreter (re.I case folding included)'
                    % (_cm(B.re_element.pattern), _cm(B.re_modifier.pattern), B.re_element.flags, B.re_modifier.flags))

    def tbl(name, cps, doc):
        return '(* %s *)\nDefinition %s : list N :=\n  %s.\n\n' % (doc, name, coq_list(['%d' % c for c in cps]))
    out += tbl('bem_elem_prefix', pe, 're_element: the class of group 1')
    out += tbl('bem_elem_first', fe, 're_element: first class of group 2')
    out += tbl('bem_elem_rest', r_e, 're_element: rest class of group 2')
    out += tbl('bem_mod_prefix', pm, 're_modifier: the class of group 1')
    out += tbl('bem_mod_first', fm, 're_modifier: first class of group 2')
    out += tbl('bem_mod_rest', r_m, 're_modifier: rest class of group 2')
    out += tbl('bem_block1_first', b1a, 'block_candidates1: first character')
    out += tbl('bem_block1_second', b1b, 'block_candidates1: second character')
    out += tbl('bem_block2_first', b2, 'block_candidates2: first character')
    return write_if_changed('GenBem.v', out)


GENERATORS = [gen_bem]
