"""C08 generators for two further classes of histories (used by harness/props/c08.py only).

1. KEY ORDER AND LETTER CASE OF CALLER-SUPPLIED MAPPINGS.  "Equal arguments give equal results": Python dicts are
   equal (==) whatever order their keys were inserted in, so a configuration, its snippets / options / variables /
   context attributes and the sections of a global configuration are the same argument in every key order.  Explored
   here: the call made through an equal configuration whose mappings (at every level) were built in another key order
   (via "reorder" of the history format, harness/history_worker.py + harness/history_order.py: reversed and three fixed
   permutations), transient or kept by the caller as a second dict / Config object, sharing a cache dict with the
   original or not; snippet / variable / option-table names that DIFFER ONLY IN LETTER CASE inside one table (user
   tables, also next to or over built-in names), named by abbreviations in every letter case (as written, lower,
   upper, capitalised, swapped), alone, with a value, in a '+' chain; every ordered (call, probe) pair over compact
   tables + random histories.

2. THE TWO-STEP ROUTE.  expand() is stringify(parse(abbr, config), config) (emmet/__init__.py: expand_markup,
   expand_stylesheet; both steps are exported: emmet.markup_abbreviation / stringify_markup, stylesheet_abbreviation /
   stringify_stylesheet).  An editor parses once and writes the SAME tree out several times (preview, then insert),
   with the same configuration, with other output options, with another syntax, mixed with ordinary expand() calls
   through the same dict / Config object.  Explored here ("op": "parse" / "stringify" of the history format): trees
   whose elements carry every attribute shape the writers treat specially (class / doubled class shorthand, id,
   quoted / unquoted / empty / boolean / implied values, fields in values and text, numbering, repeats, href, self-
   closing, implicit names), under every markup syntax (html, xml, xsl, jsx, vue, svelte, pug, haml, slim) and the
   options that rewrite names or values on output (markup.attributes, markup.valuePrefix, jsx.enabled, attribute /
   tag case, quotes, compact booleans, self-closing style, reversed attributes, comments, BEM, fields as tabstops,
   unformatted output), and stylesheet trees (numbers, units, colours, gradients, function calls, user snippets,
   !important) under every stylesheet syntax and option; 1..4 write-outs per tree, re-parses, failing parses.

Nothing here is an expectation: the tables only steer the generators.  Every call is judged by history_util.oracle:
write-out number n of a caller-owned tree = the same tree parsed and written out ONCE in a pristine process, = expand()
of the abbreviation when both steps name the same configuration; a call through a reordered configuration = the
same call with the mappings in the written order (both in pristine processes)."""
import json
import random

import history_util as hu
import history_classes as hc
from history_order import reorder


def _copy(o):
    return json.loads(json.dumps(o))


# ====================================================================== 1. key order and letter case
# user stylesheet tables with names that differ only in letter case (properties, raw snippets, next to / over
# built-in names such as m, mt, z, bd, p)
CASE_CSS_TABLES = [
    {'Foo': 'margin:10', 'foo': 'padding:5', 'bar': 'top:1'},
    {'BOX': 'box-sizing:border-box', 'box': 'display:block', 'Box': 'float:left', 'm': 'margin-top'},
    {'mT': 'margin-bottom:2', 'Mt': 'margin-top:1', 'p': 'padding:4'},
    {'wrap': '.w-${1} { ${2} }', 'Wrap': '.W-${1} { ${2} }', 'm': 'margin'},
    {'foo': 'margin:10', 'Bar': 'foo-bar: ${1:7} baz', 'bar': 'foo-baz: ${1:8}', 'BAR': 'foo-b:1'},
    {'z': 'zoom:1', 'Z': 'z-index:2', 'a': 'all:unset', 'A': 'appearance:none|auto'},
    {'Bd': 'border:1px solid', 'bD': 'border-bottom:2', 'bd': 'border-color:red'},
    {'trf': 'transform:scale(x, y)|rotate(a)', 'TRF': 'transform-origin:top|center', 'x': 'left:0'},
]
CASE_MK_TABLES = [
    {'Foo': 'div.upper', 'foo': 'div.lower>span', 'bar': 'p'},
    {'Btn': 'button.B', 'btn': 'button.b', 'BTN': 'input[type=button]'},
    {'x': 'a.x', 'X': 'b.X', 'y': 'i>X', 'Y': 'em>x'},
    {'A': 'a[href=up]', 'a': 'a[href=low]', 'IMG': 'img.big', 'img': 'img[src=s alt]'},
]
CASE_VARIABLES = [{'Lang': 'de', 'lang': 'fr', 'LANG': 'it'}, {'charset': 'koi8', 'Charset': 'latin1'}, {'v': '1', 'V': '2'}]
CASE_MK_OPTIONS = [{'markup.attributes': {'Class': 'k', 'class': 'klass', 'title': 'TITLE', 'Title': 'tt'}},
                   {'markup.valuePrefix': {'class': 'css', 'Class': 'CSS', 'id': 'ids'}},
                   {'output.tagCase': 'upper', 'output.attributeCase': 'lower', 'comment.enabled': True},
                   {'bem.enabled': True, 'bem.element': '-', 'output.indent': '  '}]
CASE_CSS_OPTIONS = [{'stylesheet.unitAliases': {'E': 'ex', 'e': 'em', 'P': 'pt', 'p': '%', 'r': 'rem'}},
                    {'stylesheet.intUnit': 'pt', 'stylesheet.floatUnit': 'rem', 'stylesheet.shortHex': False},
                    {'stylesheet.between': ' = ', 'stylesheet.after': '', 'stylesheet.fuzzySearchMinScore': 0.3}]
CASE_MK_CONTEXT = [{'name': 'Ul', 'attributes': {'class': 'blk', 'Class': 'BLK', 'id': 'i'}}, {'name': 'div', 'attributes': {'b': '1', 'a': '2'}}]
MK_CASE_ABBRS = ['html[lang=${lang}]', 'p[title=${Lang}]{${LANG}}', 'meta[charset=${charset}]+p{${Charset}}', 'p.a[Title=x title=y]',
                 '.b>.-e', 'div#i.c[Class=d]', 'a{${v}${V}}']


def case_forms(key):
    out = []
    for f in (key, key.lower(), key.upper(), key.capitalize(), key.swapcase()):
        if f not in out:
            out.append(f)
    return out


def _groups(table):
    """names of `table` grouped by their lower-case form (groups of 2+ first)"""
    g = {}
    for k in table:
        g.setdefault(k.lower(), []).append(k)
    return sorted(g.values(), key=lambda v: -len(v))


def rand_case_abbr(rng, table, css):
    keys = list(table)
    base = rng.choice(case_forms(rng.choice(keys)))
    r = rng.random()
    if css:
        if r < 0.25:
            base += rng.choice(['10', '1.5', '-2', '#f', '!', ':a', '5p', '2e', '3E'])
        elif r < 0.4:
            base += '+' + rng.choice(case_forms(rng.choice(keys))) + rng.choice(['', '5'])
        elif r < 0.45:
            base = rng.choice(['m10', 'p5', 'mt2', 'z1', 'bd']) + '+' + base
    else:
        if r < 0.2:
            base += rng.choice(['.c', '#i', '[t=1]', '{txt}', '*2', '/'])
        elif r < 0.4:
            base += rng.choice(['>', '+']) + rng.choice(case_forms(rng.choice(keys)))
        elif r < 0.5:
            base = rng.choice(MK_CASE_ABBRS)
    return base


def _css_case_dict(table, options=None, cache=0, syntax=None):
    d = {'type': 'stylesheet', 'snippets': _copy(table)}
    if options is not None:
        d['options'] = _copy(options)
    if syntax is not None:
        d['syntax'] = syntax
    if cache is not None:
        d['cache'] = cache
    return d


def order_pair_histories():
    """compact exhaustive part.  Stylesheet: per table ONE call that fills the shared cache dict (through the table
    as written or through an equal twin dict built in another key order), then ONE probe naming a group of
    case-variant names in one letter case, through the other of the two / a transient reordered copy / the same dict.
    Markup: per table one call, then the probe through a reordered equal configuration (snippets, variables, a private
    global configuration with a type and a syntax section)."""
    out = []
    for ti, table in enumerate(CASE_CSS_TABLES):
        d0 = _css_case_dict(table)
        d1 = reorder(d0, 0)                           # the caller keeps an equal dict built in the reverse key order
        d2 = _css_case_dict(table, {'stylesheet.intUnit': 'pt'})
        dicts = [d0, d1, d2]
        grp = _groups(table)
        first_abbr = ([k for k in table if k.lower() != grp[0][0].lower()] + ['m10'])[0]
        forms = case_forms(grp[0][0])[:3] + [grp[0][-1] + '7']
        for ai, a in enumerate(forms):
            fi = (ai + ti) % 2                        # which of the two equal dicts fills the cache
            first = {'abbr': first_abbr, 'via': 'dict', 'd': fi}
            probes = [{'abbr': a, 'via': 'dict', 'd': 1 - fi} if ai % 2 else {'abbr': a, 'via': 'reorder', 'd': fi, 'perm': 0}]
            if ai == 0:
                probes.append({'abbr': a, 'via': 'obj', 'd': 0})     # a Config object built from the other dict
            if ai == 1:
                probes.append({'abbr': a, 'via': 'dict', 'd': 2})    # same table, other options, same cache dict
            for probe in probes:
                out.append({'dicts': dicts, 'ncaches': 1, 'objs': [1 - fi], 'calls': [first], 'probe': probe})
    g0 = {'markup': {'snippets': {'gs': 'section.g>p', 'Gs': 'nav'}, 'options': {'output.indent': '  '}},
          'html': {'snippets': {'gs': 'x-y'}, 'variables': {'lang': 'nl', 'Lang': 'be'}}}
    for ti, table in enumerate(CASE_MK_TABLES):
        d0 = {'snippets': _copy(table), 'variables': _copy(CASE_VARIABLES[ti % len(CASE_VARIABLES)]),
              'options': _copy(CASE_MK_OPTIONS[ti % len(CASE_MK_OPTIONS)]), 'context': _copy(CASE_MK_CONTEXT[ti % 2])}
        d1 = {'syntax': 'html', 'snippets': _copy(table), '@global': g0}
        dicts = [d0, reorder(d0, 0), d1]
        grp = _groups(table)
        first = {'abbr': grp[0][0], 'via': 'dict', 'd': 0}
        probes = case_forms(grp[0][0])[:3] + [grp[0][-1] + '>' + grp[-1][0], MK_CASE_ABBRS[ti % len(MK_CASE_ABBRS)], 'gs+Gs']
        for ai, a in enumerate(probes):
            out.append({'dicts': dicts, 'ncaches': 0, 'objs': [], 'calls': [first],
                        'probe': {'abbr': a, 'via': 'reorder', 'd': 2 if a == 'gs+Gs' else 0, 'perm': ai % 4}})
            if ai == ti % 3:
                out.append({'dicts': dicts, 'ncaches': 0, 'objs': [0], 'calls': [dict(first, via='obj', d=0)],
                            'probe': {'abbr': a, 'via': 'dict', 'd': 1}})
    return out


def rand_order_history(rng, max_len=6):
    ncaches = rng.choice([1, 1, 2])
    css = rng.random() < 0.65
    dicts, tables = [], []
    for _ in range(rng.randint(1, 2)):
        if css:
            t = rng.choice(CASE_CSS_TABLES)
            if rng.random() < 0.25:
                d = hu.rand_css_dict(rng, ncaches)
                d.pop('@global', None)
                d['snippets'] = _copy(t)
            else:
                d = _css_case_dict(t, rng.choice([None, None] + CASE_CSS_OPTIONS), rng.randrange(ncaches),
                                   rng.choice([None, None, 'scss', 'stylus', 'sass', 'less']))
        else:
            t = rng.choice(CASE_MK_TABLES)
            if rng.random() < 0.25:
                d = hu.rand_mk_dict(rng)
                d['snippets'] = _copy(t)
            else:
                d = {'snippets': _copy(t)}
                hu._put(d, 'syntax', rng.choice([None, 'html', 'xml', 'jsx', 'pug', 'haml', 'slim']))
                hu._put(d, 'variables', rng.choice([None] + CASE_VARIABLES))
                hu._put(d, 'options', rng.choice([None] + CASE_MK_OPTIONS))
                hu._put(d, 'context', rng.choice([None, None] + CASE_MK_CONTEXT))
                if rng.random() < 0.2:
                    d['text'] = rng.choice(['hello', ['x', 'y']])
                if rng.random() < 0.25:
                    d['@global'] = {'markup': {'snippets': {'gs': 'section.g>p', 'Gs': 'nav'}, 'variables': {'lang': 'nl', 'Lang': 'be'}},
                                    d.get('syntax') or 'html': {'snippets': {'gs': 'x-y', 'GS': 'b'}, 'options': {'output.indent': ' '}}}
        dicts.append(d)
        tables.append(t)
    base_n = len(dicts)
    for i in range(base_n):
        r = rng.random()
        if r < 0.6:
            # the caller keeps an EQUAL configuration built in another key order (same cache dict)
            dicts.append(reorder(dicts[i], rng.choice([0, 0, 1, 2, 3])))
            tables.append(tables[i])
        elif r < 0.8 and css:
            # same table, other options, same cache dict
            t = _copy(dicts[i])
            t['options'] = _copy(rng.choice(CASE_CSS_OPTIONS))
            dicts.append(t)
            tables.append(tables[i])
    objs = [i for i in range(len(dicts)) if rng.random() < 0.3]

    def call():
        r = rng.random()
        if objs and r < 0.2:
            k = rng.randrange(len(objs))
            di, via, ref = objs[k], 'obj', k
        else:
            di = rng.randrange(len(dicts))
            via, ref = ('dict' if r < 0.5 else ('reorder' if r < 0.88 else ('copy' if r < 0.96 else 'nocache'))), di
        c = {'abbr': rand_case_abbr(rng, tables[di], css), 'via': via, 'd': ref}
        if via == 'reorder':
            c['perm'] = rng.choice([0, 0, 1, 2, 3])
        return c
    calls = [call() for _ in range(rng.randint(1, max_len))]
    probe = call()
    if rng.random() < 0.6:
        # the probe names what an earlier call named, in another letter case and / or through another equal configuration
        c0 = rng.choice(calls)
        head = c0['abbr'].split('+')[0].split('>')[0]
        probe = dict(probe, abbr=rng.choice(case_forms(head)) if head.isalpha() else c0['abbr'])
    return {'dicts': dicts, 'ncaches': ncaches, 'objs': objs, 'calls': calls, 'probe': probe}


def case_variant_names(h):
    """evidence only: does some snippet / variable table of `h` hold names that differ only in letter case"""
    for d in h['dicts']:
        for k in ('snippets', 'variables'):
            t = d.get(k) or {}
            if len(set(x.lower() for x in t)) < len(t):
                return True
    return False


# ====================================================================== 2. the two-step route
TREE_SYNTAX = ['html', 'html', 'xml', 'xsl', 'jsx', 'jsx', 'vue', 'svelte', 'pug', 'haml', 'slim']
# options that rewrite names / values / layout when a tree is written out, and those applied while it is parsed
TREE_OPTIONS = [None, None,
                {'markup.valuePrefix': {'class': 'css'}}, {'markup.valuePrefix': {'class*': 'st', 'id': 'ids', 'title': 'i18n'}},
                {'markup.attributes': {'class': 'className', 'class*': 'styleName', 'for': 'htmlFor'}},
                {'markup.attributes': {'title': 'data-title', 'href': 'to'}, 'markup.valuePrefix': {'title': 'T'}},
                {'jsx.enabled': True}, {'jsx.enabled': True, 'markup.valuePrefix': {'class': 'styles'}},
                {'output.attributeQuotes': 'single'}, {'output.compactBoolean': True}, {'output.selfClosingStyle': 'xhtml'},
                {'output.tagCase': 'upper', 'output.attributeCase': 'upper'}, {'output.reverseAttributes': True},
                {'output.field': '@tabstop'}, {'output.format': False}, {'output.indent': '  ', 'output.inlineBreak': 1},
                {'comment.enabled': True}, {'comment.enabled': True, 'comment.before': '<!-- [#ID] -->'},
                {'bem.enabled': True}, {'bem.enabled': True, 'comment.enabled': True, 'output.field': '@tabstop'},
                {'markup.href': False}, {'output.formatLeafNode': True, 'output.baseIndent': '  '}]
TREE_NAMES = ['div', 'p', 'a', 'img', 'input', 'ul', 'li', 'span', 'label', '', '', 'my-el', 'button', 'select', 'br', 'link',
              'form', 'td', 'Foo.Bar', 'xsl:with-param', 'tmpl', 'ifc']
TREE_DECOR = ['.foo', '..foo', '.a.b', '..a..b', '.a..b', '..item-name', '#main', '#x.y', '.b_m', '.-e', '.-e_m', '[title=t]',
              '[title="a b"]', "[data-x='q']", '[disabled.]', '[checked. title]', '[href=#]', '[href=http://a.b]', '[for=id1]',
              '[class=k]', '[class=k].l', '[id=${1:i}]', '{text}', '{${1:f}}', '{a ${2:b} c}', '[a=${1:v} b=${1}]', '[title]',
              '[a b c]', '[t="$#"]', '.item$', '#i$$', '[select=x]', '[name=n select=s]', '[title=]', "[a='']", '.c$@3', '[x!]']
TREE_SNIPPETS = [None, None, {'tmpl': 'section.t>h1..hd+p[title=x]'}, {'ifc': 'div..wrap>span.lbl{${1:l}}'}, {'tmpl': 'ul>li.i$*2', 'ifc': 'a)'}]
TREE_FIXED = ['div..foo>p.bar', '..item-name*2', 'ul>li..a.b', 'div.box>span.lbl', 'a.x[title=t]', 'input[disabled.]+label[for=x]{${1:l}}',
              '.b>.-e_m+.-f', 'ul>li.item$*3>a{$#}', 'img+br+a[href]', 'xsl:with-param[name=n select=s]', 'p{${1:a}}+p{${1}}', 'tmpl>ifc',
              'form>input:t+select>opt*2', '#main.c>.d', 'Foo.Bar..baz[on={x}]']


def rand_tree_abbr(rng):
    r = rng.random()
    if r < 0.2:
        return rng.choice(TREE_FIXED)
    if r < 0.3:
        return rng.choice(hu.MK_ABBRS)     # includes malformed ones and names of malformed snippets
    parts = []
    for i in range(rng.randint(1, 4)):
        name = rng.choice(TREE_NAMES)
        decor = ''.join(rng.choice(TREE_DECOR) for _ in range(rng.choice([0, 1, 1, 2, 2, 3])))
        if not name and not decor:
            decor = rng.choice(TREE_DECOR[:11])
        el = name + decor
        if rng.random() < 0.2:
            el += '*%d' % rng.randint(2, 3)
        if rng.random() < 0.08:
            el += '/'
        parts.append(el)
    out = parts[0]
    for p in parts[1:]:
        out += rng.choice(['>', '>', '+', '^' if '>' in out else '+']) + p
    if rng.random() < 0.1:
        out = '(' + out + ')*2'
    return out


def rand_tree_config(rng, css=False, ncaches=0):
    if css:
        d = hu.rand_css_dict(rng, ncaches)
        d.pop('@global', None)
        if rng.random() < 0.3:
            d['snippets'] = _copy(rng.choice([t for t, _ in hc.FN_TABLES[1:]] + CASE_CSS_TABLES[:3]))
        return d
    if rng.random() < 0.2:
        d = hu.rand_mk_dict(rng)
        d.pop('@global', None)
        return d
    d = {'syntax': rng.choice(TREE_SYNTAX)}
    o = {}
    for _ in range(rng.choice([0, 1, 1, 2])):
        o.update(_copy(rng.choice(TREE_OPTIONS) or {}))
    if o:
        d['options'] = o
    hu._put(d, 'snippets', _copy(rng.choice(TREE_SNIPPETS)))
    if rng.random() < 0.25:
        d['text'] = rng.choice(['hello', ['x', 'y'], ['one'], 'a\nb'])
    if rng.random() < 0.15:
        d['context'] = _copy(rng.choice(hu.MK_CONTEXT[1:]))
    return d


CSS_TREE_ABBRS = ['m10', 'p10-20', 'c#f', 'bgc#1', 'lg(top, red)', 'bd1-s-red', 'm0-a', 'fz1.5', 'w100p', 'm10!', 'trf:r(45deg)', 'cp:r(1 2 3 4)',
                  'foo', 'foo20', 'bar', 'm10+p5', 'pos:a+z1', 'op.5', 'c:r(1)', 'gt', 'd:n', '@k', 'lg(to right, #f00 10%, rgba(0,0,0,.5))',
                  'm${1:x}', 'bg:u', 'p1e2r', 'bad', 'm${1']


def _preview_of(rng, d, k=None):
    """the same configuration with other OUTPUT options / another syntax (what a preview pane uses)"""
    t = _copy(d)
    k = rng.randrange(4) if k is None else k
    css = d.get('type') == 'stylesheet'
    if k == 0:
        t['options'] = dict(t.get('options') or {}, **({'stylesheet.between': ' = ', 'stylesheet.after': ''} if css else
                                                       {'output.indent': '  ', 'output.attributeQuotes': 'single'}))
    elif k == 1:
        t['syntax'] = rng.choice(hc.CSS_SYN if css else hc.MK_SYN)
    elif k == 2:
        t['options'] = dict(t.get('options') or {}, **({'stylesheet.shortHex': False, 'stylesheet.json': True} if css else
                                                       {'output.field': '@tabstop', 'output.tagCase': 'upper', 'output.format': False}))
    else:
        t['options'] = dict(t.get('options') or {}, **({'output.field': '@tabstop'} if css else
                                                       {'comment.enabled': True, 'output.selfClosingStyle': 'xml', 'output.compactBoolean': True}))
    return t


def two_step_pair_histories():
    """compact part (fixed generator seed: the same in every run): per (configuration, abbreviation) of a compact pool
    one tree written out twice through one Config object; written out with a preview configuration and then with
    its own; used around ordinary expand() calls of the same abbreviation through the same Config object"""
    rng = random.Random(90909)
    out = []
    cfgs = [{'syntax': s} for s in ('html', 'xml', 'xsl', 'jsx', 'vue', 'pug', 'haml', 'slim')]
    cfgs += [{'syntax': 'html', 'options': _copy(o)} for o in TREE_OPTIONS[2:] if o]
    cfgs += [{'syntax': 'jsx', 'options': {'bem.enabled': True, 'comment.enabled': True}, 'text': ['x', 'y']},
             {'syntax': 'pug', 'options': {'markup.valuePrefix': {'class': 'css'}, 'markup.attributes': {'class': 'className'}}}]
    for ci, cfg in enumerate(cfgs):
        d = dict(_copy(cfg), snippets=_copy(TREE_SNIPPETS[2 + ci % 2]))
        abbrs = [TREE_FIXED[ci % len(TREE_FIXED)], rand_tree_abbr(rng)]
        for ai, a in enumerate(abbrs):
            dicts = [d, _preview_of(rng, d, (ci + ai) % 4)]
            p = {'op': 'parse', 'tree': 0, 'abbr': a, 'via': 'obj', 'd': 0}
            s0 = {'op': 'stringify', 'tree': 0, 'abbr': '', 'via': 'obj', 'd': 0}
            s1 = {'op': 'stringify', 'tree': 0, 'abbr': '', 'via': 'dict', 'd': 1}
            e0 = {'abbr': a, 'via': 'obj', 'd': 0}
            shape = (ci + ai) % 3
            if shape == 0:
                out.append({'dicts': dicts, 'ncaches': 0, 'objs': [0], 'calls': [p, s0, s0], 'probe': s0})
            elif shape == 1:
                out.append({'dicts': dicts, 'ncaches': 0, 'objs': [0], 'calls': [p, s1, s0], 'probe': s1})
            else:
                out.append({'dicts': dicts, 'ncaches': 0, 'objs': [0], 'calls': [e0, p, s0, e0], 'probe': s0})
    for ci in range(12):
        d = rand_tree_config(rng, css=True, ncaches=1)
        d['cache'] = 0
        a = CSS_TREE_ABBRS[(ci * 2) % len(CSS_TREE_ABBRS)] + rng.choice(['', '', '+' + rng.choice(CSS_TREE_ABBRS[:12])])
        dicts = [d, _preview_of(rng, d, ci % 4)]
        p = {'op': 'parse', 'tree': 0, 'abbr': a, 'via': 'dict', 'd': 0}
        s0 = {'op': 'stringify', 'tree': 0, 'abbr': '', 'via': 'dict', 'd': 0}
        s1 = {'op': 'stringify', 'tree': 0, 'abbr': '', 'via': 'dict', 'd': 1}
        out.append({'dicts': dicts, 'ncaches': 1, 'objs': [], 'calls': [p, s0, s1] if ci % 2 else [{'abbr': a, 'via': 'dict', 'd': 1}, p, s1, s0],
                    'probe': s0})
    return out


def rand_two_step_history(rng, max_len=7):
    css = rng.random() < 0.3
    ncaches = rng.choice([0, 1]) if css else 0
    dicts = [rand_tree_config(rng, css, ncaches) for _ in range(rng.randint(1, 2))]
    for i in range(len(dicts)):
        if rng.random() < 0.6:
            dicts.append(_preview_of(rng, dicts[i]))
    objs = [i for i in range(len(dicts)) if rng.random() < 0.5]
    pool = CSS_TREE_ABBRS if css else None

    def abbr():
        if css:
            a = rng.choice(pool if rng.random() < 0.8 else hu.CSS_ABBRS)
            return a + ('+' + rng.choice(pool) if rng.random() < 0.2 else '')
        return rand_tree_abbr(rng)

    def cfg_ref():
        if objs and rng.random() < 0.5:
            return 'obj', rng.randrange(len(objs))
        r = rng.random()
        return ('dict' if r < 0.8 else ('copy' if r < 0.9 else 'reorder')), rng.randrange(len(dicts))
    ntrees = rng.choice([1, 1, 2])
    parsed = {}
    calls = []

    def parse_call(t):
        via, d = cfg_ref()
        parsed[t] = {'op': 'parse', 'tree': t, 'abbr': abbr(), 'via': via, 'd': d}
        return parsed[t]

    def step():
        r = rng.random()
        t = rng.randrange(ntrees)
        if t not in parsed or r < 0.12:
            return parse_call(t)
        if r < 0.3:
            # an ordinary expand() in between: the abbreviation of the tree or another one
            via, d = cfg_ref()
            return {'abbr': parsed[t]['abbr'] if rng.random() < 0.6 else abbr(), 'via': via, 'd': d}
        if rng.random() < 0.55:
            via, d = parsed[t]['via'], parsed[t]['d']     # written out with the configuration it was parsed with
        else:
            via, d = cfg_ref()
        return {'op': 'stringify', 'tree': t, 'abbr': '', 'via': via, 'd': d}
    calls.append(parse_call(0))
    for _ in range(rng.randint(2, max_len)):
        calls.append(step())
    probe = step()
    if probe.get('op') == 'parse':
        probe = {'op': 'stringify', 'tree': 0, 'abbr': '', 'via': parsed[0]['via'], 'd': parsed[0]['d']}
    return {'dicts': dicts, 'ncaches': ncaches, 'objs': objs, 'calls': calls, 'probe': probe}


def has_ops(h):
    return any(c.get('op') for c in list(h['calls']) + [h['probe']])


def write_outs(h):
    """evidence only: (largest number of write-outs of one parsed tree, is some tree written out with a configuration
    other than the one it was parsed with)"""
    n, other, gov = {}, False, {}
    best = 0
    for c in list(h['calls']) + [h['probe']]:
        if c.get('op') == 'parse':
            gov[c.get('tree')] = c
            n[c.get('tree')] = 0
        elif c.get('op') == 'stringify' and c.get('tree') in gov:
            n[c['tree']] += 1
            best = max(best, n[c['tree']])
            p = gov[c['tree']]
            if (p['via'], p['d']) != (c['via'], c['d']):
                other = True
    return best, other
