"""C12 only: the option values that are IN FORCE for one expansion, worked out without the library.

The oracles of C12 must know which newline / indent / baseIndent / comment templates / trigger list / self-closing
style an expansion was asked to use.  Reading them back from `emmet.config.Config(cfg).options` makes the judge
depend on the very code it judges (a change in Config that alters an option the caller gave explicitly would alter
the expectation in the same way and go unseen).  So the documented values are written down here:

* DOC_DEFAULTS: the documented defaults of the options C12 speaks about -- Emmet documentation, "Options"
  (https://docs.emmet.io / emmetio/emmet README section "Options", file src/config.ts `defaultOptions`), repeated in
  the py-emmet README: output.indent TAB, output.baseIndent '', output.newline LF, output.format on,
  output.formatLeafNode off, output.formatSkip ['html'], output.formatForce ['body'], output.inlineBreak 3,
  output.compactBoolean off, output.selfClosingStyle 'html', comment.enabled off, comment.trigger ['id', 'class'],
  comment.before '', comment.after '\\n<!-- /[#ID][.CLASS] -->'.
* DOC_SYNTAX: the documented per-syntax presets (same source, `syntaxConfig`): xml and xsl use the `xml` self-closing
  style, xhtml the `xhtml` one; jsx writes class -> className, class* -> styleName, for -> htmlFor; vue writes
  class* -> :class.
* an option the caller gives explicitly -- whatever its value: [] , '', 0, False included -- is the value in force.
"""
import copy

DOC_DEFAULTS = {
    'output.indent': '\t',
    'output.baseIndent': '',
    'output.newline': '\n',
    'output.format': True,
    'output.formatLeafNode': False,
    'output.formatSkip': ['html'],
    'output.formatForce': ['body'],
    'output.inlineBreak': 3,
    'output.compactBoolean': False,
    'output.selfClosingStyle': 'html',
    'comment.enabled': False,
    'comment.trigger': ['id', 'class'],
    'comment.before': '',
    'comment.after': '\n<!-- /[#ID][.CLASS] -->',
}

DOC_SYNTAX = {
    'xhtml': {'output.selfClosingStyle': 'xhtml'},
    'xml': {'output.selfClosingStyle': 'xml'},
    'xsl': {'output.selfClosingStyle': 'xml'},
    'jsx': {'markup.attributes': {'class': 'className', 'class*': 'styleName', 'for': 'htmlFor'}},
    'vue': {'markup.attributes': {'class*': ':class'}},
}

# element names a documented DEFAULT value of a list option mentions (formatSkip / formatForce), plus `head`, the
# usual sibling of body: they behave differently from every other name unless the caller's explicit list says otherwise
DEFAULT_LISTED_NAMES = ['html', 'body', 'head']

# snippet abbreviations that produce a whole document (html > head + body); usable as the outermost element of a
# depth case when self-closed tags are marked (xhtml / xml style), since they contain <meta .../> elements
DOCUMENT_SNIPPETS = ['!', 'doc', 'doc4', 'html:5', 'html:xml', 'html:xt', 'html:4s']

# names that no generator pool, no implicit-name rule and no document snippet produces: a formatSkip list made of
# these exempts no element of the output
ABSENT_NAMES = ['aside', 'footer', 'figure', 'zz', 'htm']


def in_force(cfg):
    """Options in force for expand(abbr, cfg): documented defaults < documented syntax preset < explicit options."""
    cfg = cfg or {}
    o = copy.deepcopy(DOC_DEFAULTS)
    o.update(copy.deepcopy(DOC_SYNTAX.get(cfg.get('syntax', 'html'), {})))
    o.update(copy.deepcopy(cfg.get('options') or {}))
    return o


# ---------------------------------------------------------------- explicit values that are "empty" / falsy
# Every list / string / number / switch option of the statement, given EXPLICITLY with the empty or zero value.
# `[]` for formatSkip is the only way to say "exempt nothing", `[]` for comment.trigger "no commented element".
EXPLICIT_EMPTY = [
    {'output.formatSkip': []},
    {'output.formatSkip': [], 'output.formatForce': []},
    {'output.formatSkip': [], 'output.inlineBreak': 0},
    {'output.formatSkip': [], 'output.baseIndent': '', 'output.formatLeafNode': False},
]

EXPLICIT_EMPTY_COMMENT = [
    {'comment.trigger': []},
    {'comment.trigger': [], 'comment.before': '<!-- [#ID] -->'},
    {'comment.before': '', 'comment.after': ''},
    {'comment.trigger': ['id'], 'comment.after': ''},
    {'comment.trigger': [], 'output.formatSkip': [], 'output.formatForce': []},
]


def explicit_empty_abbrs():
    """Skeletons around the names the documented defaults mention, with ids/classes (comment triggers)."""
    out = ['html>head+body>p', 'html>body>div#i.c>p.k+p', 'html[lang=en]>body>ul#m>li.k*2', 'body>p.c>span',
           'div#i>html>p#x+em', 'html>p', 'html>{t}+div.c', 'head+body.k', 'section>body>div.c',
           '!', 'doc>ul#m>li.k*2', 'html:xt>p.c', 'div.c>p#i']
    return out
