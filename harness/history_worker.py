"""C08 worker: runs call histories against the implementation in PRISTINE processes.

Run as   PYTHONPATH=<repo> python history_worker.py --server      (fork server)
   or    PYTHONPATH=<repo> python history_worker.py --once        (one job on stdin, really fresh interpreter)

The server imports emmet (imports only: no emmet function is ever called in the server itself) and then, for
every job line on stdin, forks children:
  * one child runs the whole history (every call, then the probe) and observes it,
  * one further pristine child per call (and per probe) runs that single call alone with freshly built
    arguments: that is "the same call made in a fresh interpreter state".
One JSON line per job is written to stdout.

History format (JSON):
  {"dicts":   [D, ...]      caller-owned configuration dicts (specs); built ONCE per process, the same object is
                            passed again whenever a call names it; "cache": k names shared cache dict number k
   "ncaches": n,
   "objs":    [i, ...]      caller-owned emmet.Config objects, obj k built once from dicts[i] before the first call
   "calls":   [C, ...], "probe": C}
  C = {"abbr": str, "via": "dict"|"obj"|"copy"|"default"|"nocache", "d": index of dict / obj}
      via copy    : an equal but distinct dict (deep copy of the spec) that still shares the named cache dict
      via default : expand(abbr) with no configuration at all
  D = JSON config; option value "@tabstop" for 'output.field' stands for a tabstop-printing callback; key "@global"
      holds the global_config passed along with this dict (third argument of expand / second of Config).
  optional "globals": [G, ...]  caller-owned global_config dicts, each built ONCE per process; a dict spec with
      "@gref": k passes THAT object (instead of a private "@global") with every call made through the spec, so one
      global configuration is shared by calls of differing syntaxes and types, as an editor plugin does.
  via reorder (optional "perm": n): like copy (equal, distinct, shares the named cache dict), but every mapping of
      the configuration (the dict itself, snippets, options, variables, context, a private "@global") is built in
      ANOTHER KEY ORDER (harness/history_order.py): an equal argument in the sense of ==.
  optional "op" of a call, the TWO-STEP ROUTE expand() itself is made of (emmet/__init__.py: expand_markup =
      stringify_markup(markup_abbreviation(abbr, config), config), likewise for stylesheets):
      "op": "parse", "tree": k      tree k of the caller := emmet.markup_abbreviation(abbr, config) or
                                    emmet.stylesheet_abbreviation(abbr, config) (by the type of the configuration);
                                    the caller keeps the tree until the history ends or tree k is parsed again
      "op": "stringify", "tree": k  emmet.stringify_markup / stringify_stylesheet(tree k, config): one more write-out
                                    of the SAME tree object ("abbr" is ignored; outcome ["skipped"] when tree k does
                                    not exist because its parse raised).  The configuration named by via/d is turned
                                    into a Config by the caller when it is a dict (these functions take a Config).
      The reference of a stringify call is the two steps made alone in a pristine process: the governing parse call
      (the last "parse" of tree k before it) with freshly built arguments, then ONE write-out with freshly built
      arguments; when both steps name the same configuration also expand(abbr of the parse, that configuration).
"""
import copy
import gc
import hashlib
import json
import os
import sys
import traceback
import weakref

import emmet  # noqa: E402  (import only)
from emmet.config import Config  # noqa: E402

from history_order import reorder  # noqa: E402  (harness/history_order.py: no dependencies)


# ------------------------------------------------------------------ materialising specs
def _field(index, placeholder, **kwargs):
    return '${%d:%s}' % (index, placeholder) if placeholder else '${%d}' % index


def build_dict(spec, caches, with_cache=True):
    d = copy.deepcopy(spec)
    opts = d.get('options')
    if opts:
        for k, v in list(opts.items()):
            if v == '@tabstop':
                opts[k] = _field
    d.pop('@global', None)
    d.pop('@gref', None)
    c = d.pop('cache', None)
    if c is not None and with_cache:
        d['cache'] = caches[c]
    return d


def build_global(spec, h=None):
    """the global_config argument of expand(abbr, config, global_config) / Config(config, global_config): a freshly
    built object equal to the private "@global" of the spec or to the shared global "@gref" names"""
    if spec.get('@gref') is not None:
        return copy.deepcopy(h['globals'][spec['@gref']])
    g = spec.get('@global')
    return copy.deepcopy(g) if g is not None else None


def mk_config(d, g):
    return Config(d, g) if g is not None else Config(d)


def strip(d):
    """caller dict without the cache (a cache is meant to be filled) -- for deep equality"""
    return {k: v for k, v in d.items() if k != 'cache'}


def config_view(c):
    return {'type': c.type, 'syntax': c.syntax, 'variables': c.variables, 'snippets': c.snippets,
            'options': c.options, 'context': c.context, 'user_config': strip(c.user_config),
            'cache_is': id(c.cache)}


# ------------------------------------------------------------------ deep digest of emmet data
ATOMS = (str, int, float, bool, type(None), bytes)
FAST = frozenset(ATOMS)


_SLOTS = {}


def all_slots(t):
    r = _SLOTS.get(t)
    if r is None:
        r = []
        for k in t.__mro__:
            sl = k.__dict__.get('__slots__', ())
            if isinstance(sl, str):
                sl = (sl,)
            r += [x for x in sl if x not in ('__weakref__', '__dict__')]
        _SLOTS[t] = r
    return r


def digest(o, depth=0):
    """structural description (nested tuples) of plain data and of emmet objects (slots), identity-free.
    emmet's data has no reference cycles; a depth limit guards the walk anyway."""
    if isinstance(o, ATOMS):
        return o
    if depth > 60:
        return '<deep>'
    t = type(o)
    if t is list or t is tuple:
        if all(type(x) in FAST for x in o):
            return tuple(o)
        return tuple([digest(x, depth + 1) for x in o])
    if isinstance(o, dict):
        if all(type(v) in FAST for v in o.values()) and all(type(k) in FAST for k in o):
            return ('<dict>', tuple(o.items()))
        return ('<dict>',) + tuple([(digest(k, depth + 1), digest(v, depth + 1)) for k, v in o.items()])
    if isinstance(o, (list, tuple)):
        return tuple([digest(x, depth + 1) for x in o])
    if isinstance(o, (set, frozenset)):
        return ('<set>',) + tuple(sorted(repr(digest(x, depth + 1)) for x in o))
    if isinstance(o, (weakref.WeakKeyDictionary, weakref.WeakValueDictionary)):
        return ('<weakdict>', len(o))
    if (t.__module__ or '').startswith('emmet'):
        fields = tuple([(sl, digest(getattr(o, sl, '<unset>'), depth + 1)) for sl in all_slots(t)])
        if hasattr(o, '__dict__'):
            fields += tuple([(k, digest(v, depth + 1)) for k, v in sorted(vars(o).items())])
        return (t.__name__, fields)
    return '<%s>' % t.__name__


def fp(o):
    return hashlib.md5(repr(digest(o)).encode('utf-8', 'replace')).hexdigest()


CONTAINERS = (dict, list, set, weakref.WeakKeyDictionary, weakref.WeakValueDictionary)


def clen(o):
    try:
        return len(o)
    except Exception:
        return -1


WEAK = (weakref.WeakKeyDictionary, weakref.WeakValueDictionary)
WEAK_NAMES = set()   # names (as in module_state) of the weak containers of emmet.*


def module_state():
    """{name: (len, digest)} of every module-level container, function default and class attribute in emmet.*"""
    out = _module_state()
    return out


def _note(out, name, v):
    out[name] = (clen(v), fp(v))
    if isinstance(v, WEAK):
        WEAK_NAMES.add(name)


def _module_state():
    out = {}

    def fn_defaults(prefix, f):
        for i, dv in enumerate(f.__defaults__ or ()):
            if isinstance(dv, CONTAINERS):
                _note(out, '%s.__defaults__[%d]' % (prefix, i), dv)
        for k, dv in (f.__kwdefaults__ or {}).items():
            if isinstance(dv, CONTAINERS):
                _note(out, '%s.__kwdefaults__[%s]' % (prefix, k), dv)

    for mname in sorted(sys.modules):
        if mname != 'emmet' and not mname.startswith('emmet.'):
            continue
        mod = sys.modules[mname]
        if mod is None:
            continue
        for name, v in list(vars(mod).items()):
            if name.startswith('__'):
                continue
            full = mname + '.' + name
            if isinstance(v, CONTAINERS):
                _note(out, full, v)
            elif isinstance(v, type(module_state)) and getattr(v, '__module__', None) == mname:
                fn_defaults(full, v)
            elif isinstance(v, type) and getattr(v, '__module__', None) == mname:
                for an, av in list(vars(v).items()):
                    if an.startswith('__'):
                        continue
                    if isinstance(av, CONTAINERS):
                        _note(out, full + '.' + an, av)
                    f = getattr(av, '__func__', av)
                    if isinstance(f, type(module_state)):
                        fn_defaults(full + '.' + an, f)
    return out


def live_instances():
    """number of live instances per emmet class (gc-tracked objects only): support, not proof"""
    gc.collect()
    cnt = {}
    for o in gc.get_objects():
        t = type(o)
        m = getattr(t, '__module__', None)
        if m and (m == 'emmet' or m.startswith('emmet.')) and not isinstance(o, type):
            cnt[t.__name__] = cnt.get(t.__name__, 0) + 1
    return cnt


# ------------------------------------------------------------------ one call
def fail_stage(kind, tb):
    """where a raising call failed, read off the traceback: markup 1 = abbreviation parse (before the text slot
    is touched), 2 = snippet resolution / transform (text slot cleared), 3 = output; stylesheet 1 =
    convert_snippets (cache not filled), 2 = later.  9 = before the pipeline (Config construction)."""
    frames = traceback.extract_tb(tb)
    names = [(os.path.basename(os.path.dirname(f.filename)), os.path.basename(f.filename), f.name, f.line or '')
             for f in frames]
    if kind == 'markup':
        for d, fn, name, line in names:
            if d == 'markup' and fn == '__init__.py' and name == 'parse':
                return 1 if 'abbreviation(' in line else 2
        if any(name == 'stringify' or name == 'expand_markup' for _, _, name, _ in names):
            return 3
        return 9
    for d, fn, name, line in names:
        if name == 'convert_snippets':
            return 1
    if any(d == 'stylesheet' for d, _, _, _ in names) or any(name == 'expand_stylesheet' for _, _, name, _ in names):
        return 2
    return 9


OPEN_LEVELS = [0]   # evidence only: snippet levels open when the last call raised (0 when it returned)


def open_snippet_levels(tb):
    """how many snippet bodies were being resolved inside one another when the call raised (frames of the
    snippet resolver on the traceback) -- read for the coverage statistics only, never by the oracle"""
    n = 0
    for f in traceback.extract_tb(tb):
        if os.path.basename(f.filename) == 'snippets.py' and os.path.basename(os.path.dirname(f.filename)) == 'markup' \
                and f.name == 'resolve':
            n += 1
    return max(0, n - 1)   # the innermost frame is the one whose body failed to parse: it was not open yet


def as_config(cfg_arg, g):
    """what a caller of the two-step functions does with a configuration dict: they take a Config"""
    if isinstance(cfg_arg, Config):
        return cfg_arg
    return mk_config(cfg_arg if cfg_arg is not None else {}, g)


def do_call(abbr, cfg_arg, use_default=False, g=None, op='expand', trees=None, tree=None):
    """the code path of emmet.expand (or one step of the two-step route); returns (outcome, kind, stage)"""
    kind = '?'
    OPEN_LEVELS[0] = 0
    try:
        if isinstance(cfg_arg, Config):
            kind = cfg_arg.type if cfg_arg.type == 'stylesheet' else 'markup'
        elif use_default or cfg_arg is None:
            kind = 'markup'
        else:
            kind = 'stylesheet' if cfg_arg.get('type', 'markup') == 'stylesheet' else 'markup'
        if op == 'parse':
            trees.pop(tree, None)
            cfg = as_config(cfg_arg, g)
            f = emmet.stylesheet_abbreviation if kind == 'stylesheet' else emmet.markup_abbreviation
            trees[tree] = (f(abbr, cfg), kind)
            return ['ok', ''], kind, 0
        if op == 'stringify':
            if tree not in trees:
                return ['skipped'], kind, 0
            t, kind = trees[tree]
            cfg = as_config(cfg_arg, g)
            f = emmet.stringify_stylesheet if kind == 'stylesheet' else emmet.stringify_markup
            return ['ok', f(t, cfg)], kind, 0
        if use_default:
            return ['ok', emmet.expand(abbr)], kind, 0
        if g is not None and not isinstance(cfg_arg, Config):
            return ['ok', emmet.expand(abbr, cfg_arg, g)], kind, 0
        return ['ok', emmet.expand(abbr, cfg_arg)], kind, 0
    except RecursionError:
        return ['err', 'RecursionError'], kind, 8
    except Exception as e:
        OPEN_LEVELS[0] = open_snippet_levels(e.__traceback__)
        return ['err', type(e).__name__], kind, fail_stage(kind, e.__traceback__)


def table_fp(tbl):
    if tbl is None:
        return None
    try:
        rows = []
        for sn in tbl:
            row = [(sl, digest(getattr(sn, sl, '<unset>'))) for sl in all_slots(type(sn)) if sl != 'dependencies']
            # dependencies are other rows of the same table: name them, do not descend again
            row.append(('dependencies', tuple([getattr(d, 'key', '?') for d in getattr(sn, 'dependencies', ())])))
            rows.append((type(sn).__name__, tuple(row)))
        return hashlib.md5(repr(rows).encode('utf-8', 'replace')).hexdigest()
    except Exception as e:  # not a table at all
        return 'undigestable:' + type(e).__name__


def slot_state(d, spec):
    if 'text' not in d:
        return 'absent'
    v = d['text']
    if v is None:
        return 'none'
    if 'text' in spec and v == spec['text']:
        return 'same'
    return 'other'


# ------------------------------------------------------------------ running a history (in a forked child)
def run_history(h):
    base_mod = module_state()
    base_live = live_instances()
    res = {'calls': [], 'problems': []}
    _run_calls(h, res, base_mod)
    # weak containers of the library may hold entries for nodes of a parsed tree the CALLER still holds (two-step route);
    # they are judged here, when the caller has dropped its trees: nothing may be left
    gc.collect()
    end_mod = module_state()
    for name in sorted(WEAK_NAMES):
        a, b = base_mod.get(name), end_mod.get(name)
        if a != b and res.get('held_trees'):
            res['problems'].append({'what': 'library-state-changed', 'call': len(h['calls']), 'where': name + ' (after the caller dropped its parsed trees)',
                                    'len_before': a and a[0], 'len_after': b and b[0], 'grew': bool(a and b and b[0] > a[0])})
    # nothing of the calls stays alive once the caller has dropped everything it owns (all locals of _run_calls)
    live = live_instances()
    for k in sorted(set(live) | set(base_live)):
        if live.get(k, 0) > base_live.get(k, 0):
            res['problems'].append({'what': 'objects-kept-alive', 'class': k,
                                    'before': base_live.get(k, 0), 'after': live.get(k, 0)})
    return res


def _run_calls(h, res, base_mod):
    caches = [dict() for _ in range(h.get('ncaches', 0))]
    dicts = [build_dict(s, caches) for s in h['dicts']]
    shared = [copy.deepcopy(g) for g in h.get('globals', [])]   # caller-owned, one object each for the whole history
    globs = [shared[s['@gref']] if s.get('@gref') is not None else build_global(s) for s in h['dicts']]
    objs = [mk_config(dicts[i], globs[i]) for i in h.get('objs', [])]
    prev_mod = base_mod
    trees = {}   # caller-owned parsed trees of the two-step route
    seq = list(h['calls']) + [h['probe']]
    for ci, c in enumerate(seq):
        via = c['via']
        transient = None
        g = None
        if via == 'dict':
            arg = dicts[c['d']]
            g = globs[c['d']]
            watched = [('dict', c['d'], arg)]
        elif via == 'obj':
            arg = objs[c['d']]
            watched = [('dict', h['objs'][c['d']], arg.user_config)]
        elif via in ('copy', 'nocache', 'reorder'):
            spec = h['dicts'][c['d']]
            g = globs[c['d']]
            if via == 'reorder':
                spec = reorder(spec, c.get('perm', 0))
                if g is not None and h['dicts'][c['d']].get('@gref') is None:
                    g = reorder(g, c.get('perm', 0))   # a private global configuration: equal, other key order
            arg = build_dict(spec, caches, with_cache=(via != 'nocache'))
            transient = arg
            watched = [('transient', c['d'], arg)]
        else:
            arg = None
            watched = []
        if g is not None:
            watched.append(('global_config', c['d'], g))
        for gk, sg in enumerate(shared):   # every caller-owned shared global_config, passed with this call or not
            if sg is not g:
                watched.append(('shared_global_config', gk, sg))
        before = [copy.deepcopy(strip(w[2])) for w in watched]
        obj_before = [fp(config_view(o)) for o in objs]
        op = c.get('op', 'expand')
        held = bool(trees)
        out, kind, stage = do_call(c.get('abbr', ''), arg, use_default=(via == 'default'), g=g, op=op, trees=trees, tree=c.get('tree'))
        rec = {'out': out, 'kind': kind, 'stage': stage, 'open_levels': OPEN_LEVELS[0], 'op': op}
        # caller's dict deep equality (also after a raising call)
        for (wk, wi, wd), b in zip(watched, before):
            if strip(wd) != b:
                res['problems'].append({'what': 'caller-config-changed', 'call': ci, 'which': [wk, wi],
                                        'before': repr(b)[:300], 'after': repr(strip(wd))[:300]})
        for k, (o, b) in enumerate(zip(objs, obj_before)):
            if fp(config_view(o)) != b:
                res['problems'].append({'what': 'config-object-changed', 'call': ci, 'obj': k})
        # abstract state after the call (observable of the model correspondence)
        rec['slots'] = [slot_state(d, s) for d, s in zip(dicts, h['dicts'])]
        rec['tslot'] = slot_state(transient, h['dicts'][c['d']]) if transient is not None else None
        rec['dslot'] = slot_state(emmet.expand.__defaults__[0], {}) if isinstance(emmet.expand.__defaults__[0], dict) else 'n/a'
        rec['caches'] = [[sorted(k for k in ch), table_fp(ch.get('stylesheet_snippets'))] for ch in caches]
        try:
            from emmet.markup.addon import bem as _bem
            rec['bem'] = len(_bem.get_block_name.__defaults__[-1])
        except Exception:
            rec['bem'] = -1
        transient = None
        arg = None
        g = None
        watched = None
        gc.collect()
        try:
            rec['bem_after_gc'] = len(_bem.get_block_name.__defaults__[-1])
        except Exception:
            rec['bem_after_gc'] = -1
        # library state
        cur = module_state()
        held = held or bool(trees)
        if held:
            res['held_trees'] = True
        for name in sorted(set(cur) | set(prev_mod)):
            a, b = prev_mod.get(name), cur.get(name)
            if a != b and held and name in WEAK_NAMES:
                continue   # entries keyed (weakly) by nodes of a tree the caller holds: judged when the trees are dropped
            if a != b:
                res['problems'].append({'what': 'library-state-changed', 'call': ci, 'where': name,
                                        'len_before': a and a[0], 'len_after': b and b[0],
                                        'grew': bool(a and b and b[0] > a[0])})
        prev_mod = cur
        res['calls'].append(rec)


def fresh_arg(h, c, caches, variant):
    """the arguments call `c` names, freshly built: (config dict / Config / None, global_config / None)"""
    via = c['via']
    if via == 'default':
        return None, None
    di = h['objs'][c['d']] if via == 'obj' else c['d']
    spec = h['dicts'][di]
    g = build_global(spec, h)
    if via == 'reorder':
        if g is not None and spec.get('@gref') is None:
            g = reorder(g, c.get('perm', 0))
        spec = reorder(spec, c.get('perm', 0))
    d = build_dict(spec, caches, with_cache=(variant == 'cache' and via != 'nocache'))
    return (mk_config(d, g) if via == 'obj' else d), g


def run_single(h, c, variant, pc=None, mode='same'):
    """one call alone, all arguments freshly built; variant 'cache' (fresh empty cache where the call names one)
    or 'nocache' (no cache at all).  A stringify call: its governing parse call `pc` first, then ONE write-out
    (mode 'same'), or expand(abbr of pc, configuration of c) (mode 'expand').  mode 'plain': a call made via
    'reorder' with the mappings in the order of the history's spec (an equal argument)."""
    caches = [dict() for _ in range(h.get('ncaches', 0))]
    op = c.get('op', 'expand')
    if mode == 'plain':
        c = dict(c, via='copy')
    if op == 'stringify':
        if pc is None:
            return {'out': ['skipped'], 'kind': '?', 'stage': 0}
        arg, g = fresh_arg(h, c, caches, variant)
        if mode == 'expand':
            out, kind, stage = do_call(pc['abbr'], arg, use_default=(c['via'] == 'default'), g=g)
            return {'out': out, 'kind': kind, 'stage': stage}
        trees = {}
        if pc['via'] == 'obj' and c['via'] == 'obj' and pc['d'] == c['d']:
            parg, pg = arg, g      # one Config object used for both steps, as in the history
        else:
            parg, pg = fresh_arg(h, pc, caches, variant)
        do_call(pc['abbr'], parg, use_default=(pc['via'] == 'default'), g=pg, op='parse', trees=trees, tree=0)
        out, kind, stage = do_call('', arg, use_default=(c['via'] == 'default'), g=g, op='stringify', trees=trees, tree=0)
        return {'out': out, 'kind': kind, 'stage': stage}
    arg, g = fresh_arg(h, c, caches, variant)
    out, kind, stage = do_call(c.get('abbr', ''), arg, use_default=(c['via'] == 'default'), g=g, op=op, trees={}, tree=0)
    return {'out': out, 'kind': kind, 'stage': stage}


def run_tables(h):
    """fingerprint of convert_snippets(<merged snippets>) for every stylesheet dict of the history (None when
    convert_snippets raises): what a cache entry built for that configuration must look like"""
    from emmet.stylesheet import convert_snippets
    out = []
    for spec in h['dicts']:
        if spec.get('type') != 'stylesheet':
            out.append(None)
            continue
        d = build_dict(spec, [], with_cache=False)
        try:
            out.append(table_fp(convert_snippets(mk_config(d, build_global(spec, h)).snippets)))
        except Exception:
            out.append(None)
    return out


# ------------------------------------------------------------------ process plumbing
def in_child(fn, *args):
    r, w = os.pipe()
    pid = os.fork()
    if pid == 0:
        code = 0
        try:
            os.close(r)
            sys.setrecursionlimit(3000)
            try:
                data = json.dumps(fn(*args), default=str)
            except BaseException as e:  # noqa
                data = json.dumps({'worker_error': ''.join(traceback.format_exception(type(e), e, e.__traceback__))[-1500:]})
            with os.fdopen(w, 'w') as f:
                f.write(data)
        except BaseException:
            code = 3
        os._exit(code)
    os.close(w)
    with os.fdopen(r) as f:
        data = f.read()
    os.waitpid(pid, 0)
    return json.loads(data) if data else {'worker_error': 'child died without output'}


def _names_cache(h, c):
    return c is not None and c['via'] in ('dict', 'obj', 'copy', 'reorder') and \
        h['dicts'][h['objs'][c['d']] if c['via'] == 'obj' else c['d']].get('cache') is not None


def job(h):
    out = {'history': in_child(run_history, h), 'fresh': [], 'fresh_nocache': [], 'extra': [], 'tables': in_child(run_tables, h)}
    seen = {}
    parsed = {}   # tree number -> the parse call that governs it at this point of the history
    for c in list(h['calls']) + [h['probe']]:
        op = c.get('op', 'expand')
        pc = None
        if op == 'parse':
            parsed[c.get('tree')] = c
        elif op == 'stringify':
            pc = parsed.get(c.get('tree'))
        key = json.dumps([c, pc], sort_keys=True)
        if key not in seen:
            a = in_child(run_single, h, c, 'cache', pc)
            named = _names_cache(h, c) or _names_cache(h, pc)
            # without a cache dict the two variants are the same call
            b = in_child(run_single, h, c, 'nocache', pc) if named else a
            extra = {}
            if op == 'expand' and c['via'] == 'reorder':
                # equal arguments: the same call with the mappings in the order of the spec
                extra['plain'] = in_child(run_single, h, c, 'cache', None, 'plain')
            if op == 'stringify' and pc is not None and pc['via'] != 'default' and c['via'] != 'default' and \
                    (h['objs'][pc['d']] if pc['via'] == 'obj' else pc['d']) == (h['objs'][c['d']] if c['via'] == 'obj' else c['d']):
                # both steps with the same configuration: that is expand(abbr, configuration)
                extra['expand'] = in_child(run_single, h, c, 'cache', pc, 'expand')
            seen[key] = (a, b, extra)
        out['fresh'].append(seen[key][0])
        out['fresh_nocache'].append(seen[key][1])
        out['extra'].append(seen[key][2])
    return out


def main():
    mode = sys.argv[1] if len(sys.argv) > 1 else '--server'
    if mode == '--once':
        # really fresh interpreter: the single call named by the job, no fork
        j = json.loads(sys.stdin.read())
        sys.setrecursionlimit(3000)
        print(json.dumps(run_single(j['h'], j['call'], j.get('variant', 'cache'), j.get('pc'))))
        return
    for line in sys.stdin:
        line = line.strip()
        if not line:
            continue
        h = json.loads(line)
        sys.stdout.write(json.dumps(job(h), default=str) + '\n')
        sys.stdout.flush()


if __name__ == '__main__':
    main()
