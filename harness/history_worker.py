"""C08 worker: runs call histories against the implementation in PRISTINE processes.

Run as   PYTHONPATH=<repo> python history_worker.py --server      (fork server)
   or    PYTHONPATH=<repo> python history_worker.py --once        (one job on stdin, really fresh interpreter)

The server imports emmet (imports only: no emmet function is ever called in the server itself) and then, for
every job line on stdin, forks children:
  * one child runs the whole history (every call, then the probe) and observes it,
  * one further pristine child per call (and per probe) runs that single call alone with freshly built
    arguments: that is "the same call made in a fresh interpreter state".
One JSON line per job is written to stdout.

History format (JSON):
  {"dicts":   [D, ...]      caller-owned configuration dicts (specs); built ONCE per process, the same object is
                            passed again whenever a call names it; "cache": k names shared cache dict number k
   "ncaches": n,
   "objs":    [i, ...]      caller-owned emmet.Config objects, obj k built once from dicts[i] before the first call
   "calls":   [C, ...], "probe": C}
  C = {"abbr": str, "via": "dict"|"obj"|"copy"|"default"|"nocache", "d": index of dict / obj}
      via copy    : an equal but distinct dict (deep copy of the spec) that still shares the named cache dict
      via default : expand(abbr) with no configuration at all
  D = JSON config; option value "@tabstop" for 'output.field' stands for a tabstop-printing callback; key "@global"
      holds the global_config passed along with this dict (third argument of expand / second of Config).
  optional "globals": [G, ...]  caller-owned global_config dicts, each built ONCE per process; a dict spec with
      "@gref": k passes THAT object (instead of a private "@global") with every call made through the spec, so one
      global configuration is shared by calls of differing syntaxes and types, as an editor plugin does.
"""
import copy
import gc
import hashlib
import json
import os
import sys
import traceback
import weakref

import emmet  # noqa: E402  (import only)
from emmet.config import Config  # noqa: E402


# ------------------------------------------------------------------ materialising specs
def _field(index, placeholder, **kwargs):
    return '${%d:%s}' % (index, placeholder) if placeholder else '${%d}' % index


def build_dict(spec, caches, with_cache=True):
    d = copy.deepcopy(spec)
    opts = d.get('options')
    if opts:
        for k, v in list(opts.items()):
            if v == '@tabstop':
                opts[k] = _field
    d.pop('@global', None)
    d.pop('@gref', None)
    c = d.pop('cache', None)
    if c is not None and with_cache:
        d['cache'] = caches[c]
    return d


def build_global(spec, h=None):
    """the global_config argument of expand(abbr, config, global_config) / Config(config, global_config): a freshly
    built object equal to the private "@global" of the spec or to the shared global "@gref" names"""
    if spec.get('@gref') is not None:
        return copy.deepcopy(h['globals'][spec['@gref']])
    g = spec.get('@global')
    return copy.deepcopy(g) if g is not None else None


def mk_config(d, g):
    return Config(d, g) if g is not None else Config(d)


def strip(d):
    """caller dict without the cache (a cache is meant to be filled) -- for deep equality"""
    return {k: v for k, v in d.items() if k != 'cache'}


def config_view(c):
    return {'type': c.type, 'syntax': c.syntax, 'variables': c.variables, 'snippets': c.snippets,
            'options': c.options, 'context': c.context, 'user_config': strip(c.user_config),
            'cache_is': id(c.cache)}


# ------------------------------------------------------------------ deep digest of emmet data
ATOMS = (str, int, float, bool, type(None), bytes)
FAST = frozenset(ATOMS)


_SLOTS = {}


def all_slots(t):
    r = _SLOTS.get(t)
    if r is None:
        r = []
        for k in t.__mro__:
            sl = k.__dict__.get('__slots__', ())
            if isinstance(sl, str):
                sl = (sl,)
            r += [x for x in sl if x not in ('__weakref__', '__dict__')]
        _SLOTS[t] = r
    return r


def digest(o, depth=0):
    """structural description (nested tuples) of plain data and of emmet objects (slots), identity-free.
    emmet's data has no reference cycles; a depth limit guards the walk anyway."""
    if isinstance(o, ATOMS):
        return o
    if depth > 60:
        return '<deep>'
    t = type(o)
    if t is list or t is tuple:
        if all(type(x) in FAST for x in o):
            return tuple(o)
        return tuple([digest(x, depth + 1) for x in o])
    if isinstance(o, dict):
        if all(type(v) in FAST for v in o.values()) and all(type(k) in FAST for k in o):
            return ('<dict>', tuple(o.items()))
        return ('<dict>',) + tuple([(digest(k, depth + 1), digest(v, depth + 1)) for k, v in o.items()])
    if isinstance(o, (list, tuple)):
        return tuple([digest(x, depth + 1) for x in o])
    if isinstance(o, (set, frozenset)):
        return ('<set>',) + tuple(sorted(repr(digest(x, depth + 1)) for x in o))
    if isinstance(o, (weakref.WeakKeyDictionary, weakref.WeakValueDictionary)):
        return ('<weakdict>', len(o))
    if (t.__module__ or '').startswith('emmet'):
        fields = tuple([(sl, digest(getattr(o, sl, '<unset>'), depth + 1)) for sl in all_slots(t)])
        if hasattr(o, '__dict__'):
            fields += tuple([(k, digest(v, depth + 1)) for k, v in sorted(vars(o).items())])
        return (t.__name__, fields)
    return '<%s>' % t.__name__


def fp(o):
    return hashlib.md5(repr(digest(o)).encode('utf-8', 'replace')).hexdigest()


CONTAINERS = (dict, list, set, weakref.WeakKeyDictionary, weakref.WeakValueDictionary)


def clen(o):
    try:
        return len(o)
    except Exception:
        return -1


def module_state():
    """{name: (len, digest)} of every module-level container, function default and class attribute in emmet.*"""
    out = {}

    def fn_defaults(prefix, f):
        for i, dv in enumerate(f.__defaults__ or ()):
            if isinstance(dv, CONTAINERS):
                out['%s.__defaults__[%d]' % (prefix, i)] = (clen(dv), fp(dv))
        for k, dv in (f.__kwdefaults__ or {}).items():
            if isinstance(dv, CONTAINERS):
                out['%s.__kwdefaults__[%s]' % (prefix, k)] = (clen(dv), fp(dv))

    for mname in sorted(sys.modules):
        if mname != 'emmet' and not mname.startswith('emmet.'):
            continue
        mod = sys.modules[mname]
        if mod is None:
            continue
        for name, v in list(vars(mod).items()):
            if name.startswith('__'):
                continue
            full = mname + '.' + name
            if isinstance(v, CONTAINERS):
                out[full] = (clen(v), fp(v))
            elif isinstance(v, type(module_state)) and getattr(v, '__module__', None) == mname:
                fn_defaults(full, v)
            elif isinstance(v, type) and getattr(v, '__module__', None) == mname:
                for an, av in list(vars(v).items()):
                    if an.startswith('__'):
                        continue
                    if isinstance(av, CONTAINERS):
                        out[full + '.' + an] = (clen(av), fp(av))
                    f = getattr(av, '__func__', av)
                    if isinstance(f, type(module_state)):
                        fn_defaults(full + '.' + an, f)
    return out


def live_instances():
    """number of live instances per emmet class (gc-tracked objects only): support, not proof"""
    gc.collect()
    cnt = {}
    for o in gc.get_objects():
        t = type(o)
        m = getattr(t, '__module__', None)
        if m and (m == 'emmet' or m.startswith('emmet.')) and not isinstance(o, type):
            cnt[t.__name__] = cnt.get(t.__name__, 0) + 1
    return cnt


# ------------------------------------------------------------------ one call
def fail_stage(kind, tb):
    """where a raising call failed, read off the traceback: markup 1 = abbreviation parse (before the text slot
    is touched), 2 = snippet resolution / transform (text slot cleared), 3 = output; stylesheet 1 =
    convert_snippets (cache not filled), 2 = later.  9 = before the pipeline (Config construction)."""
    frames = traceback.extract_tb(tb)
    names = [(os.path.basename(os.path.dirname(f.filename)), os.path.basename(f.filename), f.name, f.line or '')
             for f in frames]
    if kind == 'markup':
        for d, fn, name, line in names:
            if d == 'markup' and fn == '__init__.py' and name == 'parse':
                return 1 if 'abbreviation(' in line else 2
        if any(name == 'stringify' or name == 'expand_markup' for _, _, name, _ in names):
            return 3
        return 9
    for d, fn, name, line in names:
        if name == 'convert_snippets':
            return 1
    if any(d == 'stylesheet' for d, _, _, _ in names) or any(name == 'expand_stylesheet' for _, _, name, _ in names):
        return 2
    return 9


OPEN_LEVELS = [0]   # evidence only: snippet levels open when the last call raised (0 when it returned)


def open_snippet_levels(tb):
    """how many snippet bodies were being resolved inside one another when the call raised (frames of the
    snippet resolver on the traceback) -- read for the coverage statistics only, never by the oracle"""
    n = 0
    for f in traceback.extract_tb(tb):
        if os.path.basename(f.filename) == 'snippets.py' and os.path.basename(os.path.dirname(f.filename)) == 'markup' \
                and f.name == 'resolve':
            n += 1
    return max(0, n - 1)   # the innermost frame is the one whose body failed to parse: it was not open yet


def do_call(abbr, cfg_arg, use_default=False, g=None):
    """the code path of emmet.expand; returns (outcome, kind, stage)"""
    kind = '?'
    OPEN_LEVELS[0] = 0
    try:
        if use_default:
            kind = 'markup'
            return ['ok', emmet.expand(abbr)], kind, 0
        if isinstance(cfg_arg, Config):
            kind = cfg_arg.type if cfg_arg.type == 'stylesheet' else 'markup'
        else:
            kind = 'stylesheet' if cfg_arg.get('type', 'markup') == 'stylesheet' else 'markup'
        if g is not None and not isinstance(cfg_arg, Config):
            return ['ok', emmet.expand(abbr, cfg_arg, g)], kind, 0
        return ['ok', emmet.expand(abbr, cfg_arg)], kind, 0
    except RecursionError:
        return ['err', 'RecursionError'], kind, 8
    except Exception as e:
        OPEN_LEVELS[0] = open_snippet_levels(e.__traceback__)
        return ['err', type(e).__name__], kind, fail_stage(kind, e.__traceback__)


def table_fp(tbl):
    if tbl is None:
        return None
    try:
        rows = []
        for sn in tbl:
            row = [(sl, digest(getattr(sn, sl, '<unset>'))) for sl in all_slots(type(sn)) if sl != 'dependencies']
            # dependencies are other rows of the same table: name them, do not descend again
            row.append(('dependencies', tuple([getattr(d, 'key', '?') for d in getattr(sn, 'dependencies', ())])))
            rows.append((type(sn).__name__, tuple(row)))
        return hashlib.md5(repr(rows).encode('utf-8', 'replace')).hexdigest()
    except Exception as e:  # not a table at all
        return 'undigestable:' + type(e).__name__


def slot_state(d, spec):
    if 'text' not in d:
        return 'absent'
    v = d['text']
    if v is None:
        return 'none'
    if 'text' in spec and v == spec['text']:
        return 'same'
    return 'other'


# ------------------------------------------------------------------ running a history (in a forked child)
def run_history(h):
    base_mod = module_state()
    base_live = live_instances()
    res = {'calls': [], 'problems': []}
    _run_calls(h, res, base_mod)
    # nothing of the calls stays alive once the caller has dropped everything it owns (all locals of _run_calls)
    live = live_instances()
    for k in sorted(set(live) | set(base_live)):
        if live.get(k, 0) > base_live.get(k, 0):
            res['problems'].append({'what': 'objects-kept-alive', 'class': k,
                                    'before': base_live.get(k, 0), 'after': live.get(k, 0)})
    return res


def _run_calls(h, res, base_mod):
    caches = [dict() for _ in range(h.get('ncaches', 0))]
    dicts = [build_dict(s, caches) for s in h['dicts']]
    shared = [copy.deepcopy(g) for g in h.get('globals', [])]   # caller-owned, one object each for the whole history
    globs = [shared[s['@gref']] if s.get('@gref') is not None else build_global(s) for s in h['dicts']]
    objs = [mk_config(dicts[i], globs[i]) for i in h.get('objs', [])]
    prev_mod = base_mod
    seq = list(h['calls']) + [h['probe']]
    for ci, c in enumerate(seq):
        via = c['via']
        transient = None
        g = None
        if via == 'dict':
            arg = dicts[c['d']]
            g = globs[c['d']]
            watched = [('dict', c['d'], arg)]
        elif via == 'obj':
            arg = objs[c['d']]
            watched = [('dict', h['objs'][c['d']], arg.user_config)]
        elif via in ('copy', 'nocache'):
            arg = build_dict(h['dicts'][c['d']], caches, with_cache=(via == 'copy'))
            g = globs[c['d']]
            transient = arg
            watched = [('transient', c['d'], arg)]
        else:
            arg = None
            watched = []
        if g is not None:
            watched.append(('global_config', c['d'], g))
        for gk, sg in enumerate(shared):   # every caller-owned shared global_config, passed with this call or not
            if sg is not g:
                watched.append(('shared_global_config', gk, sg))
        before = [copy.deepcopy(strip(w[2])) for w in watched]
        obj_before = [fp(config_view(o)) for o in objs]
        out, kind, stage = do_call(c['abbr'], arg, use_default=(via == 'default'), g=g)
        rec = {'out': out, 'kind': kind, 'stage': stage, 'open_levels': OPEN_LEVELS[0]}
        # caller's dict deep equality (also after a raising call)
        for (wk, wi, wd), b in zip(watched, before):
            if strip(wd) != b:
                res['problems'].append({'what': 'caller-config-changed', 'call': ci, 'which': [wk, wi],
                                        'before': repr(b)[:300], 'after': repr(strip(wd))[:300]})
        for k, (o, b) in enumerate(zip(objs, obj_before)):
            if fp(config_view(o)) != b:
                res['problems'].append({'what': 'config-object-changed', 'call': ci, 'obj': k})
        # abstract state after the call (observable of the model correspondence)
        rec['slots'] = [slot_state(d, s) for d, s in zip(dicts, h['dicts'])]
        rec['tslot'] = slot_state(transient, h['dicts'][c['d']]) if transient is not None else None
        rec['dslot'] = slot_state(emmet.expand.__defaults__[0], {}) if isinstance(emmet.expand.__defaults__[0], dict) else 'n/a'
        rec['caches'] = [[sorted(k for k in ch), table_fp(ch.get('stylesheet_snippets'))] for ch in caches]
        try:
            from emmet.markup.addon import bem as _bem
            rec['bem'] = len(_bem.get_block_name.__defaults__[-1])
        except Exception:
            rec['bem'] = -1
        transient = None
        arg = None
        g = None
        watched = None
        gc.collect()
        try:
            rec['bem_after_gc'] = len(_bem.get_block_name.__defaults__[-1])
        except Exception:
            rec['bem_after_gc'] = -1
        # library state
        cur = module_state()
        for name in sorted(set(cur) | set(prev_mod)):
            a, b = prev_mod.get(name), cur.get(name)
            if a != b:
                res['problems'].append({'what': 'library-state-changed', 'call': ci, 'where': name,
                                        'len_before': a and a[0], 'len_after': b and b[0],
                                        'grew': bool(a and b and b[0] > a[0])})
        prev_mod = cur
        res['calls'].append(rec)


def run_single(h, c, variant):
    """one call alone, all arguments freshly built; variant 'cache' (fresh empty cache where the call names one)
    or 'nocache' (no cache at all)"""
    caches = [dict() for _ in range(h.get('ncaches', 0))]
    via = c['via']
    if via == 'default':
        out, kind, stage = do_call(c['abbr'], None, use_default=True)
    else:
        di = h['objs'][c['d']] if via == 'obj' else c['d']
        d = build_dict(h['dicts'][di], caches, with_cache=(variant == 'cache' and via != 'nocache'))
        g = build_global(h['dicts'][di], h)
        arg = mk_config(d, g) if via == 'obj' else d
        out, kind, stage = do_call(c['abbr'], arg, g=g)
    return {'out': out, 'kind': kind, 'stage': stage}


def run_tables(h):
    """fingerprint of convert_snippets(<merged snippets>) for every stylesheet dict of the history (None when
    convert_snippets raises): what a cache entry built for that configuration must look like"""
    from emmet.stylesheet import convert_snippets
    out = []
    for spec in h['dicts']:
        if spec.get('type') != 'stylesheet':
            out.append(None)
            continue
        d = build_dict(spec, [], with_cache=False)
        try:
            out.append(table_fp(convert_snippets(mk_config(d, build_global(spec, h)).snippets)))
        except Exception:
            out.append(None)
    return out


# ------------------------------------------------------------------ process plumbing
def in_child(fn, *args):
    r, w = os.pipe()
    pid = os.fork()
    if pid == 0:
        code = 0
        try:
            os.close(r)
            sys.setrecursionlimit(3000)
            try:
                data = json.dumps(fn(*args), default=str)
            except BaseException as e:  # noqa
                data = json.dumps({'worker_error': ''.join(traceback.format_exception(type(e), e, e.__traceback__))[-1500:]})
            with os.fdopen(w, 'w') as f:
                f.write(data)
        except BaseException:
            code = 3
        os._exit(code)
    os.close(w)
    with os.fdopen(r) as f:
        data = f.read()
    os.waitpid(pid, 0)
    return json.loads(data) if data else {'worker_error': 'child died without output'}


def job(h):
    out = {'history': in_child(run_history, h), 'fresh': [], 'fresh_nocache': [], 'tables': in_child(run_tables, h)}
    seen = {}
    for c in list(h['calls']) + [h['probe']]:
        key = json.dumps(c, sort_keys=True)
        if key not in seen:
            a = in_child(run_single, h, c, 'cache')
            named = c['via'] in ('dict', 'obj', 'copy') and \
                h['dicts'][h['objs'][c['d']] if c['via'] == 'obj' else c['d']].get('cache') is not None
            # without a cache dict the two variants are the same call
            b = in_child(run_single, h, c, 'nocache') if named else a
            seen[key] = (a, b)
        out['fresh'].append(seen[key][0])
        out['fresh_nocache'].append(seen[key][1])
    return out


def main():
    mode = sys.argv[1] if len(sys.argv) > 1 else '--server'
    if mode == '--once':
        # really fresh interpreter: the single call named by the job, no fork
        j = json.loads(sys.stdin.read())
        sys.setrecursionlimit(3000)
        print(json.dumps(run_single(j['h'], j['call'], j.get('variant', 'cache'))))
        return
    for line in sys.stdin:
        line = line.strip()
        if not line:
            continue
        h = json.loads(line)
        sys.stdout.write(json.dumps(job(h), default=str) + '\n')
        sys.stdout.flush()


if __name__ == '__main__':
    main()
