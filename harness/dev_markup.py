"""Development driver: compare model and implementation on ad-hoc abbreviations."""
import sys, os, random
sys.path.insert(0, os.path.dirname(os.path.abspath(__file__)))
import common
from markup_util import enc_config, impl_expand, decode_expand, enc_str, NotModelled, mentions_lorem

def main():
    ok, out = common.make(['run/MarkupRun.vo'])
    if not ok:
        print(out[-3000:]); return 1
    exe, err = common.build_model('markup')
    if exe is None:
        print(err); return 1
    m = common.Model(exe)
    rng = random.Random(int(sys.argv[1]) if len(sys.argv) > 1 else 1)
    n = int(sys.argv[2]) if len(sys.argv) > 2 else 2000
    frags = ['div', 'p', 'ul', 'li', 'span', 'a', 'em', 'table', 'tr', 'td', 'img', 'br', 'input', 'label', 'x', 'h$',
             '>', '>', '+', '+', '^', '(', ')', '*2', '*3', '*', '.c', '.c$', '#i', '[a=b]', '[a="b c"]', "[a='x']", '[a]',
             '[a.]', '[!a]', '[a=b a=c]', '.d.e', '{t}', '{t $}', '{$#}', '$', '$$@-', '$@3', '/', '{a\nb}', '[t={x}]',
             'ul>li*2', 'a:link', 'link', 'bq', 'btn', '!', 'html:5', 'ol>', 'select>', 'em>', '{${1:x}}', '{${2}}', '[a=${1}]',
             'label>input', 'form:get', 'input:t', 'meta:vp', 'script:src', 'p.', '..x', '{<div>}', '{ }', ' ',
             '.b', '.-e', '._m', '.b_m', '.--e_m', '.b__e', '[class="x -y"]']
    cfgs = [{}, {}, {}, {'syntax': 'xml'}, {'syntax': 'xsl'}, {'syntax': 'jsx'}, {'syntax': 'vue'}, {'syntax': 'pug'},
            {'syntax': 'haml'}, {'syntax': 'slim'}, {'options': {'output.format': False}},
            {'options': {'output.selfClosingStyle': 'xhtml'}}, {'options': {'comment.enabled': True}},
            {'options': {'output.formatLeafNode': True, 'output.indent': '  ', 'output.baseIndent': '>>', 'output.newline': '\r\n'}},
            {'options': {'output.reverseAttributes': True, 'output.attributeQuotes': 'single', 'output.compactBoolean': True}},
            {'options': {'output.tagCase': 'upper', 'output.attributeCase': 'upper', 'output.inlineBreak': 0}},
            {'text': ['one', ' two ', '', 'three']}, {'text': 'hello world'}, {'text': 'a\nb'}, {'maxRepeat': 2},
            {'syntax': 'svelte'}, {'context': {'name': 'ul'}}, {'options': {'inlineElements': []}},
            {'snippets': {'foo': 'a.p+b.q', 'bar': 'foo>bar', 'baz': 'ul>li*2'}},
            # BEM addon (model/MarkupBem.v); the dedicated streams are in harness/bem_util.py / dev_bem.py
            {'options': {'bem.enabled': True}}, {'options': {'bem.enabled': True, 'bem.element': '-', 'bem.modifier': '--'}},
            {'options': {'bem.enabled': True}, 'context': {'name': 'div', 'attributes': {'class': 'blk x'}}}]
    cases = []
    fixed = ['ul>li*3', 'a', 'div#a.b.c', 'p>em+span^div', '(a+b)*2>c', 'ul>.item$*2', 'p{hi}', 'a[href=x]{t}', 'img/', 'br',
             'div>(header>ul>li*2>a)+footer>p', 'table>.row>.col', 'select>.x', 'em>.x', 'p>.x', '.x', 'a+b+c', 'a>b>c^^d',
             'p>{text}+b', 'ul>li*2>{x$}', 'foo.x.y', 'bar', 'baz>a', '!', 'html:5', 'label>input', 'label[for]>input#x',
             'div>p>span+em^bq', 'p>a+b+c+d', 'div>a+b+c', 'a{x}+b{y}+{z}', '{a}+{b}', 'p>{a}+{b}', 'div>{a\nb}', 'div>p{a\nb}',
             'p{${1:foo}}>a', 'p{a ${1} b}>a+b', 'xsl:variable[select]>a', 'vare>x', 'a[b c=d]', "a['x']", 'a[x=1 x=2]',
             'div.a..b', 'div[a. b.]', 'input[disabled.]', 'input:hidden', 'a[!href]', 'a[!href=x]', '$*3', 'a$$@-5*3', 'a$@^*2>b$@^*3',
             'ul>li*', 'ul>li*>a', 'ul>li{$#}*', 'a*0', 'a*2*3', '(a*2)*2', '(a>b*2)*2+c', 'p*2>a*2>b*2',
             '.b>.-e>.-x', '.b_m>.-e+._n', 'div.b1>div.b2_m1>div.-e1+div.---e2_m2']
    for s in fixed:
        for c in cfgs:
            cases.append((s, c))
    for _ in range(n):
        s = ''.join(rng.choice(frags) for _ in range(rng.randint(1, 7)))
        cases.append((s, rng.choice(cfgs)))
    wires = []
    kept = []
    for s, c in cases:
        if mentions_lorem(s, c):
            continue
        try:
            wires.append([2] + enc_config(c) + enc_str(s))
            kept.append((s, c))
        except NotModelled:
            pass
    outs = m.run(wires)
    bad = 0
    stats = {}
    for (s, c), w in zip(kept, outs):
        i = impl_expand(s, c)
        mo = decode_expand(w)
        if mo[0] == 'err' and i[0] == 'err':
            same = mo == i
        else:
            same = mo == i
        stats[i[0]] = stats.get(i[0], 0) + 1
        if not same:
            bad += 1
            if bad <= 12:
                print('DISAGREE %r cfg=%r\n impl  %r\n model %r' % (s, c, i, mo))
    print('cases', len(kept), 'disagreements', bad, stats)

if __name__ == '__main__':
    sys.exit(main())
