"""Generated tables for C19 (math expressions): the constants the Coq model of
emmet/math_expression hard-codes, read from the imported modules of the
repository under test.  coq/proofs/MathTables.v re-proves on every run that the
model's definitions agree with these tables (fail-closed)."""
from fractions import Fraction

from gen_tables import GenError, write_if_changed, coq_list, HEADER


def gen_math():
    from emmet.math_expression import ops1, ops2
    from emmet.math_expression import parser as P
    from emmet.scanner_utils import is_white_space, is_space

    chars = [chr(c) for c in range(0x110000)]
    operators = [ord(c) for c in chars if P.is_operator(c)]
    signs = [ord(c) for c in chars if P.is_sign(c)]
    negs = [ord(c) for c in chars if P.is_negative_sign(c)]
    white = [ord(c) for c in chars if is_white_space(c)]
    space = [ord(c) for c in chars if is_space(c)]
    if len(operators) > 64 or len(white) > 64 or len(space) > 64:
        raise GenError('unexpectedly large character class')

    def prio_rows(factory, cs):
        rows = []
        for c in cs:
            for p in (0, 10, 30):
                t = factory(chr(c), p)
                if not isinstance(t.priority, int):
                    raise GenError('priority %r' % (t.priority,))
                rows.append('(%d, %d, %d)%%Z' % (c, p, t.priority))
        return rows

    bits = []
    for name in ('Primary', 'Operator', 'LParen', 'RParen', 'Sign', 'NullaryCall'):
        v = getattr(P.ParserState, name)
        if not isinstance(v, int):
            raise GenError('ParserState.%s = %r' % (name, v))
        bits.append('%d' % v)

    def keys(d):
        ks = []
        for k in d.keys():
            if not (isinstance(k, str) and len(k) == 1):
                raise GenError('operator key %r' % (k,))
            ks.append(ord(k))
        return sorted(ks)

    def q(v):
        f = Fraction(v)
        return '(%d, %d)%%Z' % (f.numerator, f.denominator)

    # sample semantics of the operator tables on exactly representable operands
    samples2 = []
    for k in keys(ops2):
        for (a, b) in ((7.0, 2.0), (-7.0, 2.0), (1.5, -0.5)):
            samples2.append('(%d, %s, %s, %s)' % (k, q(a), q(b), q(ops2[chr(k)](a, b))))
    samples1 = []
    for k in keys(ops1):
        for a in (7.0, -2.5):
            samples1.append('(%d, %s, %s)' % (k, q(a), q(ops1[chr(k)](a))))
    nullary = P.nullary
    out = [HEADER % 'emmet.math_expression (parser, ops1, ops2), emmet.scanner_utils']
    out.append('Definition math_operator_chars : list N :=\n  %s.\n' % coq_list(['%d' % c for c in operators]))
    out.append('Definition math_sign_chars : list N :=\n  %s.\n' % coq_list(['%d' % c for c in signs]))
    out.append('Definition math_negative_sign_chars : list N :=\n  %s.\n' % coq_list(['%d' % c for c in negs]))
    out.append('Definition math_white_space_chars : list N :=\n  %s.\n' % coq_list(['%d' % c for c in white]))
    out.append('Definition math_space_chars : list N :=\n  %s.\n' % coq_list(['%d' % c for c in space]))
    out.append('(* (character, priority argument, priority of the token built by op2 / op1) *)\n'
               'Definition math_op2_priorities : list (Z * Z * Z) :=\n  %s.\n' % coq_list(prio_rows(P.op2, operators)))
    out.append('Definition math_op1_priorities : list (Z * Z * Z) :=\n  %s.\n' % coq_list(prio_rows(P.op1, signs)))
    out.append('(* ParserState.Primary, Operator, LParen, RParen, Sign, NullaryCall *)\n'
               'Definition math_parser_state_bits : list N :=\n  %s.\n' % coq_list(bits))
    out.append('Definition math_ops2_keys : list N :=\n  %s.\n' % coq_list(['%d' % c for c in keys(ops2)]))
    out.append('Definition math_ops1_keys : list N :=\n  %s.\n' % coq_list(['%d' % c for c in keys(ops1)]))
    out.append('(* (operator, a, b, ops2[operator](a, b)) as (numerator, denominator) pairs *)\n'
               'Definition math_ops2_samples : list (N * (Z * Z) * (Z * Z) * (Z * Z)) :=\n  %s.\n' % coq_list(samples2))
    out.append('Definition math_ops1_samples : list (N * (Z * Z) * (Z * Z)) :=\n  %s.\n' % coq_list(samples1))
    out.append('(* the shared nullary token: (type is Null, value, priority) *)\n'
               'Definition math_nullary : bool * Z * Z := (%s, %d, %d)%%Z.\n' % (
                   'true' if nullary.type == P.TokenType.Null else 'false', nullary.value, nullary.priority))
    return write_if_changed('GenMath.v', '\n'.join(out))


GENERATORS = [gen_math]
