"""Stylesheet VALUE printing (C06 user snippets, also fed to the C05 / C13 stylesheet streams).

Two independent halves:

 * GENERATOR: user property snippets `prop:alt1|alt2|...` whose first alternative is a list of 1-5 tokens drawn from
   keywords, numbers with units, #colours (3 / 6 digits), quoted strings and function calls with 0-3 arguments
   (nested once), optionally with explicit `${n}` / `${n:placeholder}` fields, written with irregular blanks.

 * ORACLE (`expected_line`): reads nothing but the snippet SOURCE STRING.  A small tokenizer of its own splits the first
   alternative into tokens; the expected text is `property<between>` + tokens separated by single blanks, call
   arguments by ", ", + `<after>`; when the snippet lists >= 2 alternatives and the first has no explicit field every
   leaf token (not the names of calls) is wrapped in a tabstop numbered 1..k in document order (per comma-separated
   value the implementation starts a new counter: this generator writes no top-level comma; the oracle reads a
   comma-separated list only when nothing is to be wrapped).  What a tabstop prints is the field callback's business:
   `${n:text}` with the harness' callback, `text` with the library default.  A tabstop written close to the token before
   it (keyword, number, #colour, string, another tabstop) stays close: `#${1:fff}`, `${1:inset }${2:hoff}`.

Colours are canonicalised by the oracle itself (lower case; #aabbcc -> #abc under stylesheet.shortHex, the default),
numbers too (`.5` -> `0.5`, `1.50` -> `1.5`); the generator mostly writes canonical forms so that "as written" is literal.
"""
import re

KEYWORDS = ['solid', 'none', 'auto', 'inherit', 'no-repeat', 'inline-block', 'ease-in-out', 'a', 'b', 'x', 'bold', 'center',
            'red', 'sans-serif', 'to', 'top', 'currentColor', 'Arial', 'border-box', 'se-resize']
UNITS = ['px', 'em', 'rem', '%', 's', 'ms', 'deg', 'vh', 'fr', 'pt', 'ex']
FN_NAMES = ['f', 'rgb', 'rgba', 'url', 'scale', 'translate', 'linear-gradient', 'var', 'calc', 'cubic-bezier', 'g', 'minmax']
STR_BODIES = ['s', 'a b', 'img/a.png', 'x.y', '', 'Helvetica Neue', 'a-b_c', '1 2  3', 'it,em', '(p)', '#fff', 'a:b c']
PROPS = ['margin', 'foo-bar', 'x-y-z', 'color', 'grid-area', 'my-prop', 'background', 'transition', 'font-family', 'm']
OTHER_ALTS = ['none', 'auto', 'b', '0', 'inherit', 'c d', 'g(1)', '#fff', '"z"', '${1:e}']


# ------------------------------------------------------------------ generator (AST -> source text)
def gen_number(rng, canonical=True):
    if rng.random() < 0.12:
        return '0'
    ip = str(rng.choice([1, 2, 5, 10, 12, 50, 100, 255, 360, 1024, rng.randint(0, 999)]))
    fp = ''
    if rng.random() < 0.3:
        fp = '.' + ''.join(rng.choice('0123456789') for _ in range(rng.randint(0, 2))) + rng.choice('123456789')
    if not canonical:
        r = rng.random()
        if r < 0.3 and fp:
            ip = ''                       # .5
        elif r < 0.6 and fp:
            fp += '0'                     # 1.50
        elif r < 0.8:
            ip = '0' + ip                 # 010
    sign = '-' if rng.random() < 0.15 else ''
    return sign + ip + fp + rng.choice(UNITS)


def gen_color(rng):
    n = rng.choice([3, 3, 6, 6, 6])
    if n == 6 and rng.random() < 0.25:
        h = ''.join(c * 2 for c in (rng.choice('0123456789abcdef') for _ in range(3)))       # shortenable
    else:
        h = ''.join(rng.choice('0123456789abcdef') for _ in range(n))
    if rng.random() < 0.15:
        h = h.upper()
    return '#' + h


def gen_leaf(rng, canonical=True):
    r = rng.random()
    if r < 0.4:
        return ('kw', rng.choice(KEYWORDS))
    if r < 0.7:
        return ('num', gen_number(rng, canonical))
    if r < 0.85:
        return ('col', gen_color(rng))
    q = rng.choice('"\'')
    return ('str', q + rng.choice(STR_BODIES) + q)


def gen_token(rng, depth, fields, canonical=True):
    """depth: how many more levels of calls are allowed; fields: may write explicit fields"""
    r = rng.random()
    if fields and r < 0.25:
        ph = rng.choice([None, None, 'x', 'solid', '1px', '#000', 'a b'])
        return ('field', rng.randint(0, 4), ph, False)
    if depth > 0 and r < 0.5:
        nargs = rng.choice([0, 1, 1, 2, 2, 3])
        args = [[gen_token(rng, depth - 1, fields, canonical) for _ in range(rng.choice([1, 1, 1, 2]))] for _ in range(nargs)]
        return ('call', rng.choice(FN_NAMES), args)
    return gen_leaf(rng, canonical)


def gen_alt(rng, fields=False, canonical=True, max_tokens=5, calls=True):
    n = rng.choice([1, 1, 2, 2, 3, 3, 4, 5])
    n = min(n, max_tokens)
    toks = [gen_token(rng, 2 if calls and rng.random() < 0.6 else (1 if calls else 0), fields and rng.random() < 0.7, canonical)
            for _ in range(n)]
    if fields and not any(has_field_ast(t) for t in toks):
        toks[rng.randrange(len(toks))] = ('field', rng.randint(1, 3), rng.choice([None, 'x', 'y z']), False)
    if fields:
        # a field written close to the previous LEAF token stays close (`foo${1:bar}`)
        for i in range(1, len(toks)):
            if toks[i][0] == 'field' and toks[i - 1][0] in ('kw', 'num') and rng.random() < 0.3:
                toks[i] = toks[i][:3] + (True,)
    return toks


def has_field_ast(t):
    if t[0] == 'field':
        return True
    if t[0] == 'call':
        return any(has_field_ast(x) for a in t[2] for x in a)
    return False


def blanks(rng, at_least=1):
    r = rng.random()
    if r < 0.7:
        return ' ' * at_least
    if r < 0.9:
        return ' ' * (at_least + 1)
    return ' ' * at_least + rng.choice([' ', '  ', '\t'])


def render_tokens(rng, toks, tidy=False):
    out = ''
    for i, t in enumerate(toks):
        if i and not (t[0] == 'field' and t[3]):
            out += ' ' if tidy else blanks(rng)
        out += render_token(rng, t, tidy)
    return out


def render_token(rng, t, tidy=False):
    if t[0] == 'call':
        parts = []
        for a in t[2]:
            parts.append(render_tokens(rng, a, tidy))
        if tidy:
            return t[1] + '(' + ', '.join(parts) + ')'
        s = t[1] + '('
        for i, p in enumerate(parts):
            if i:
                s += rng.choice([',', ', ', ', ', ' , ', ',  '])
            s += p
        return s + ')'
    if t[0] == 'field':
        return '${%d%s}' % (t[1], ':' + t[2] if t[2] is not None else '')
    return t[1]


def gen_snippet(rng, canonical=True):
    """-> (source string, info) ; info: nalts, explicit fields"""
    prop = rng.choice(PROPS)
    fields = rng.random() < 0.25
    first = gen_alt(rng, fields, canonical)
    nalts = rng.choice([1, 2, 2, 2, 3, 4])
    alts = [render_tokens(rng, first, tidy=rng.random() < 0.4)]
    for _ in range(nalts - 1):
        alts.append(rng.choice(OTHER_ALTS) if rng.random() < 0.6 else render_tokens(rng, gen_alt(rng, False, True, 3), True))
    src = prop + rng.choice([':', ':', ': ']) + '|'.join(alts)
    if rng.random() < 0.1:
        src += ';'
    return src, {'nalts': nalts, 'fields': fields, 'first': first}


def shape(first):
    """coverage bucket of a first alternative"""
    kinds = set()

    def walk(t, d):
        kinds.add(t[0] if t[0] != 'call' else 'call%d' % d)
        if t[0] == 'call':
            for a in t[2]:
                for x in a:
                    walk(x, d + 1)
    for t in first:
        walk(t, 0)
    return 'tokens=%d' % len(first) + (',nested' if 'call1' in kinds else (',call' if 'call0' in kinds else ''))


# ------------------------------------------------------------------ the oracle's own tokenizer (source string only)
RE_SNIPPET = re.compile(r'^([a-z-]+)\s*:\s*(.*?);*$', re.S)
RE_NUMBER = re.compile(r'^(-?)(\d*)(?:\.(\d+))?([a-z%]*)$', re.I)
RE_FIELD = re.compile(r'\$\{(\d+)(?::([^}]*))?\}')
BLANK = ' \t'


class Unreadable(Exception):
    pass


GLUE_AFTER = ('kw', 'num', 'col', 'str', 'field', 'call')


def read_tokens(s, i, stop):
    """tokens of s[i:] up to (not including) a top-level character of `stop` -> (tokens, position)"""
    toks = []
    n = len(s)
    while True:
        while i < n and s[i] in BLANK:
            i += 1
        if i >= n or s[i] in stop:
            return toks, i
        c = s[i]
        if c in '"\'':
            j = s.find(c, i + 1)
            if j < 0:
                raise Unreadable('open quote')
            toks.append(('str', s[i:j + 1]))
            i = j + 1
            continue
        m = RE_FIELD.match(s, i)
        if m:
            # "as listed": a tabstop written close to the token before it (a keyword, number, #colour, string or ANOTHER
            # tabstop: `foo${1}`, `${1:inset }${2:hoff}`) stays close.  After the `)` of a call see FIELD_GLUED_AFTER_CALL.
            glued = i > 0 and s[i - 1] not in BLANK + '(,' and bool(toks) and toks[-1][0] in GLUE_AFTER
            toks.append(('field', int(m.group(1)), m.group(2), glued))
            i = m.end()
            continue
        if c == '#':
            j = i + 1
            while j < n and s[j] in '0123456789abcdefABCDEF':
                j += 1
            toks.append(('col', s[i:j]) if j > i + 1 else ('kw', '#'))
            i = j
            continue
        j = i
        while j < n and s[j] not in BLANK + '(),"\'$#|':
            j += 1
        if j == i:
            raise Unreadable('character %r' % s[i])
        word = s[i:j]
        if j < n and s[j] == '(':
            args = []
            k = j + 1
            while True:
                a, k = read_tokens(s, k, ',)')
                if k >= n:
                    raise Unreadable('open parenthesis')
                if a or s[k] == ',' or args:
                    args.append(a)
                if s[k] == ')':
                    break
                k += 1
            toks.append(('call', word, args))
            i = k + 1
            continue
        toks.append(('num', word) if re.match(r'^-?(\d|\.\d)', word) else ('kw', word))
        i = j


def read_value_list(alt):
    """the comma-separated values of one alternative (`Arial, "Helvetica Neue", sans-serif`) -> [tokens, ...]"""
    parts = []
    i = 0
    while True:
        toks, i = read_tokens(alt, i, ',')
        parts.append(toks)
        if i >= len(alt):
            return parts
        i += 1


def split_alts(body):
    """alternatives of a value: split at `|` outside quotes"""
    out, cur, q = [], '', None
    for ch in body:
        if q:
            cur += ch
            if ch == q:
                q = None
        elif ch in '"\'':
            q = ch
            cur += ch
        elif ch == '|':
            out.append(cur)
            cur = ''
        else:
            cur += ch
    out.append(cur)
    return out


def canon_number(word):
    m = RE_NUMBER.match(word)
    if not m:
        raise Unreadable('number %r' % word)
    sign, ip, fp, unit = m.groups()
    ip = ip.lstrip('0') or '0'
    fp = (fp or '').rstrip('0')
    if ip == '0' and not fp:
        sign = ''
    return sign + ip + ('.' + fp if fp else '') + unit


def canon_color(word, short_hex=True):
    h = word[1:].lower()
    if len(h) not in (3, 6):
        raise Unreadable('colour %r' % word)
    if len(h) == 3:
        if short_hex:
            return '#' + h
        return '#' + ''.join(c * 2 for c in h)
    if short_hex and h[0] == h[1] and h[2] == h[3] and h[4] == h[5]:
        return '#' + h[0] + h[2] + h[4]
    return '#' + h


def toks_have_field(toks):
    return any(t[0] == 'field' or (t[0] == 'call' and any(toks_have_field(a) for a in t[2])) for t in toks)


class Counter:
    def __init__(self):
        self.n = 1

    def next(self):
        v = self.n
        self.n += 1
        return v


def print_tokens(toks, wrap, tabstop, counter, short_hex=True):
    out = ''
    for i, t in enumerate(toks):
        if i and not (t[0] == 'field' and t[3]):
            out += ' '
        if t[0] == 'call':
            out += t[1] + '(' + ', '.join(print_tokens(a, wrap, tabstop, counter, short_hex) for a in t[2]) + ')'
            continue
        if t[0] == 'field':
            ph = t[2] or ''
            out += ('${%d%s}' % (t[1], ':' + ph if ph else '')) if tabstop else ph
            continue
        text = t[1]
        if t[0] == 'num':
            text = canon_number(text)
        elif t[0] == 'col':
            text = canon_color(text, short_hex)
        if wrap:
            idx = counter.next()
            text = ('${%d:%s}' % (idx, text)) if tabstop else text
        out += text
    return out


def expected_value(source, tabstop, short_hex=True):
    """(expected value text, number of generated tabstops) for a property snippet source, None when it lists no value"""
    m = RE_SNIPPET.match(source)
    if not m:
        raise Unreadable('not a property snippet')
    body = m.group(2)
    if not body:
        return None
    alts = split_alts(body)
    parts = read_value_list(alts[0])
    toks = [t for part in parts for t in part]
    wrap = len(alts) >= 2 and not toks_have_field(toks)
    if wrap and len(parts) > 1:
        raise Unreadable('several comma-separated values to be wrapped in tabstops')
    c = Counter()
    return ', '.join(print_tokens(part, wrap, tabstop, c, short_hex) for part in parts), (c.n - 1 if wrap else 0)


def expected_line(source, between, after, tabstop, short_hex=True):
    m = RE_SNIPPET.match(source)
    ev = expected_value(source, tabstop, short_hex)
    if ev is None:
        return m.group(1) + between + ('${0}' if tabstop else '') + after
    return m.group(1) + between + ev[0] + after


def expected_fields(source, short_hex=True):
    """the (index, placeholder) pairs output.field must be called with, in order (independent of the callback)"""
    m = RE_SNIPPET.match(source)
    body = m.group(2)
    if not body:
        return [(0, '')]
    alts = split_alts(body)
    toks = [t for part in read_value_list(alts[0]) for t in part]
    wrap = len(alts) >= 2 and not toks_have_field(toks)
    out = []
    c = Counter()

    def walk(ts):
        for t in ts:
            if t[0] == 'call':
                for a in t[2]:
                    walk(a)
            elif t[0] == 'field':
                out.append((t[1], t[2] or ''))
            elif wrap:
                text = canon_number(t[1]) if t[0] == 'num' else canon_color(t[1], short_hex) if t[0] == 'col' else t[1]
                out.append((c.next(), text))
    walk(toks)
    return out


# ------------------------------------------------------------------ raw snippets: line breaks around tabstops
RAW_BODIES = ['a {\n${1}\n}', 'x ${1}\ny', 'a {\n\t${1}\n}', 'two\nlines\n', 'end ${1:x}\n', '@r ${1:n} {\r\n${0}\r\n}', 'p\n\n${1}',
              '${1}\nq', 'l1\n${1:a}\n${2:b}\nl4', 'only text', 'a\r${1}b', '/* ${1} */\n', '\n${1}', 'a b\n']


def raw_segments(body):
    """literal / field segments of a raw body: [('lit', text) | ('field', index, placeholder)] (resolve_as_snippet's regex:
    a placeholder is non-empty)"""
    out = []
    pos = 0
    for m in re.finditer(r'\$\{(\d+)(:[^}]+)?\}', body):
        if m.start() != pos:
            out.append(('lit', body[pos:m.start()]))
        out.append(('field', int(m.group(1)), m.group(2)[1:] if m.group(2) else ''))
        pos = m.end()
    if pos != len(body):
        out.append(('lit', body[pos:]))
    return out


def raw_expected(body, tabstop, newline='\n', lossy=False):
    """what a raw snippet must print: its body, line breaks (CRLF, CR, LF) as the configured newline, tabstops through the
    callback.  lossy=True: what the implementation prints today for the listed finding -- every literal segment loses a
    line break it ends with."""
    out = ''
    for seg in raw_segments(body):
        if seg[0] == 'lit':
            lines = re.split(r'\r\n|\r|\n', seg[1])
            if lossy and len(lines) > 1 and lines[-1] == '':
                lines.pop()
            out += newline.join(lines)
        else:
            out += ('${%d%s}' % (seg[1], ':' + seg[2] if seg[2] else '')) if tabstop else seg[2]
    return out


def raw_in_finding_class(body):
    """a literal segment that ends with a line break (so: immediately before a tabstop, or at the end of the body)"""
    return any(seg[0] == 'lit' and re.search(r'(\r\n|\r|\n)$', seg[1]) for seg in raw_segments(body))


# ------------------------------------------------------------------ tabstops written close to the token before them
# (added for C06: `box-shadow:${1:inset }${2:hoff} ...` -- a tabstop directly after ANOTHER tabstop, after a #colour, after
# a string -- was unexplored; gen_alt only glues a field to a keyword or number)
FIELD_GLUED_AFTER_CALL = True
"""ON, listed finding c06:tabstop-directly-after-call: a tabstop written directly after the `)` of a call (`x-prop:f(a)${1:x}`) is printed with a blank before it
(`x-prop: f(a) ${1:x};`) by the library as it stands, although it keeps `a${1}`, `10px${1}`, `"s"${1}`, `#fff${1}` and
`${1}${2}` close.  The oracle (read_tokens: GLUE_AFTER) expects "as listed" there too, failures of this class are reported under the
finding's key (c06.listed_class)."""
GLUED_PLACEHOLDERS = [None, None, 'x', 'a ', 'inset ', 'hoff', '1px', '#000', 'a b', ' b', 'to-x']


def gen_glued_alt(rng, calls=True):
    """a first alternative of 1-4 groups; a group is a leaf token (keyword, number, #colour, string, tabstop) followed by
    0-3 tabstops written close to it (no blank), also inside the arguments of a call"""
    def field(glued):
        return ('field', rng.randint(0, 5), rng.choice(GLUED_PLACEHOLDERS), glued)

    def group(depth):
        r = rng.random()
        if calls and depth > 0 and r < 0.25:
            args = [[t for _ in range(rng.choice([1, 1, 2])) for t in group(depth - 1)] for _ in range(rng.choice([1, 1, 2, 3]))]
            out = [('call', rng.choice(FN_NAMES), args)]
            if FIELD_GLUED_AFTER_CALL and rng.random() < 0.5:
                out.append(field(True))
            return out
        if r < 0.55:
            out = [field(False)]
        else:
            out = [gen_leaf(rng)]
        for _ in range(rng.choice([0, 1, 1, 1, 2, 3])):
            out.append(field(True))
        return out

    toks = [t for _ in range(rng.choice([1, 1, 2, 2, 3, 4])) for t in group(1)]
    if not any(t[0] == 'field' and t[3] for t in toks):
        if toks[-1][0] == 'call' and not FIELD_GLUED_AFTER_CALL:
            toks.append(field(False))
        toks.append(field(True))
    return toks


def gen_glued_snippet(rng):
    """-> source string of a property snippet whose first alternative has tabstops written close to other tokens"""
    prop = rng.choice(PROPS)
    first = gen_glued_alt(rng)
    alts = [render_tokens(rng, first, tidy=rng.random() < 0.6)]
    for _ in range(rng.choice([0, 0, 1, 1, 2])):
        alts.append(rng.choice(OTHER_ALTS))
    return prop + rng.choice([':', ':', ': ']) + '|'.join(alts) + (';' if rng.random() < 0.1 else '')
