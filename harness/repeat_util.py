"""C02 helpers: abbreviation AST with numbering templates, renderer, the INDEPENDENT property
oracle (expected forest of (name, attrs, text) with substituted counters and the maxRepeat
clause, computed directly from the AST) and a tag parser for the implementation's output.

Nothing here looks at the Coq model or at emmet's converter."""
import re

IMPLICIT_DOC = {'ul': 'li', 'ol': 'li', 'table': 'tr', 'tbody': 'tr', 'thead': 'tr', 'tfoot': 'tr', 'tr': 'td',
                'select': 'option', 'optgroup': 'option', 'p': 'span'}
UNDOCUMENTED_PARENTS = {'colgroup', 'audio', 'video', 'object', 'map'}


# ---------------------------------------------------------------- templates
class Num:
    """A numbering token: `$`*size [@ [-] [base]]."""
    __slots__ = ('size', 'reverse', 'base', 'at')

    def __init__(self, size=1, reverse=False, base=None, at=False):
        self.size = size
        self.reverse = reverse
        self.base = base          # None = not written (documented default: start at 1)
        self.at = at or reverse or base is not None

    def render(self):
        s = '$' * self.size
        if self.at:
            s += '@' + ('-' if self.reverse else '') + ('' if self.base is None else str(self.base))
        return s

    def value(self, counter):
        """Documented value: counter = (i, n) 1-based copy index of the nearest repeated unit, or None."""
        if counter is None:
            v = 1
        else:
            i, n = counter
            start = 1 if self.base is None else self.base
            v = start + n - i if self.reverse else start + i - 1
        s = str(v)
        return '0' * max(0, self.size - len(s)) + s

    def __repr__(self):
        return 'Num(%r)' % self.render()


def render_tpl(tpl):
    return ''.join(p if isinstance(p, str) else p.render() for p in tpl)


def subst_tpl(tpl, counter):
    return ''.join(p if isinstance(p, str) else p.value(counter) for p in tpl)


def has_num(tpl):
    return any(not isinstance(p, str) for p in tpl)


class El:
    """Element; every textual part is a template (list of str | Num)."""
    __slots__ = ('name', 'id', 'classes', 'attrs', 'text', 'repeat', 'kids')

    def __init__(self, name=None, id=None, classes=(), attrs=(), text=None, repeat=None, kids=()):
        self.name = name            # template or None (nameless: implicit name)
        self.id = id                # template or None
        self.classes = list(classes)
        self.attrs = list(attrs)    # (name template, value template, quote '' | '"' | "'")
        self.text = text            # template or None
        self.repeat = repeat        # None | int
        self.kids = list(kids)      # list of El | Group  (children: written after `>`)


class Group:
    __slots__ = ('items', 'repeat')

    def __init__(self, items, repeat=None):
        self.items = list(items)    # siblings inside the parentheses
        self.repeat = repeat


def render_el(e):
    s = render_tpl(e.name) if e.name else ''
    if e.id is not None:
        s += '#' + render_tpl(e.id)
    for c in e.classes:
        s += '.' + render_tpl(c)
    if e.attrs:
        s += '[' + ' '.join('%s=%s%s%s' % (render_tpl(n), q, render_tpl(v), q) for n, v, q in e.attrs) + ']'
    if e.text is not None:
        s += '{' + render_tpl(e.text) + '}'
    if e.repeat is not None:
        s += '*%d' % e.repeat
    return s


def _render(nodes):
    """-> (text, how many levels below the level of `nodes` the text ends)."""
    out = []
    depth = 0
    for k, n in enumerate(nodes):
        last = k == len(nodes) - 1
        depth = 0
        if isinstance(n, Group):
            s = '(' + _render(n.items)[0] + ')'
            if n.repeat is not None:
                s += '*%d' % n.repeat
        else:
            s = render_el(n)
            if n.kids:
                sub, d = _render(n.kids)
                s += '>' + sub
                depth = d + 1
        if not last:
            if depth and s.endswith('@'):
                # `$@^` would be read as the parent modifier: close the level with a plain group instead
                s = '(' + s + ')+'
            else:
                s += '^' * depth if depth else '+'
        out.append(s)
    return ''.join(out), depth


def render(nodes):
    """Siblings joined by `+`, children after `>`, and as many `^` as needed to come back to the
    level of the next sibling."""
    return _render(nodes)[0]


# ---------------------------------------------------------------- the property oracle
class Budget:
    def __init__(self, limit):
        self.limit = limit          # None = unlimited
        self.completed = 0

    def copy_completed(self):
        """True when the repeater that just completed a copy must stop."""
        self.completed += 1
        return self.limit is not None and self.completed >= self.limit


def expected(nodes, limit=None, inline=()):
    """Forest [(name, attrs dict, text, kids)] the statement of C02 prescribes."""
    budget = Budget(limit)
    return _unroll(nodes, None, None, budget, set(inline)), budget.completed


def _unroll(nodes, counter, parent_name, budget, inline):
    out = []
    for n in nodes:
        if n.repeat is None:
            out.extend(_once(n, counter, parent_name, budget, inline))
        else:
            total = n.repeat if n.repeat >= 1 else 1      # `*0`: one copy (as the code does it; outside the claim)
            for i in range(1, total + 1):
                out.extend(_once(n, (i, total), parent_name, budget, inline))
                if budget.copy_completed():
                    break
    return out


def _once(n, counter, parent_name, budget, inline):
    if isinstance(n, Group):
        return _unroll(n.items, counter, parent_name, budget, inline)
    if n.name:
        name = subst_tpl(n.name, counter)
    else:
        p = (parent_name or '').lower()
        name = IMPLICIT_DOC.get(p) or ('span' if p in inline else 'div')
    attrs = {}
    if n.id is not None:
        attrs['id'] = subst_tpl(n.id, counter)
    if n.classes:
        attrs['class'] = ' '.join(subst_tpl(c, counter) for c in n.classes)
    for an, av, _q in n.attrs:
        attrs[subst_tpl(an, counter)] = subst_tpl(av, counter)
    text = subst_tpl(n.text, counter) if n.text is not None else ''
    kids = _unroll(n.kids, counter, name, budget, inline)
    return [(name, attrs, text, kids)]


def count_nodes(forest):
    return sum(1 + count_nodes(k) for _, _, _, k in forest)


def names_of(forest):
    for name, _, _, kids in forest:
        yield name
        yield from names_of(kids)


# ---------------------------------------------------------------- observer of the output
TAG_RE = re.compile(r'<(/?)([^\s<>/"\'=]+)((?:\s+[^\s<>/"\'=]+(?:=(?:"[^"]*"|\'[^\']*\'|[^\s<>"\']+))?)*)\s*(/?)>', re.S)
ATTR_RE = re.compile(r'([^\s<>/"\'=]+)(?:=(?:"([^"]*)"|\'([^\']*)\'|([^\s<>"\']+)))?', re.S)


def parse_markup(out):
    """HTML/XML string -> forest [(name, attrs, text, kids)] or raises ValueError."""
    root = ('', {}, [], [])
    stack = [root]
    pos = 0
    for m in TAG_RE.finditer(out):
        txt = out[pos:m.start()].strip()
        if '<' in txt or '>' in txt:
            raise ValueError('stray angle bracket in %r' % txt)
        if txt:
            stack[-1][2].append(txt)
        pos = m.end()
        close, name, attrs, selfc = m.group(1), m.group(2), m.group(3), m.group(4)
        if close:
            if len(stack) < 2 or stack[-1][0] != name:
                raise ValueError('close tag %r does not match' % name)
            stack.pop()
        else:
            ad = {}
            for am in ATTR_RE.finditer(attrs):
                v = am.group(2)
                if v is None:
                    v = am.group(3)
                if v is None:
                    v = am.group(4)
                ad[am.group(1)] = v
            node = (name, ad, [], [])
            stack[-1][3].append(node)
            if not selfc:
                stack.append(node)
    txt = out[pos:].strip()
    if '<' in txt or '>' in txt:
        raise ValueError('stray angle bracket in %r' % txt)
    if txt:
        stack[-1][2].append(txt)
    if len(stack) != 1:
        raise ValueError('unclosed tag %r' % stack[-1][0])
    if root[2]:
        raise ValueError('top-level text %r' % root[2])

    def freeze(n):
        return (n[0], n[1], ''.join(n[2]), [freeze(k) for k in n[3]])
    return [freeze(k) for k in root[3]]


def first_diff(exp, got, path=''):
    """Human-readable first difference between two forests, or None."""
    for k in range(max(len(exp), len(got))):
        here = '%s/%d' % (path, k)
        if k >= len(got):
            return '%s: expected %d sibling(s) here, output has %d (missing <%s>)' % (path or '/', len(exp), len(got), exp[k][0])
        if k >= len(exp):
            return '%s: expected %d sibling(s) here, output has %d (extra <%s>)' % (path or '/', len(exp), len(got), got[k][0])
        e, g = exp[k], got[k]
        if e[0] != g[0]:
            return '%s: element name %r expected, %r in output' % (here, e[0], g[0])
        if e[1] != g[1]:
            return '%s <%s>: attributes %r expected, %r in output' % (here, e[0], e[1], g[1])
        if e[2] != g[2]:
            return '%s <%s>: text %r expected, %r in output' % (here, e[0], e[2], g[2])
        d = first_diff(e[3], g[3], here)
        if d:
            return d
    return None


# ---------------------------------------------------------------- generation
LETTERS = 'abcdefghkmnpqrstuvwxyz'
SIZES = [1, 1, 1, 2, 3, 3, 4, 6]
BASES = [None, None, None, 0, 1, 2, 3, 5, 9, 10, 42, 99, 100, 998]


def all_forms(sizes=(1, 2, 3, 5), bases=(None, 0, 1, 3, 10, 99, 1000)):
    """Every numbering form: widths x (plain | @ | @M | @- | @-M)."""
    out = []
    for size in sizes:
        out.append(Num(size))
        out.append(Num(size, at=True))
        for rev in (False, True):
            for b in bases:
                if b is None and not rev:
                    continue
                out.append(Num(size, rev, b))
    return out


def rand_num(rng):
    r = rng.random()
    size = rng.choice(SIZES)
    if r < 0.35:
        return Num(size)
    if r < 0.42:
        return Num(size, at=True)
    if r < 0.62:
        return Num(size, False, rng.choice(BASES[3:]))
    if r < 0.78:
        return Num(size, True, None)
    return Num(size, True, rng.choice(BASES[3:]))


def rand_word(rng, lo=1, hi=3, alphabet=LETTERS):
    return ''.join(rng.choice(alphabet) for _ in range(rng.randint(lo, hi)))


def rand_tpl(rng, head, p_num, inner_space=False):
    """Template starting with the literal `head`; every literal that follows a numbering token starts
    with a letter (so that it cannot be read as part of the `@...` modifier); two numbering tokens are
    adjacent only when the first one carries an `@` part (otherwise the `$` runs would merge)."""
    tpl = [head]
    k = 0
    while rng.random() < p_num and k < 3:
        n = rand_num(rng)
        prev_is_num = not isinstance(tpl[-1], str)
        if prev_is_num and not tpl[-1].at:
            tpl.append(rand_word(rng, 1, 2))
        tpl.append(n)
        if rng.random() < 0.4:
            w = rand_word(rng, 1, 2)
            if inner_space and rng.random() < 0.3:
                w = w + ' ' + rand_word(rng, 1, 2)
            tpl.append(w)
        k += 1
        p_num *= 0.6
    return tpl


def decorate(rng, el, p_num=0.5):
    """Attach id/classes/attributes/text with numbering to an element."""
    if rng.random() < 0.25:
        el.id = rand_tpl(rng, 'i' + rand_word(rng, 0, 1), p_num)
    for _ in range(rng.choice([0, 0, 1, 1, 2])):
        el.classes.append(rand_tpl(rng, 'c' + rand_word(rng, 0, 1), p_num))
    used = set()
    for _ in range(rng.choice([0, 0, 0, 1, 2])):
        an = 't' + rand_word(rng, 1, 2)
        if an in used or an in ('id', 'class'):
            continue
        used.add(an)
        q = rng.choice(['', '"', "'"])
        name_tpl = [an] if rng.random() < 0.8 else [an, rand_num(rng)]
        el.attrs.append((name_tpl, rand_tpl(rng, 'v' + rand_word(rng, 0, 1), p_num, inner_space=bool(q)), q))
    if rng.random() < 0.35:
        el.text = rand_tpl(rng, 'T' + rand_word(rng, 0, 2), p_num, inner_space=True)


def fix_el(el):
    """`$#` is the repeater placeholder: a name ending in a bare `$` run directly followed by `#id`
    is written with an explicit `@` (`a$@#i`)."""
    if el.name and el.id is not None and not isinstance(el.name[-1], str) and not el.name[-1].at:
        el.name[-1].at = True


def rand_forest(rng, names, budget, depth=0, max_depth=5, rep_max=6, p_num=0.5, top=True):
    """Random sibling list with about `budget` written elements; groups and elements may carry *N."""
    out = []
    n = max(1, budget)
    i = 0
    while i < n:
        rep = rng.choice([None, None, 1, 2, 2, 3, rng.randint(1, rep_max)])
        if depth < max_depth and n - i >= 1 and rng.random() < 0.3:
            g = rng.randint(1, max(1, min(4, n - i)))
            out.append(Group(rand_forest(rng, names, g, depth + 1, max_depth, rep_max, p_num, False), repeat=rep))
            i += g
        else:
            nm = rng.choice(names)
            name = rand_tpl(rng, nm, p_num * 0.6) if rng.random() < 0.9 else None
            el = El(name=name, repeat=rep)
            decorate(rng, el, p_num)
            fix_el(el)
            if el.name is None and not (el.classes or el.id is not None or el.attrs):
                el.classes.append(['k'])
            i += 1
            if depth < max_depth and i < n and rng.random() < 0.5:
                k = rng.randint(1, n - i)
                el.kids = rand_forest(rng, names, k, depth + 1, max_depth, rep_max, p_num, False)
                i += k
            out.append(el)
    return out


def total_repeat_copies(nodes):
    """Number of copies all repeaters complete when there is no limit."""
    return expected(nodes, None)[1]


def max_depth_of(nodes):
    d = 0
    for n in nodes:
        sub = n.items if isinstance(n, Group) else n.kids
        d = max(d, 1 + max_depth_of(sub))
    return d
