"""C02 helpers: abbreviation AST with numbering templates, renderer, the INDEPENDENT property
oracle (expected forest of (name, attrs, text) with substituted counters and the maxRepeat
clause, computed directly from the AST) and a tag parser for the implementation's output.

Nothing here looks at the Coq model or at emmet's converter."""
import re

IMPLICIT_DOC = {'ul': 'li', 'ol': 'li', 'table': 'tr', 'tbody': 'tr', 'thead': 'tr', 'tfoot': 'tr', 'tr': 'td',
                'select': 'option', 'optgroup': 'option', 'p': 'span'}
UNDOCUMENTED_PARENTS = {'colgroup', 'audio', 'video', 'object', 'map'}


# ---------------------------------------------------------------- templates
class Num:
    """A numbering token: `$`*size [@ [-] [base]]."""
    __slots__ = ('size', 'reverse', 'base', 'at')

    def __init__(self, size=1, reverse=False, base=None, at=False):
        self.size = size
        self.reverse = reverse
        self.base = base          # None = not written (documented default: start at 1)
        self.at = at or reverse or base is not None

    def render(self):
        s = '$' * self.size
        if self.at:
            s += '@' + ('-' if self.reverse else '') + ('' if self.base is None else str(self.base))
        return s

    def value(self, counter):
        """Documented value: counter = (i, n) 1-based copy index of the nearest repeated unit, or None."""
        if counter is None:
            v = 1
        else:
            i, n = counter
            start = 1 if self.base is None else self.base
            v = start + n - i if self.reverse else start + i - 1
        s = str(v)
        return '0' * max(0, self.size - len(s)) + s

    def __repr__(self):
        return 'Num(%r)' % self.render()


class Ph:
    """The repeater placeholder `$#` (Emmet docs, "Wrap with Abbreviation": the place where the wrapped
    text goes).  It is not a counter; it stands next to counters, and the statement's counter rule must
    hold around it.  Value: nothing when no text is given, the text when the text is one string, line i
    when the nearest `*`-without-count repeater (one copy per non-blank line) is in copy i."""
    __slots__ = ()
    at = True                       # a numbering token may follow directly (`$#$`)

    def render(self):
        return '$#'

    def __repr__(self):
        return 'Ph'


PH = Ph()
IMPLICIT = '*'                      # El.repeat / Group.repeat: `*` without a count (one copy per text line)


class Env:
    """What a place sees: counter = (i, n) of the nearest repeated unit or None; ph = what `$#` yields
    here (None: outside every line repeater while the text is a list of lines -- never generated)."""
    __slots__ = ('counter', 'ph')

    def __init__(self, counter, ph):
        self.counter = counter
        self.ph = ph


def render_tpl(tpl):
    return ''.join(p if isinstance(p, str) else p.render() for p in tpl)


def subst_tpl(tpl, env):
    out = []
    for p in tpl:
        if isinstance(p, str):
            out.append(p)
        elif isinstance(p, Ph):
            if env.ph is None:
                raise ValueError('`$#` outside every line repeater with a list of lines: not in the generated class')
            out.append(env.ph)
        else:
            out.append(p.value(env.counter))
    return ''.join(out)


def has_num(tpl):
    return any(isinstance(p, Num) for p in tpl)


def has_ph(tpl):
    return any(isinstance(p, Ph) for p in (tpl or ()))


class El:
    """Element; every textual part is a template (list of str | Num)."""
    __slots__ = ('name', 'id', 'classes', 'attrs', 'text', 'repeat', 'kids')

    def __init__(self, name=None, id=None, classes=(), attrs=(), text=None, repeat=None, kids=()):
        self.name = name            # template or None (nameless: implicit name)
        self.id = id                # template or None
        self.classes = list(classes)
        self.attrs = list(attrs)    # (name template, value template, kind): see ATTR_KINDS
        self.text = text            # template or None
        self.repeat = repeat        # None | int
        self.kids = list(kids)      # list of El | Group  (children: written after `>`)


class Group:
    __slots__ = ('items', 'repeat')

    def __init__(self, items, repeat=None):
        self.items = list(items)    # siblings inside the parentheses
        self.repeat = repeat


def render_el(e):
    s = render_tpl(e.name) if e.name else ''
    if e.id is not None:
        s += '#' + render_tpl(e.id)
    for c in e.classes:
        s += '.' + render_tpl(c)
    if e.attrs:
        s += '[' + ' '.join(render_attr(n, v, q) for n, v, q in e.attrs) + ']'
    if e.text is not None:
        s += '{' + render_tpl(e.text) + '}'
    s += render_repeat(e.repeat)
    return s


def render_repeat(rep):
    if rep is None:
        return ''
    return '*' if rep == IMPLICIT else '*%d' % rep


# Attribute kinds (third component of El.attrs entries) and what each one looks like in HTML/XML output.
# Facts hard-coded from the Emmet documentation (docs.emmet.io "Abbreviations syntax": custom attributes
# `[title="Hello world!" colspan=3]`, single or double quotes, "you don't need to quote values if they don't
# contain spaces", attributes without a value; the JSX note: `{...}` expression values are output as written,
# `name={expr}`) and from the attribute docstrings of the AST (boolean `name.` = "name equals value",
# implied `!name` = "output only if it contains a value"); default profile: double quotes, boolean not compact.
#   ''      name=value          -> name="value"          '"' / "'"  name="value" -> name="value"
#   '{'     name={value}        -> name={value}          'bare'     name         -> name=""
#   'bool'  name.               -> name="name"           '!' + kind: the same, written `!name...`;
#                                                        '!bare' (`!name`, no value at all) is not output
ATTR_KINDS = ['', '"', "'", '{', 'bare', 'bool', '!', '!"', "!'", '!{', '!bare']
ATTR_CLOSE = {'': '', '"': '"', "'": "'", '{': '}'}


def render_attr(name, value, kind):
    n = render_tpl(name)
    if kind.startswith('!'):
        n = '!' + n
        kind = kind[1:]
    if kind == 'bare':
        return n
    if kind == 'bool':
        return n + '.'
    return '%s=%s%s%s' % (n, kind, render_tpl(value), ATTR_CLOSE[kind])


def expected_attr(name, value, kind, env):
    """-> (output attribute name, value as parse_markup reports it) or None when the attribute is not output."""
    n = subst_tpl(name, env)
    k = kind[1:] if kind.startswith('!') else kind
    if k == 'bare':
        return None if kind.startswith('!') else (n, '')
    if k == 'bool':
        return (n, n)
    v = subst_tpl(value, env)
    return (n, '{' + v + '}' if k == '{' else v)


def _render(nodes):
    """-> (text, how many levels below the level of `nodes` the text ends)."""
    out = []
    depth = 0
    for k, n in enumerate(nodes):
        last = k == len(nodes) - 1
        depth = 0
        if isinstance(n, Group):
            s = '(' + _render(n.items)[0] + ')' + render_repeat(n.repeat)
        else:
            s = render_el(n)
            if n.kids:
                sub, d = _render(n.kids)
                s += '>' + sub
                depth = d + 1
        if not last:
            if depth and s.endswith('@'):
                # `$@^` would be read as the parent modifier: close the level with a plain group instead
                s = '(' + s + ')+'
            else:
                s += '^' * depth if depth else '+'
        out.append(s)
    return ''.join(out), depth


def render(nodes):
    """Siblings joined by `+`, children after `>`, and as many `^` as needed to come back to the
    level of the next sibling."""
    return _render(nodes)[0]


# ---------------------------------------------------------------- the property oracle
class Budget:
    def __init__(self, limit):
        self.limit = limit          # None = unlimited
        self.completed = 0

    def copy_completed(self):
        """True when the repeater that just completed a copy must stop."""
        self.completed += 1
        return self.limit is not None and self.completed >= self.limit


def clean_lines(text):
    """Wrapped text given as a list of lines: blank lines do not count, lines are trimmed."""
    return [l.strip() for l in text if l.strip()]


def expected(nodes, limit=None, inline=(), text=None):
    """Forest [(name, attrs dict, text, kids)] the statement of C02 prescribes.
    text: None | one string | list of lines (config `text`, what `$#` stands for)."""
    budget = Budget(limit)
    lines = clean_lines(text) if isinstance(text, list) else None
    env = Env(None, None if lines is not None else (text or ''))
    return _unroll(nodes, env, None, budget, set(inline), lines), budget.completed


def _unroll(nodes, env, parent_name, budget, inline, lines=None):
    out = []
    for n in nodes:
        if n.repeat is None:
            out.extend(_once(n, env, parent_name, budget, inline, lines))
        else:
            if n.repeat == IMPLICIT:
                if lines is None:
                    raise ValueError('`*` without a count is only generated together with a list of lines')
                total = len(lines)
            else:
                total = n.repeat if n.repeat >= 1 else 1      # `*0`: one copy (as the code does it; outside the claim)
            for i in range(1, total + 1):
                sub = Env((i, total), lines[i - 1] if n.repeat == IMPLICIT else env.ph)
                out.extend(_once(n, sub, parent_name, budget, inline, lines))
                if budget.copy_completed():
                    break
    return out


def _once(n, env, parent_name, budget, inline, lines=None):
    if isinstance(n, Group):
        return _unroll(n.items, env, parent_name, budget, inline, lines)
    if n.name:
        name = subst_tpl(n.name, env)
    else:
        p = (parent_name or '').lower()
        name = IMPLICIT_DOC.get(p) or ('span' if p in inline else 'div')
    attrs = {}
    if n.id is not None:
        attrs['id'] = subst_tpl(n.id, env)
    if n.classes:
        attrs['class'] = ' '.join(subst_tpl(c, env) for c in n.classes)
    for an, av, kind in n.attrs:
        kv = expected_attr(an, av, kind, env)
        if kv is not None:
            attrs[kv[0]] = kv[1]
    text = subst_tpl(n.text, env) if n.text is not None else ''
    kids = _unroll(n.kids, env, name, budget, inline, lines)
    return [(name, attrs, text, kids)]


def count_nodes(forest):
    return sum(1 + count_nodes(k) for _, _, _, k in forest)


def names_of(forest):
    for name, _, _, kids in forest:
        yield name
        yield from names_of(kids)


# ---------------------------------------------------------------- observer of the output
# a value is "..." | '...' | {...} (an expression, reported WITH its braces: `t={x1}` is not `t="x1"`) | bare word
TAG_RE = re.compile(r'<(/?)([^\s<>/"\'=]+)((?:\s+[^\s<>/"\'=]+(?:=(?:"[^"]*"|\'[^\']*\'|\{[^{}<>]*\}|[^\s<>"\']+))?)*)\s*(/?)>', re.S)
ATTR_RE = re.compile(r'([^\s<>/"\'=]+)(?:=(?:"([^"]*)"|\'([^\']*)\'|(\{[^{}<>]*\}|[^\s<>"\']+)))?', re.S)


def parse_markup(out):
    """HTML/XML string -> forest [(name, attrs, text, kids)] or raises ValueError."""
    root = ('', {}, [], [])
    stack = [root]
    pos = 0
    for m in TAG_RE.finditer(out):
        txt = out[pos:m.start()].strip()
        if '<' in txt or '>' in txt:
            raise ValueError('stray angle bracket in %r' % txt)
        if txt:
            stack[-1][2].append(txt)
        pos = m.end()
        close, name, attrs, selfc = m.group(1), m.group(2), m.group(3), m.group(4)
        if close:
            if len(stack) < 2 or stack[-1][0] != name:
                raise ValueError('close tag %r does not match' % name)
            stack.pop()
        else:
            ad = {}
            for am in ATTR_RE.finditer(attrs):
                v = am.group(2)
                if v is None:
                    v = am.group(3)
                if v is None:
                    v = am.group(4)
                ad[am.group(1)] = v
            node = (name, ad, [], [])
            stack[-1][3].append(node)
            if not selfc:
                stack.append(node)
    txt = out[pos:].strip()
    if '<' in txt or '>' in txt:
        raise ValueError('stray angle bracket in %r' % txt)
    if txt:
        stack[-1][2].append(txt)
    if len(stack) != 1:
        raise ValueError('unclosed tag %r' % stack[-1][0])
    if root[2]:
        raise ValueError('top-level text %r' % root[2])

    def freeze(n):
        return (n[0], n[1], ''.join(n[2]), [freeze(k) for k in n[3]])
    return [freeze(k) for k in root[3]]


def first_diff(exp, got, path=''):
    """Human-readable first difference between two forests, or None."""
    for k in range(max(len(exp), len(got))):
        here = '%s/%d' % (path, k)
        if k >= len(got):
            return '%s: expected %d sibling(s) here, output has %d (missing <%s>)' % (path or '/', len(exp), len(got), exp[k][0])
        if k >= len(exp):
            return '%s: expected %d sibling(s) here, output has %d (extra <%s>)' % (path or '/', len(exp), len(got), got[k][0])
        e, g = exp[k], got[k]
        if e[0] != g[0]:
            return '%s: element name %r expected, %r in output' % (here, e[0], g[0])
        if e[1] != g[1]:
            return '%s <%s>: attributes %r expected, %r in output' % (here, e[0], e[1], g[1])
        if e[2] != g[2]:
            return '%s <%s>: text %r expected, %r in output' % (here, e[0], e[2], g[2])
        d = first_diff(e[3], g[3], here)
        if d:
            return d
    return None


# ---------------------------------------------------------------- generation
LETTERS = 'abcdefghkmnpqrstuvwxyz'
SIZES = [1, 1, 1, 2, 3, 3, 4, 6]
BASES = [None, None, None, 0, 1, 2, 3, 5, 9, 10, 42, 99, 100, 998]


def all_forms(sizes=(1, 2, 3, 5), bases=(None, 0, 1, 3, 10, 99, 1000)):
    """Every numbering form: widths x (plain | @ | @M | @- | @-M)."""
    out = []
    for size in sizes:
        out.append(Num(size))
        out.append(Num(size, at=True))
        for rev in (False, True):
            for b in bases:
                if b is None and not rev:
                    continue
                out.append(Num(size, rev, b))
    return out


def rand_num(rng):
    r = rng.random()
    size = rng.choice(SIZES)
    if r < 0.35:
        return Num(size)
    if r < 0.42:
        return Num(size, at=True)
    if r < 0.62:
        return Num(size, False, rng.choice(BASES[3:]))
    if r < 0.78:
        return Num(size, True, None)
    return Num(size, True, rng.choice(BASES[3:]))


def rand_word(rng, lo=1, hi=3, alphabet=LETTERS):
    return ''.join(rng.choice(alphabet) for _ in range(rng.randint(lo, hi)))


def rand_tpl(rng, head, p_num, inner_space=False, p_ph=0.0):
    """Template starting with the literal `head`; every literal that follows a numbering token starts
    with a letter (so that it cannot be read as part of the `@...` modifier); two numbering tokens are
    adjacent only when the first one carries an `@` part (otherwise the `$` runs would merge; likewise
    `$` + `$#` would be read as `$$` + `#`).  With p_ph > 0 some of the parts are `$#` placeholders,
    before, between and after the numbering tokens."""
    tpl = [head]
    k = 0
    while rng.random() < (max(p_num, p_ph) if p_ph else p_num) and k < 3:
        n = PH if p_ph and rng.random() < p_ph else rand_num(rng)
        prev_is_num = not isinstance(tpl[-1], str)
        if prev_is_num and not tpl[-1].at:
            tpl.append(rand_word(rng, 1, 2))
        tpl.append(n)
        if rng.random() < 0.4:
            w = rand_word(rng, 1, 2)
            if inner_space and rng.random() < 0.3:
                w = w + ' ' + rand_word(rng, 1, 2)
            tpl.append(w)
        k += 1
        p_num *= 0.6
    return tpl


RICH_KINDS = ['', '"', "'", '{', '{', '{', 'bare', 'bool', '!', '!"', "!'", '!{', '!bare']
EXPR_HEADS = ['v', 'go', 'this.on', 'f("a", ', 'x.y ', "s 'q' ", '']


def decorate(rng, el, p_num=0.5, p_ph=0.0, rich=False):
    """Attach id/classes/attributes/text with numbering to an element.  rich: attribute values of every
    kind of ATTR_KINDS (expressions, empty and missing values, boolean and implied attributes), up to
    three attributes; p_ph: `$#` placeholders in classes, attribute values and text."""
    if rng.random() < 0.25:
        el.id = rand_tpl(rng, 'i' + rand_word(rng, 0, 1), p_num)
    for _ in range(rng.choice([0, 0, 1, 1, 2])):
        el.classes.append(rand_tpl(rng, 'c' + rand_word(rng, 0, 1), p_num, p_ph=p_ph * 0.5))
    used = set()
    for _ in range(rng.choice([0, 0, 1, 2, 3] if rich else [0, 0, 0, 1, 2])):
        an = 't' + rand_word(rng, 1, 2)
        if an in used or an in ('id', 'class'):
            continue
        used.add(an)
        q = rng.choice(RICH_KINDS) if rich else rng.choice(['', '"', "'"])
        name_tpl = [an] if rng.random() < 0.8 else [an, rand_num(rng)]
        kq = q.lstrip('!')
        if kq in ('bare', 'bool'):
            val = []
        elif rich and kq in ('"', "'", '{') and rng.random() < 0.15:
            val = []                    # written explicitly empty: "" '' {}
        elif kq == '{':
            head = rng.choice(EXPR_HEADS)
            val = rand_tpl(rng, head or 'e', max(p_num, 0.6), inner_space=True, p_ph=p_ph)
            if head == '':
                val = val[1:] or [rand_num(rng)]        # the expression starts with the `$` run / `$#`
            if head.endswith('('):
                val.append(')')
        else:
            val = rand_tpl(rng, 'v' + rand_word(rng, 0, 1), p_num, inner_space=bool(kq), p_ph=p_ph)
        el.attrs.append((name_tpl, val, q))
    if rng.random() < 0.35:
        el.text = rand_tpl(rng, 'T' + rand_word(rng, 0, 2), p_num, inner_space=True, p_ph=p_ph)


def fix_el(el):
    """`$#` is the repeater placeholder: a name ending in a bare `$` run directly followed by `#id`
    is written with an explicit `@` (`a$@#i`)."""
    if el.name and el.id is not None and not isinstance(el.name[-1], str) and not el.name[-1].at:
        el.name[-1].at = True


def rand_forest(rng, names, budget, depth=0, max_depth=5, rep_max=6, p_num=0.5, top=True, p_ph=0.0, rich=False):
    """Random sibling list with about `budget` written elements; groups and elements may carry *N."""
    out = []
    n = max(1, budget)
    i = 0
    while i < n:
        rep = rng.choice([None, None, 1, 2, 2, 3, rng.randint(1, rep_max)])
        if depth < max_depth and n - i >= 1 and rng.random() < 0.3:
            g = rng.randint(1, max(1, min(4, n - i)))
            out.append(Group(rand_forest(rng, names, g, depth + 1, max_depth, rep_max, p_num, False, p_ph, rich), repeat=rep))
            i += g
        else:
            nm = rng.choice(names)
            name = rand_tpl(rng, nm, p_num * 0.6) if rng.random() < 0.9 else None
            el = El(name=name, repeat=rep)
            decorate(rng, el, p_num, p_ph, rich)
            fix_el(el)
            if el.name is None and not (el.classes or el.id is not None or el.attrs):
                el.classes.append(['k'])
            i += 1
            if depth < max_depth and i < n and rng.random() < 0.5:
                k = rng.randint(1, n - i)
                el.kids = rand_forest(rng, names, k, depth + 1, max_depth, rep_max, p_num, False, p_ph, rich)
                i += k
            out.append(el)
    return out


def total_repeat_copies(nodes, text=None):
    """Number of copies all repeaters complete when there is no limit (counted without building the forest:
    a unit written *R completes R copies, and within each of them everything below it once more)."""
    lines = len(clean_lines(text)) if isinstance(text, list) else None

    def count(ns):
        t = 0
        for n in ns:
            sub = count(n.items if isinstance(n, Group) else n.kids)
            if n.repeat is None:
                t += sub
            else:
                r = lines if n.repeat == IMPLICIT else max(n.repeat, 1)
                t += r * (sub + 1)
        return t
    return count(nodes)


def max_depth_of(nodes):
    d = 0
    for n in nodes:
        sub = n.items if isinstance(n, Group) else n.kids
        d = max(d, 1 + max_depth_of(sub))
    return d


# ---------------------------------------------------------------- placeholders and line repeaters
def el_has_ph(el):
    return any(has_ph(c) for c in el.classes) or any(has_ph(v) for _, v, _ in el.attrs) or has_ph(el.text)


def forest_has_ph(nodes):
    for n in nodes:
        if isinstance(n, Group):
            if forest_has_ph(n.items):
                return True
        elif el_has_ph(n) or forest_has_ph(n.kids):
            return True
    return False


def make_line_repeaters(rng, nodes):
    """For a text given as a list of lines: every element that writes a `$#` gets an enclosing unit
    (itself, an ancestor element or an enclosing group, the nearer the likelier) turned into a line
    repeater `*`, so that every `$#` has a nearest line repeater.  -> number of units changed."""
    changed = [0]

    def walk(ns, path):
        for n in ns:
            here = path + [n]
            if isinstance(n, Group):
                walk(n.items, here)
                continue
            if el_has_ph(n) and not any(u.repeat == IMPLICIT for u in here):
                k = len(here) - 1
                while k > 0 and rng.random() < 0.4:
                    k -= 1
                here[k].repeat = IMPLICIT
                changed[0] += 1
            walk(n.kids, here)
    walk(nodes, [])
    return changed[0]


# ---------------------------------------------------------------- backslash escapes next to counters
# Documented fact (docs.emmet.io "Abbreviations syntax", item numbering: "to output `$` as is, escape it with a
# backslash"; upstream abbreviation tokenizer: a backslash takes the character after it literally, whatever it is,
# and is not output itself).  So `\$` is a dollar sign and not a counter, `\\` is ONE backslash and what follows it
# is read as if the backslash were any other character: in `\\$$` the `$$` is a `$` run of width 2.
class Esc:
    """An escaped character `\\c`: written backslash + c, stands for c in every copy.  It is not a counter; it
    stands next to counters and the statement's `$`-run rule must hold around it."""
    __slots__ = ('ch',)
    at = True                       # a numbering token may follow directly (`\\$$` = `$` then the counter)

    def __init__(self, ch):
        self.ch = ch

    def render(self):
        return '\\' + self.ch

    def value(self, counter):
        return self.ch

    def __repr__(self):
        return 'Esc(%r)' % self.ch


# Which characters are written escaped in which position: everything with a meaning to the abbreviation syntax
# (the backslash and the dollar first), digits and letters; left out only what the OBSERVER of the output
# (parse_markup) could not read back: angle brackets and quotes anywhere, braces inside an expression value, white
# space in text (stripped by the observer) and in names.
_ESC_COMMON = ['\\', '$', '\\', '$', '@', '-', '#', '.', '*', '+', '^', '(', ')', '[', ']', ':', ',', '!', '%', '7', '0', 'n', 'Z']
ESCAPABLE = {
    'name': ['\\', '$', '@', '-', '#', '.', '*', '+', ':', '7', 'n'],
    'attrname': ['\\', '$', '@', '-', '#', '7', 'n'],
    'id': _ESC_COMMON + ['{', '}'],
    'class': _ESC_COMMON + ['{', '}'],
    'text': _ESC_COMMON + ['{', '}', '/', '=', '|'],
    'unquoted': _ESC_COMMON + ['{', '}', ' ', '/', '=', '|'],
    'quoted': _ESC_COMMON + ['{', '}', ' ', '/', '=', '|'],
    'expression': _ESC_COMMON + [' ', '/', '=', '|'],
}


def esc_position_of_kind(kind):
    k = kind.lstrip('!')
    return {'': 'unquoted', '"': 'quoted', "'": 'quoted', '{': 'expression'}.get(k)


# Where the escape stands relative to the `$` run(s).  lit: a literal, c: the escaped character, f/f2: numbering tokens
ESC_PLACEMENTS = {
    'directly-before': lambda lit, c, f, f2: [lit, Esc(c), f],
    'directly-after': lambda lit, c, f, f2: [lit, f, Esc(c), 'w'],
    'between-two-runs': lambda lit, c, f, f2: [lit, f, Esc(c), f2],
    'escaped-backslash-then-escape-before': lambda lit, c, f, f2: [lit, Esc('\\'), Esc(c), f],
    'two-before': lambda lit, c, f, f2: [lit, Esc(c), Esc(c), f],
    'apart': lambda lit, c, f, f2: [lit, Esc(c), 'm', f, 'w', Esc(c)],
    'around': lambda lit, c, f, f2: [lit, Esc(c), f, Esc(c)],
    'escape-and-no-run': lambda lit, c, f, f2: [lit, Esc(c), 'w'],
}


def sprinkle_tpl(rng, tpl, chars, p=0.5, keep_head=True):
    """Insert escaped characters into a template: at the boundaries of its pieces (so that they come to stand
    directly before and directly after `$` runs and `$#`) and inside its literals.  keep_head: nothing before
    the first character (an element name / attribute name / unquoted value keeps its first letter)."""
    if not tpl:
        return tpl              # written explicitly empty stays empty
    out = []
    for k, p_ in enumerate(tpl):
        if isinstance(p_, str) and len(p_) > (1 if (k == 0 and keep_head) else 0) and rng.random() < p * 0.5:
            cut = rng.randint(1 if (k == 0 and keep_head) else 0, len(p_))
            out.extend([x for x in (p_[:cut], Esc(rng.choice(chars)), p_[cut:]) if x != ''])
        else:
            out.append(p_)
        here_is_tok = not isinstance(p_, str)
        next_is_tok = k + 1 < len(tpl) and not isinstance(tpl[k + 1], str)
        if (here_is_tok or next_is_tok) and rng.random() < p:
            out.append(Esc(rng.choice(chars)))
            if rng.random() < 0.3:
                out.append(Esc(rng.choice(chars)))
    return out


def sprinkle_escapes(rng, nodes, p=0.5):
    """Escaped characters in every template of a forest (names, ids, classes, attribute names and values of every
    kind that has a value, text).  -> number of templates changed."""
    changed = 0
    for n in nodes:
        if isinstance(n, Group):
            changed += sprinkle_escapes(rng, n.items, p)
            continue
        def go(tpl, pos, keep_head=True):
            nonlocal changed
            if tpl and rng.random() < p:
                new = sprinkle_tpl(rng, tpl, ESCAPABLE[pos], keep_head=keep_head)
                if len(new) != len(tpl):
                    changed += 1
                return new
            return tpl
        if n.name:
            n.name = go(n.name, 'name')
        if n.id is not None:
            n.id = go(n.id, 'id', False)
        n.classes = [go(c, 'class', False) for c in n.classes]
        attrs = []
        for an, av, kind in n.attrs:
            pos = esc_position_of_kind(kind)
            attrs.append((go(an, 'attrname'), go(av, pos, pos == 'unquoted') if pos else av, kind))
        n.attrs = attrs
        if n.text is not None:
            n.text = go(n.text, 'text', False)
        fix_el(n)
        changed += sprinkle_escapes(rng, n.kids, p)
    return changed


def tpl_has_esc(tpl):
    return any(isinstance(p, Esc) for p in (tpl or ()))


def el_has_esc(el):
    return tpl_has_esc(el.name) or tpl_has_esc(el.id) or any(tpl_has_esc(c) for c in el.classes) or \
        any(tpl_has_esc(a) or tpl_has_esc(v) for a, v, _ in el.attrs) or tpl_has_esc(el.text)
