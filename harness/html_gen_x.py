"""Extra document classes for C09 (used by harness/props/c09.py only).  Everything here extends the well-formed
generator of harness/html_gen.py (same record types Doc / Elem / Attr, same ground-truth queries); no emmet code
is consulted for the expectations.

Classes added (each is a whole family of inputs, drawn at random or swept completely):

  NAME x FORM      every kind of element name in every syntactic form.  html_gen writes the raw-text names
                   (script, style) only as pairs with a body and ordinary names as pairs / self-closed tags.
                   Here script/style also occur SELF-CLOSED (`<style />`, `<script src="a.js"/>`, with a
                   JavaScript type, with a markup type, with other attributes; SVG / XHTML / JSX write them so), a
                   self-closed element has no body, so the markup after it counts; and names that merely LOOK like
                   raw-text or void names (`scripts`, `x-style`, `Script`, `STYLE`, `noscript`, `image`, `BR`, `hr2`)
                   occur as ordinary paired / self-closed elements with element children.
  NAME ALPHABET    tag and attribute names over the whole XML name alphabet (NameStartChar / NameChar of
                   https://www.w3.org/TR/xml/#NT-Name, the specification emmet/html_matcher/utils.py cites; all
                   planes: CJK, Hangul, U+200C / U+200D, astral letters included).  The ranges are hard-coded below
                   from the XML recommendation (5th edition, productions [4] and [4a]), NOT read from the library.
                   Random names mix code points of all blocks in the ranges (letters, dependent vowel signs, tone
                   marks, digits of other scripts, unassigned code points: the grammar is by code point, not by
                   Unicode category), and `alphabet_sweep_docs` puts code points of the alphabet into a tag name and
                   an attribute name, at the first position (when the grammar allows it there) and at a later
                   position: EVERY code point up to U+218F, and of the long ranges above it (U+2C00.., CJK / Hangul,
                   U+F900.., U+FDF0.., the astral planes U+10000..U+EFFFF) the first and last 0x40 code points,
                   both neighbours of every 0x1000 border and of every plane border, and one code point per 0x100
                   block (`sweep_code_points`).
"""
import html_gen as hg
from html_gen import Attr, Doc, Elem, words

# ---------------------------------------------------------------- the XML name alphabet (W3C XML 1.0 5th ed., [4], [4a])
XML_NAME_START_RANGES = [
    (0x3A, 0x3A), (0x41, 0x5A), (0x5F, 0x5F), (0x61, 0x7A), (0xC0, 0xD6), (0xD8, 0xF6), (0xF8, 0x2FF),
    (0x370, 0x37D), (0x37F, 0x1FFF), (0x200C, 0x200D), (0x2070, 0x218F), (0x2C00, 0x2FEF), (0x3001, 0xD7FF),
    (0xF900, 0xFDCF), (0xFDF0, 0xFFFD), (0x10000, 0xEFFFF)]
XML_NAME_EXTRA_RANGES = [(0x2D, 0x2E), (0x30, 0x39), (0xB7, 0xB7), (0x300, 0x36F), (0x203F, 0x2040)]
# Up to py-emmet 280bebd^ the matcher cut the productions at U+1FFF ("Limited XML spec", inherited from the UTF-16
# code units of the JavaScript original): elements and attributes named with CJK, Hangul, U+200C / U+200D or astral
# letters were not recognised.  Repaired (known_findings.d/xmlnames.json); the switch stays for experiments with the
# old alphabet.
LIMIT = 0x1FFF
NAMES_BEYOND_LIMIT = True


def _clip(ranges, limit):
    return [(a, min(b, limit)) for a, b in ranges if a <= limit]


def name_start_ranges():
    return XML_NAME_START_RANGES if NAMES_BEYOND_LIMIT else _clip(XML_NAME_START_RANGES, LIMIT)


def name_extra_ranges():
    return XML_NAME_EXTRA_RANGES if NAMES_BEYOND_LIMIT else _clip(XML_NAME_EXTRA_RANGES, LIMIT)


def is_xml_name_start(cp):
    return any(a <= cp <= b for a, b in name_start_ranges())


def is_xml_name_char(cp):
    return is_xml_name_start(cp) or any(a <= cp <= b for a, b in name_extra_ranges())


def _blocks(ranges, size=0x80):
    """cut ranges into blocks of at most `size` code points, so that a uniform choice of a block and then of a code
    point inside it reaches every script of a long range equally often"""
    out = []
    for a, b in ranges:
        if b - a > 0x3000:
            # a long range (CJK + Hangul, the astral planes): its first and last blocks, the blocks at both sides of
            # every plane border inside it, and every 0x40th block in between
            keep = {a // size, b // size}
            for plane in range((a >> 16) + 1, (b >> 16) + 1):
                keep.update([(plane << 16) // size - 1, (plane << 16) // size])
            keep.update(range(a // size, b // size + 1, 0x40 if b <= 0xFFFF else 0x400))
            for k in sorted(keep):
                out.append((max(a, k * size), min(b, k * size + size - 1)))
            continue
        x = a
        while x <= b:
            y = min(b, (x // size) * size + size - 1)
            out.append((x, y))
            x = y + 1
    return out


def rand_name(rng, ascii_lead=0.3):
    """a random name over the alphabet: first character NameStartChar, the others NameChar; range borders are
    chosen often"""
    sb = _blocks(name_start_ranges())
    cb = sb + _blocks(name_extra_ranges())

    def pick(blocks):
        a, b = rng.choice(blocks)
        r = rng.random()
        return chr(a if r < 0.1 else b if r < 0.2 else rng.randint(a, b))
    n = rng.choice([1, 1, 2, 2, 3, 4, 6])
    first = rng.choice('abcXY_:') if rng.random() < ascii_lead else pick(sb)
    rest = [rng.choice('ab1-.') if rng.random() < 0.2 else pick(cb) for _ in range(n - 1)]
    return first + ''.join(rest)


# ---------------------------------------------------------------- names with a meaning and their look-alikes
SPECIAL_NAMES = ['script', 'style']          # raw-text elements of HTML (WHATWG HTML, 13.1.2 "raw text elements")
SPECIAL_LOOKALIKES = ['scripts', 'styles', 'x-script', 'style.x', 'svg:style', 'Script', 'STYLE', 'noscript', 'scrip',
                      'styl', 'script1', 'style_', 'Style']
VOID_LOOKALIKES = ['image', 'BR', 'Img', 'hr2', 'col-x', 'b', 'inputs', 'metas', 'links', 'a:br', 'br.x', 'wbr_', 'Link']
SRC_VALUES = ['"a.js"', "'x/y.js?a>b'", 'a.js', '"</script>"', '{url}', '""']


class XBuilder(hg._Builder):
    """html_gen._Builder with the two extra classes.  `names`: 'plain' (html_gen's names + look-alikes) or
    'alphabet' (random names over the whole name alphabet, for elements and attributes);
    `specials`: weight of the raw-text names in all their forms."""

    def __init__(self, rng, xml, max_nodes, max_depth, shape, names, specials):
        super().__init__(rng, xml, max_nodes, max_depth, shape)
        self.names = names
        self.specials = specials
        pool = []
        if names == 'alphabet':
            pool = [rand_name(rng) for _ in range(rng.randint(3, 12))]
            # a name is not allowed to collide with a name that has a meaning of its own
            pool = [n for n in pool if n not in hg.VOID and n not in SPECIAL_NAMES]
        self.pool = pool
        self.attr_pool = [rand_name(rng, 0.15) for _ in range(rng.randint(2, 8))] if names == 'alphabet' else []
        self.attr_pool = [n for n in self.attr_pool if n != 'type']     # `type` selects the raw-text rule of script

    # ---- names
    def elem_name(self, paired):
        rng = self.rng
        r = rng.random()
        if self.pool and r < 0.7:
            self.features.add('name-alphabet')
            return rng.choice(self.pool)
        if r < 0.85 or self.pool:
            return rng.choice(hg.NAMES + (hg.VOID[:4] if self.xml and paired else hg.VOID if self.xml else []))
        self.features.add('name-lookalike')
        return rng.choice(SPECIAL_LOOKALIKES + VOID_LOOKALIKES)

    def attribute(self, force_class=False):
        rng = self.rng
        if force_class or not self.attr_pool or rng.random() < 0.4:
            return super().attribute(force_class)
        # same value forms as html_gen, name from the alphabet pool
        name = rng.choice(self.attr_pool)
        self.features.add('attr-name-alphabet')
        ns = self.pos
        self.emit(name)
        ne = self.pos
        form = rng.choice(['dq', 'sq', 'unq', 'expr', 'none'])
        if form == 'none':
            self.features.add('attr-boolean')
            return Attr(name, ns, ne)
        self.emit('=')
        vs = self.pos
        if form in ('dq', 'sq'):
            q = '"' if form == 'dq' else "'"
            body = self.quoted_body("'" if form == 'dq' else '"')
            self.emit(q + body + q)
            inner = (vs + 1, vs + 1 + len(body))
            self.features.add('attr-quoted')
        elif form == 'unq':
            body = ''.join(rng.choice(hg.UCH) for _ in range(rng.randint(1, 6)))
            self.emit(body)
            inner = (vs, vs + len(body))
            self.features.add('attr-unquoted')
        else:
            body = self.expr_body()
            self.emit('{' + body + '}')
            inner = (vs + 1, vs + 1 + len(body))
            self.features.add('attr-expression')
        return Attr(name, ns, ne, True, vs, self.pos, inner)

    # ---- tree
    def special_spec(self):
        """attribute list of a raw-text name in a form without body"""
        rng = self.rng
        spec = []
        r = rng.random()
        if r < 0.3:
            pass
        elif r < 0.55:
            spec.append(self.raw_attr(rng.choice(['src', 'href', 'ref']), rng.choice(SRC_VALUES)))
        elif r < 0.75:
            q = rng.choice(['"', "'", ''])
            t = rng.choice(hg.JS_TYPES + ['text/css'] + ([''] if q else []))
            spec.append(self.raw_attr('type', q + (t if q else t.replace('/', '-')) + q))
        elif r < 0.9:
            q = rng.choice(['"', "'"])
            spec.append(self.raw_attr('type', q + rng.choice(hg.MARKUP_TYPES) + q))
        else:
            spec.append(lambda: self.attribute())
        if rng.random() < 0.3:
            spec.append(lambda: self.attribute())
            if rng.random() < 0.5:
                spec.reverse()
        return spec

    def element(self, depth, parent):
        rng = self.rng
        r = rng.random()
        s = self.specials
        if r < s:
            # a raw-text name written as a self-closed tag: an element without body
            self.budget -= 1
            name = rng.choice(SPECIAL_NAMES)
            rngs, attrs = self.open_tag(name, True, self.special_spec())
            e = Elem(name, 3, rngs, None, attrs)
            self.features.add('special-selfclosed')
            self.register(e, parent)
            return e
        if r < 2 * s:
            self.budget -= 1
            return self.special(depth, parent)
        r = rng.random()
        if r < 0.12 and not self.xml:
            return super().element(depth, parent)       # html_gen's own mix (void elements among them)
        self.budget -= 1
        if r < 0.3:
            name = self.elem_name(False)
            rngs, attrs = self.open_tag(name, True)
            e = Elem(name, 3, rngs, None, attrs)
            self.features.add('self-closed')
            self.register(e, parent)
            return e
        name = self.elem_name(True)
        if not self.xml and name in hg.VOID:
            name = 'div'
        rngs, attrs = self.open_tag(name, False)
        e = Elem(name, 1, rngs, None, attrs)
        self.register(e, parent)
        if depth < self.max_depth:
            self.children(depth + 1, e)
        else:
            self.text()
        cs = self.pos
        self.emit('</' + name + '>')
        e.close = (cs, self.pos)
        self.events.append((name, 2, cs, self.pos))
        self.features.add('paired')
        return e


def _finish(b, xml, roots, extra_features):
    text = ''.join(b.buf)
    for e in b.elems:
        for a in e.attrs:
            if a.value is not None:
                a.value = text[a.vs:a.ve]
                a.tokens = words(text[a.inner[0]:a.inner[1]], a.inner[0])
    b.features.update(extra_features)
    b.features.add('xml' if xml else 'html')
    return Doc(text, xml, roots, b.elems, b.events, b.features)


def gen_document_x(rng, xml=False, names='plain', specials=0.12, max_nodes=30, max_depth=6):
    shape = rng.choice(['mixed', 'mixed', 'deep'])
    budget = rng.choice([2, 3, 4, 6, 8, 10, 14, 20, 30])
    if shape == 'deep':
        budget = max(budget, 6)
    b = XBuilder(rng, xml, min(budget, max_nodes), max_depth, shape, names, specials)
    if rng.random() < 0.2:
        b.non_element()
    roots = []
    for _ in range(rng.choice([1, 1, 1, 2, 3])):
        if b.budget <= 0:
            break
        roots.append(b.element(1, None))
        if rng.random() < 0.4:
            b.non_element()
    return _finish(b, xml, roots, ['shape-' + shape, 'class-names-' + names])


# ---------------------------------------------------------------- exhaustive sweep of the name alphabet
def sweep_code_points():
    """the code points of the alphabet that the sweep puts into names: every one of a range of at most 0x2000 code
    points; of a longer range the first and last 0x40, both neighbours of every multiple of 0x1000 (plane borders among
    them) and one per 0x100 block"""
    out = set()
    for a, b in name_start_ranges() + name_extra_ranges():
        if b - a <= 0x2000:
            out.update(range(a, b + 1))
            continue
        out.update(range(a, a + 0x40))
        out.update(range(b - 0x3F, b + 1))
        for x in range((a // 0x1000 + 1) * 0x1000, b, 0x1000):
            out.update([x - 1, x])
        out.update(range(a, b + 1, 0x100 if b <= 0xFFFF else 0x1000))
    return sorted(out)


def alphabet_code_points():
    return sweep_code_points()


def alphabet_sweep_docs(per_doc=4):
    """Documents `<r><N A=1 B>t</N>...</r>`: every code point c of the alphabet occurs in one tag name N and in two
    attribute names, at the first position when c is a NameStartChar (N = c 'z' c) and after an ASCII letter
    otherwise (N = 'x' c 'z' c).  Returns [(doc, positions)]: the positions are one inside the open tag of every
    element, plus 0, 1 (inside the root's open tag) and the end; the scan events cover the whole document."""
    cps = alphabet_code_points()
    out = []
    for k in range(0, len(cps), per_doc):
        chunk = cps[k:k + per_doc]
        xml = (k // per_doc) % 2 == 1
        b = hg._Builder(None, xml, 0, 0, 'sweep')
        positions = [0, 1]
        b.emit('<r>')
        root = Elem('r', 1, (0, 3), None, [])
        b.register(root, None)
        for cp in chunk:
            c = chr(cp)
            lead = '' if is_xml_name_start(cp) else 'x'
            name = lead + c + 'z' + c
            start = b.pos
            b.emit('<' + name + ' ')
            attrs = []
            ns = b.pos
            an = lead + c + c
            b.emit(an)
            b.emit('=')
            attrs.append(Attr(an, ns, ns + len(an), '1', b.pos, b.pos + 1, (b.pos, b.pos + 1), [(b.pos, b.pos + 1)]))
            b.emit('1 ')
            ns = b.pos
            an = lead + c
            b.emit(an)
            attrs.append(Attr(an, ns, b.pos))
            b.emit('>')
            e = Elem(name, 1, (start, b.pos), None, attrs)
            b.register(e, root)
            positions.append(start + 1)
            b.emit('t')
            cs = b.pos
            b.emit('</' + name + '>')
            e.close = (cs, b.pos)
            b.events.append((name, 2, cs, b.pos))
        cs = b.pos
        b.emit('</r>')
        root.close = (cs, b.pos)
        b.events.append(('r', 2, cs, b.pos))
        positions.append(b.pos)
        b.features.add('alphabet-sweep')
        out.append((_finish(b, xml, [root], []), positions))
    return out


# ---------------------------------------------------------------- value forms: missing values and backslashes
# Two more classes of attribute syntax (both: whole families, drawn at random in every element kind and position):
#
#   VALUE x PRESENCE   an attribute is written `name`, `name=value` or -- the form html_gen never writes -- `name=`
#                      with NOTHING after the equals sign: `=` directly before `>`, before ` />` / `/>`, before white
#                      space followed by the next attribute or by the end of the tag (half-typed `<a href=>`,
#                      `<input value= class="c">`, `<img src= />`; also after bracketed / directive names:
#                      `[prop]=`, `*ngIf=`).  Such an attribute HAS NO VALUE: the record carries the name range only,
#                      and the tag ends where it would end without the `=`.  The explicitly written empty values `""`,
#                      `''`, `{}` are values (ranges of length 2) and are drawn more often here as well.
#   BACKSLASH          backslashes in every place of a tag where they may stand.  Inside a paired token -- an
#                      expression value `{...}` or a bracketed name `[...]`, `(...)`, `{...}` -- a backslash takes the
#                      next character out of the pairing (JavaScript: regular-expression literals `{/\}>/}`, escaped
#                      quotes and braces in strings and template text), so `\}` `\]` `\)` do not close, `\{` `\[` `\(`
#                      do not open, `\"` `\'` do not start a string, and `\\` is a backslash that escapes nothing
#                      (`{a\\}` ends at that brace).  Inside a quoted string of an expression a backslash escapes the
#                      next character too (`{"a\"}"}`).  An unquoted value may contain backslashes anywhere; they mean
#                      nothing there (`a=x\y`, `b=\`).  Quoted values (HTML knows no escapes in them) get backslashes
#                      only where JavaScript-style and HTML-style reading agree: before a character that is neither
#                      the quote nor a backslash, and doubled (`"C:\\dir\\"`, `"a\b"`).
ESC_PLAIN = list('abxy01 ') + ['>', '<', '=', '/', ' => ', '.', '<b>', '/>', '</a>', '>>']
ESC_ANY = ['\\n', '\\d', '\\/', '\\>', '\\<', '\\ ', '\\\\', '\\"', "\\'", '\\=']
PAIRS = {'{': '}', '[': ']', '(': ')'}


class YBuilder(XBuilder):
    """XBuilder plus the classes VALUE x PRESENCE and BACKSLASH.  `p_new`: share of attributes written in one of the
    new forms."""

    def __init__(self, rng, xml, max_nodes, max_depth, shape, names, specials, p_new=0.5):
        super().__init__(rng, xml, max_nodes, max_depth, shape, names, specials)
        self.p_new = p_new
        self.after_bare_eq = False

    # ---- pieces
    def esc_pair_body(self, op, depth=0):
        """text between `op` and its closing character: every unescaped `op` / closer inside is balanced, quotes are
        balanced unless escaped, every backslash is followed by the character it escapes"""
        rng = self.rng
        cl = PAIRS[op]
        others = [c for c in '{}[]()' if c not in (op, cl)]
        parts = []
        for _ in range(rng.choice([1, 1, 2, 3, 4, 6])):
            r = rng.random()
            if r < 0.3:
                parts.append('\\' + rng.choice([cl, cl, cl, op]))
                self.features.add('escape-pair-delimiter')
            elif r < 0.45:
                parts.append(rng.choice(ESC_ANY))
            elif r < 0.55 and depth < 2:
                parts.append(op + self.esc_pair_body(op, depth + 1) + cl)
            elif r < 0.68:
                q = rng.choice('"\'')
                inner = ''.join(rng.choice(['a', ' ', '>', cl, op, '/>', '\\' + q, '\\\\', '\\' + cl, '\\n'])
                                for _ in range(rng.randint(0, 4)))
                if '\\' in inner:
                    self.features.add('escape-in-expression-string')
                parts.append(q + inner + q)
            elif r < 0.75:
                # a regular-expression literal as JSX writes it
                parts.append('/' + rng.choice(['\\' + cl + '>', '[^\\' + cl + ']+\\' + op, '\\' + cl, 'a\\' + cl + 'b>', '\\\\'])
                             + '/' + rng.choice(['', 'g', '.test(x)']))
                self.features.add('escape-pair-delimiter')
            elif r < 0.8:
                parts.append(rng.choice(others))
            else:
                parts.append(rng.choice(ESC_PLAIN))
        s = ''.join(parts)
        if '>' in s:
            self.features.add('attr-value-with->')
        return s

    def attr_name_y(self):
        rng = self.rng
        r = rng.random()
        if r < 0.3:
            op = rng.choice('[[({')
            body = self.esc_pair_body(op)
            if op == '{':
                body = '...' + body
            self.features.add('attr-name-paired-with-escape')
            return op + body + PAIRS[op]
        if r < 0.45:
            self.features.add('attr-name-fancy')
            return rng.choice(hg.FANCY_NAMES)
        if self.attr_pool and r < 0.7:
            return rng.choice(self.attr_pool)
        return rng.choice(hg.ATTR_NAMES)

    def attribute(self, force_class=False):
        rng = self.rng
        self.after_bare_eq = False
        if force_class or rng.random() >= self.p_new:
            return super().attribute(force_class)
        name = self.attr_name_y()
        ns = self.pos
        self.emit(name)
        ne = self.pos
        form = rng.choice(['bare-eq', 'bare-eq', 'esc-expr', 'esc-expr', 'esc-unq', 'esc-quoted', 'empty', 'none'])
        if name.startswith('{') and form != 'none' and rng.random() < 0.7:
            form = 'none'
        if form == 'none':
            self.features.add('attr-boolean')
            return Attr(name, ns, ne)
        self.emit('=')
        if form == 'bare-eq':
            # nothing after `=`: the caller writes white space, `>` or `/>` next
            self.features.add('attr-equals-without-value')
            self.after_bare_eq = True
            return Attr(name, ns, ne)
        vs = self.pos
        if form == 'esc-expr':
            body = self.esc_pair_body('{')
            self.emit('{' + body + '}')
            inner = (vs + 1, vs + 1 + len(body))
            self.features.add('attr-expression')
            if '\\' in body:
                self.features.add('attr-expression-with-backslash')
        elif form == 'esc-unq':
            n = rng.randint(1, 5)
            k = rng.randrange(n)
            body = ''.join('\\' if i == k or rng.random() < 0.2 else rng.choice(hg.UCH) for i in range(n))
            self.emit(body)
            inner = (vs, vs + len(body))
            self.features.add('attr-unquoted-with-backslash')
        elif form == 'esc-quoted':
            q = rng.choice('"\'')
            other = "'" if q == '"' else '"'
            parts = []
            for _ in range(rng.randint(1, 4)):
                r = rng.random()
                parts.append('\\\\' if r < 0.35 else '\\' + rng.choice(['n', 'b', '>', ' ', other, '}', '/']) if r < 0.7
                             else rng.choice(hg.QCH + [other]))
            body = ''.join(parts)
            self.emit(q + body + q)
            inner = (vs + 1, vs + 1 + len(body))
            self.features.add('attr-quoted-with-backslash')
        else:
            lit = rng.choice(['""', "''", '{}'])
            self.emit(lit)
            inner = (vs + 1, vs + 1)
            self.features.add('attr-empty-value-written')
        return Attr(name, ns, ne, True, vs, self.pos, inner)

    def open_tag(self, name, self_close, attrs_spec=None):
        rng = self.rng
        if attrs_spec is not None:
            return super().open_tag(name, self_close, attrs_spec)
        start = self.pos
        self.emit('<' + name)
        attrs = []
        for _ in range(rng.choice([0, 0, 1, 1, 1, 2, 3, 5])):
            self.emit(rng.choice(hg.WS))
            attrs.append(self.attribute(force_class=rng.random() < 0.08))
        if self_close:
            self.emit(rng.choice(['/', ' /', '\n/', ' /']))
        else:
            self.emit(rng.choice(['', '', '', ' ', '\n']))
        self.emit('>')
        if self.after_bare_eq:
            self.features.add('equals-before-tag-end')
        self.after_bare_eq = False
        return (start, self.pos), attrs


def gen_document_y(rng, xml=False, names='plain', max_nodes=14, max_depth=5, p_new=0.5):
    """random tree whose attributes use the forms of VALUE x PRESENCE and BACKSLASH next to html_gen's forms"""
    shape = rng.choice(['mixed', 'mixed', 'deep'])
    budget = rng.choice([1, 2, 3, 4, 6, 8, 10, 14])
    if shape == 'deep':
        budget = max(budget, 4)
    b = YBuilder(rng, xml, min(budget, max_nodes), max_depth, shape, names, 0.04, p_new)
    if rng.random() < 0.2:
        b.non_element()
    roots = []
    for _ in range(rng.choice([1, 1, 1, 2, 3])):
        if b.budget <= 0:
            break
        roots.append(b.element(1, None))
        if rng.random() < 0.4:
            b.non_element()
    return _finish(b, xml, roots, ['shape-' + shape, 'class-value-forms', 'class-names-' + names])
