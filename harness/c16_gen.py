"""Extra input classes of C16 (used by c16_html.py / c16_css.py only).

LETTERS AND CASE -- the statement quantifies over every string, and "carries its reported
name right after `<` or `</`" is a statement about the exact characters of the source.  The
classes here put upper / mixed case and letters with unusual case mappings into every
position where a name is read: open tags, close tags, special elements (script / style and
the short special names of the `ab` option set), void names, the `type` attribute and its
value, the `<![CDATA[` / doctype keywords; open and close tag written in DIFFERENT case.

SCALE -- "for every string" has no bound on size: documents whose nesting depth, stack of
unclosed tags, number of siblings / attributes / stray close tags or length of a single
token is in the thousands (beyond CPython's default recursion limit of 1000 and far beyond
the 400-character documents of the other streams), also cut off half way (half-typed file).
Positions are sampled there (both ends, the middle, the tag boundaries, a few random ones)
because one call is linear in the document.

Nothing here reads the library: names, the special / void lists etc. are written out.
"""
import itertools
import re

import html_gen

# ------------------------------------------------------------------ letters and case (HTML)
# letters whose case mapping changes the length or leaves the XML name alphabet
ODD_LETTERS = ['İ', 'ß', 'ſ', 'ǅ', 'ΐ', 'µ']   # İ ß ſ ǅ ΐ µ(not a name char)

CASE_SEEDS = [
    '<A></A>', '<A></a>', '<a></A>', '<Div><P></p></DIV>', '<DIV><p></P></div>x', '<BR>', '<Br/>', '<bR></Br>', '<IMG src=x>',
    '<p><IMG></p>', '<SCRIPT></SCRIPT>', '<SCRIPT></script>', '<script></SCRIPT>', '<script>a</Script>b', '<Script><b></script></Script>',
    '<script><b></SCRIPT><i></script>', '<style></STYLE>', '<style>a{}</Style></style>', '<STYLE><a></STYLE>', '<STYLE><a></style>',
    '<script TYPE="text/javascript"><b></script>', '<script type="TEXT/JAVASCRIPT"><b></script>', '<script Type=ts><b></SCRIPT></script>',
    '<script type="Text/Template"><b></b></SCRIPT></script>', '<script type="x"><B></b></script>', '<SCRIPT type="x"><b></b></SCRIPT>',
    '<![cdata[<a>]]><b>', '<![CDATA[<a>]]><B></B>', '<!DOCTYPE html><HTML></html>', '<!doctype HTML><html></HTML>', '<?XML ?><A/>',
    '<a HREF="x" Class=y></A>', '<AÉ></aé>', '<é></É>', '<É></É>', '<İ></i̇>', '<i̇></İ>', '<ß></SS>',
    '<ss></ß>', '<ſ></s>', '<s></ſ>', '<s></S>', '<K></K>', '<ǅ></ǆ>', '<script></ſcript>', '<ſcript></script>',
    '<style></ſtyle>', '<x-Foo></x-foo>', '<ns:Tag></NS:tag>', '<Comp.Sub></comp.sub>', '<a></A ></a>', '</A><a>', '<a><A></a></A>',
    '<SCRIPT', '<script></SCRIPT', '<script></SCRIP>', '<script></SCRIPTS>', '<script></ SCRIPT>', '<style></STYLE >',
]

# token alphabets for the exhaustive token-sequence stream: (option set, tokens)
CASE_TOKENS = [
    ('html', ['<script>', '<SCRIPT>', '</script>', '</SCRIPT>', '</Script>', '<style>', '</STYLE>', '<Br>', 'x']),
    ('ab', ['<a>', '<A>', '</a>', '</A>', '<b>', '</B>', '</aB>', '<b TYPE=a>', 'x']),
]

CASE_FRAGS = ['<A>', '</A>', '<B>', '</B>', '<B', '<A ', '<AB>', '</Ab>', '<aB/>', '<SCRIPT>', '</SCRIPT>', '</Script>', '<Script>',
              '<STYLE>', '</STYLE>', '</Style>', '<Style>', '<BR>', '<Br/>', '</BR>', '<IMG ', 'TYPE=', 'Type="A"', 'type="A"', "TYPE='",
              '<script TYPE="x">', '<SCRIPT type="x">', '<![cdata[', '<![Cdata[', '<!DOCTYPE', '<!doctype', 'A=B', ' B=', '<É>',
              '</é>', '<İ>', '</i̇>', '<ß>', '</SS>', '<ſ>', 'A', 'B', 'S', 'ſ', 'İ', 'ß', 'K']
FRAGS = list(html_gen.FRAGS) + CASE_FRAGS
ALPHABET = list(html_gen.ALPHABET) + ['A', 'B']


def case_token_strings(tokens, max_tokens):
    """all concatenations of 1..max_tokens tokens"""
    for n in range(1, max_tokens + 1):
        for tup in itertools.product(tokens, repeat=n):
            yield ''.join(tup)


def gen_malformed(rng, max_len=40):
    """html_gen.gen_malformed over the alphabets extended with upper case / odd letters"""
    r = rng.random()
    if r < 0.4:
        return ''.join(rng.choice(ALPHABET) for _ in range(rng.randint(1, max_len)))
    return ''.join(rng.choice(FRAGS) for _ in range(rng.randint(1, max(2, max_len // 3))))


_TAG_NAME = re.compile(r'</?([A-Za-z][A-Za-z0-9]*)')
_LETTERS = re.compile(r'[A-Za-z]+')


def _flip_one(rng, w):
    i = rng.randrange(len(w))
    return w[:i] + w[i].swapcase() + w[i + 1:]


def case_mutate(rng, text):
    """change the letter case of 1..4 names of the text in place (length preserved): mostly names of open / close
    tags, sometimes any run of ASCII letters (attribute names, `type` values, keywords, text)"""
    for _ in range(rng.choice([1, 1, 2, 3, 4])):
        if rng.random() < 0.75:
            ms = [m.span(1) for m in _TAG_NAME.finditer(text)]
        else:
            ms = [m.span() for m in _LETTERS.finditer(text)]
        if not ms:
            return text
        a, b = rng.choice(ms)
        w = text[a:b]
        f = rng.choice(['upper', 'upper', 'lower', 'swap', 'cap', 'one'])
        w2 = {'upper': w.upper(), 'lower': w.lower(), 'swap': w.swapcase(), 'cap': w.capitalize(), 'one': _flip_one(rng, w)}[f]
        if len(w2) == len(w):
            text = text[:a] + w2 + text[b:]
    return text


# ------------------------------------------------------------------ scale (HTML)
SCALE_NAMES = ['b', 'div', 'p', 'x-foo', 'A', 'é', 'ns:tag', 'li']
SCALE_ATTRS = ['', '', ' class="c"', ' id=i data-x', " title='>'", '\n  class="a b"\n  href="#"', ' {...p}', ' [x]="y"']


def sample_positions(rng, s, extra=()):
    """both ends (also out of range), the middle, the end of the first and the start of the last tag, given extras,
    three random positions"""
    n = len(s)
    ps = {-1, 0, 1, 2, n - 2, n - 1, n, n + 1, n // 2}
    i = s.find('>')
    if i >= 0:
        ps.update((i, i + 1))
    j = s.rfind('<')
    if j >= 0:
        ps.update((j, j + 1))
    ps.update(extra)
    for _ in range(3):
        ps.add(rng.randrange(-1, n + 2))
    return sorted(p for p in ps if -1 <= p <= n + 1)


def scale_documents(rng, quick):
    """[(string, option-set name, label, positions)]; every family is drawn with a size beyond 1000"""
    sizes = [1100, 1500, 2100] if quick else [1100, 1500, 2100, 5000]
    out = []

    def size():
        return rng.choice(sizes) + rng.randrange(0, 50)

    def nm():
        return rng.choice(SCALE_NAMES)

    def at():
        return rng.choice(SCALE_ATTRS)

    def add(s, label, on=None, extra=()):
        out.append((s, on or rng.choice(['html', 'html', 'xml', 'nospecial']), 'scale:' + label, sample_positions(rng, s, extra)))

    leaf = lambda: rng.choice(['', 'x', '<br>', '<i/>', '<img src="a">t', '<!-- c -->', '<u>t</u>'])
    reps = 1 if quick else 2
    for _ in range(reps):
        # nested chain: every element is the first child of its parent
        d, n, a = size(), nm(), at()
        add(''.join('<%s%s>' % (n, a if i % 8 == 0 else '') for i in range(d)) + leaf() + ('</%s>' % n) * d, 'nested-chain')
        # the same with two alternating names, text before the child and a sibling after it
        d, n, m = size(), nm(), nm()
        add(''.join('<%s>t' % (n if i % 2 else m) for i in range(d)) + leaf()
            + ''.join('</%s><i/>' % (n if i % 2 else m) for i in reversed(range(d))), 'nested-chain-with-siblings')
        # half-typed: chain cut off (stack of unclosed tags), partly closed, closed in the wrong order
        d, n, a = size(), nm(), at()
        add(''.join('<%s%s>' % (n, a if i % 8 == 0 else '') for i in range(d)) + leaf(), 'unclosed-chain')
        d, n = size(), nm()
        k = rng.randrange(1, d)
        add(('<%s>' % n) * d + leaf() + ('</%s>' % n) * k, 'partly-closed-chain')
        d, n, m = size() // 2, nm(), nm()
        add(('<%s><%s>' % (n, m)) * d + 'x' + ('</%s></%s>' % (n, m)) * d, 'misnested-chain')
        # stray close tags before / after a small document
        d, n = size(), nm()
        add(('</%s>' % n) * d + '<%s><p>x</p></%s>' % (n, n) + ('</%s>' % n) * d, 'stray-closes')
        # wide: many siblings (paired, void, self-closed) under one root
        d, n = size(), nm()
        add('<ul>' + ''.join('<%s%s>%d</%s>' % (n, at() if i % 97 == 0 else '', i, n) for i in range(d)) + '</ul>', 'many-siblings')
        d = size()
        add('<p>' + ''.join(rng.choice(['<br>', '<hr/>', '<i/>', 't']) for _ in range(d)) + '</p>', 'many-void-siblings', 'html')
        # one tag with very many attributes / one very long value / a long run of white space
        d, n = size(), nm()
        body = ''.join(rng.choice([' a%d="%d"', ' b%d=%d', " c%d='%d'", ' d%d', ' [e%d]={%d}', '\n\t*f%d']).replace('%d', str(i))
                       for i in range(d))
        add('<%s%s>x</%s>' % (n, body, n), 'many-attributes')
        d = size()
        add('<a href="%s" title=%s>%s</a>' % ('u/' * d, 'v' * d, ' ' * d), 'long-values-and-text')
        # balanced brackets nested deeper than 1000 inside an attribute (value and Angular/React-style name)
        d = size()
        add('<a b={%s%s} %s%s>x</a>' % ('{' * d, '}' * d, '[(' * (d // 2), ')]' * (d // 2)), 'deep-brackets')
        # long sections: comment, CDATA, processing instruction with quoted strings, quoted value with escapes
        d = size()
        add('<p><!--%s--><![CDATA[%s]]><?php %s?></p>' % ('<b>-' * d, ']<i>]' * d, '"?>" \'a\' ' * (d // 4)), 'long-sections')
        d = size()
        add('<p><!--%s' % ('<b> -' * d), 'unclosed-comment')
        # special elements with a long body full of near misses of the close tag, closed and unclosed
        d = size()
        sp = rng.choice(['script', 'style'])
        add('<%s>%s</%s><b>x</b>' % (sp, ('</%s </%s' % (sp[:-1], sp.upper())) * (d // 4), sp), 'long-special-body', 'html')
        add('<div><%s>%s' % (sp, '<b></b>' * (d // 2)), 'unclosed-special', 'html')
        # a generated valid document wrapped in a deep stack of elements, and the same cut off
        d, n = size(), nm()
        doc = html_gen.gen_document(rng, xml=False, max_nodes=12)
        s = ''.join('<%s class="l%d">' % (n, i) for i in range(d)) + doc.text[:400] + ('</%s>' % n) * d
        add(s, 'wrapped-document', 'html')
        cut = rng.randrange(len(s) // 2, len(s))
        add(s[:cut], 'wrapped-document-truncated', 'html', (cut - 1,))
    return out


# ------------------------------------------------------------------ scale (CSS)
def css_scale_sheets(rng, quick):
    """[(label, text)] stylesheets and values with depth / counts / token lengths beyond 1000"""
    sizes = [1100, 1500, 2100] if quick else [1100, 1500, 2100, 5000]
    out = []

    def size():
        return rng.choice(sizes) + rng.randrange(0, 50)

    sel = lambda: rng.choice(['a', '.b', 'ul > li', '&:hover', '@media (min-width: 1px)', 'a:not(.c)'])
    for _ in range(1 if quick else 2):
        d, s = size(), sel()
        out.append(('nested-rules', (s + '{') * d + 'c:d;' + '}' * d))
        d, s = size(), sel()
        out.append(('nested-rules-with-declarations', ''.join('%s{p%d:v;' % (s, i) for i in range(d)) + 'x: y' + ' }' * d))
        d = size()
        out.append(('unclosed-nesting', (sel() + '{') * d + 'c:d'))
        d = size()
        out.append(('stray-block-ends', '}' * d + 'a{b:c}' + '}' * d))
        d = size()
        out.append(('many-declarations', 'a{' + ''.join('p%d:%s;' % (i, rng.choice(['1px', '"s;"', 'f(x)', '#fff', 'a b'])) for i in range(d)) + '}'))
        d = size()
        out.append(('many-rules', ''.join('.c%d{x:%d}' % (i, i) for i in range(d))))
        d = size()
        out.append(('deep-parentheses', 'a{b:' + 'f(' * d + '1' + ')' * d + ';c:d}'))
        d = size()
        out.append(('unbalanced-parentheses', 'a{b:' + 'f(' * d + ';c:d}'))
        d = size()
        out.append(('long-tokens', 'a{/*%s*/b:"%s" %s}' % ('* /' * d, '\\"' * d, 'v' * d)))
        d = size()
        out.append(('unclosed-comment', 'a{b:c}/*' + '{;}' * d))
        d = size()
        out.append(('unclosed-string', 'a{b:"' + 'x\\' * d))
        d = size()
        out.append(('long-value-list', 'a{b:' + ', '.join('%dpx -%d' % (i, i) for i in range(d)) + '}'))
    return out


def css_scale_values(rng, quick):
    """values for split_value"""
    sizes = [1100, 2100] if quick else [1100, 2100, 5000]
    out = []
    for d in sizes:
        d += rng.randrange(0, 50)
        out.append(('f(' * d + '1' + ')' * d))
        out.append(('f(' * d + '1'))
        out.append(' '.join('%dpx' % i for i in range(d)))
        out.append(', '.join(rng.choice(['1px', '-2', '"a b"', 'f(1, 2)', '/* c */', '- 1', '+', '*']) for _ in range(d)))
        out.append('"' + '\\"' * d)
        out.append('/*' + '*' * d)
        out.append('1 -' * d)
    return out


# ------------------------------------------------------------------ option-sensitive documents (HTML call sequences)
# Documented facts written out here (nothing is read from the library): the default values of the matcher options
# `empty` and `special` as documented for Emmet's html-matcher (ScannerOptions: "empty -- list of elements that should
# be treated as empty (e.g. without closing tag) in non-XML syntax", "special -- tags that should not parse inner
# content and skip to closing tag ... value is either empty or list of `type` attribute values"): void elements img meta
# link br base hr area wbr col embed input param source track; style (always special), script (special when it has no
# `type` or a JavaScript-like one).  Same lists as html_gen.VOID / html_gen.JS_TYPES.
OPT_DEFAULT_VOID = ['img', 'meta', 'link', 'br', 'base', 'hr', 'area', 'wbr', 'col', 'embed', 'input', 'param', 'source', 'track']
OPT_DEFAULT_SPECIAL = ['style', 'script']
OPT_JS_TYPES = ['', 'text/javascript', 'application/x-javascript', 'javascript', 'typescript', 'ts', 'coffee', 'coffeescript']
OPT_ORDINARY = ['div', 'p', 'ul', 'li', 'span', 'x-foo']


def option_templates():
    """name -> function returning a FRESH options object (no part shared with an earlier result).  Every key of the
    options of match / balanced_outward / balanced_inward alone, together, written out with its default value,
    and no options object at all."""
    return {
        'none': lambda: None,
        'html': lambda: {},
        'xml': lambda: {'xml': True},
        'xml-off-explicit': lambda: {'xml': False},
        'defaults-explicit': lambda: {'xml': False, 'special': {'style': None, 'script': list(OPT_JS_TYPES)}, 'empty': list(OPT_DEFAULT_VOID)},
        'empty-custom': lambda: {'empty': ['item', 'b', 'x-foo']},
        'empty-none': lambda: {'empty': []},
        'special-custom': lambda: {'special': {'raw': None, 'a': ['', 'a']}},
        'nospecial': lambda: {'special': {}},
        'ab': lambda: {'special': {'a': None, 'b': ['', 'a']}, 'empty': ['b', 'ab']},
        'ab-xml': lambda: {'xml': True, 'special': {'b': ['a', 'b']}, 'empty': ['a']},
        'xml-empty-custom': lambda: {'xml': True, 'empty': ['item', 'br']},
        'xml-special-custom': lambda: {'xml': True, 'special': {'raw': None}},
        **option_value_templates(),
    }


def option_value_templates():
    """OPTION VALUES OF EVERY TYPE that can express the documented meaning.  The documentation of the options says what
    a value MEANS, not which Python type carries it: `xml` is a flag, `empty` is a "list of elements", a `special` entry
    is "either empty (always mark element as special) or list of `type` attribute values".  A caller writes a flag as
    True / 1 / 0 / None, a collection as list / tuple / frozenset / dict keys, "always special" as None or as a flag
    (True, 1) or as another empty value ('', (), False, 0).  Every option key gets every such type here; the short
    names a / b / ab let short strings reach the entries.  The oracle is the C16 statement only (no exception,
    well-formed ranges, match = first outward entry ...), whichever meaning the library gives to a value."""
    return {
        'special-flag-true': lambda: {'special': {'style': True, 'raw': True, 'script': list(OPT_JS_TYPES)}},
        'special-flag-int': lambda: {'special': {'style': 1, 'script': 1, 'raw': 1}},
        'special-falsy-values': lambda: {'special': {'style': False, 'script': 0, 'raw': '', 'a': ()}},
        'special-collections': lambda: {'special': {'script': ('', 'ts', 'a'), 'style': frozenset(['']), 'raw': {'a': 1}, 'a': 'ab'}},
        'special-empty-list': lambda: {'special': {'style': [], 'script': [''], 'a': []}},
        'ab-flags': lambda: {'special': {'a': True, 'b': 1}, 'empty': ('b', 'ab')},
        'ab-xml-flags': lambda: {'xml': 1, 'special': {'b': True, 'a': 0}, 'empty': frozenset(['a'])},
        'xml-flag-int': lambda: {'xml': 1},
        'xml-flag-zero': lambda: {'xml': 0, 'empty': ('item', 'br')},
        'xml-flag-none': lambda: {'xml': None, 'special': None},
        'empty-tuple': lambda: {'empty': ('item', 'b', 'x-foo')},
        'empty-frozenset': lambda: {'empty': frozenset(['item'])},
        'empty-dict-keys': lambda: {'empty': {'item': True, 'br': True}, 'special': {'raw': True}},
    }


def model_options(opts):
    """The options as the extracted model takes them (flag, association list name -> None | list of strings, list of
    names).  The model follows the code: `xml` is tested for truth, `empty` is tested with `in`, a `special` entry whose
    value is not a list means "always special" (None in the model), a missing / None `special` table is the default
    table / no table.  Used for the correspondence only, never by the oracle."""
    o = {}
    opts = opts or {}
    if 'xml' in opts:
        o['xml'] = bool(opts['xml'])
    if 'special' in opts:
        o['special'] = {k: (list(v) if isinstance(v, list) else None) for k, v in (opts['special'] or {}).items()}
    if 'empty' in opts:
        o['empty'] = list(opts['empty'])
    return o


def option_names(opts):
    """the names an options object gives a meaning to (its own keys only)"""
    o = opts or {}
    return list(o.get('empty', ())), list((o.get('special') or {}).keys())


def gen_option_document(rng, opts, max_nodes=9):
    """A small document in which the options decide the structure: elements named by default void names, default special
    names, the names of the given options' own `empty` / `special` entries and ordinary names, each written -- whatever
    its name -- as a pair `<n>..</n>`, as a lone open tag, as `<n/>` or as a stray close tag; special-named elements
    hold tag-like text and sometimes a `type` attribute.  Mostly well nested; the caller mutates some."""
    own_void, own_special = option_names(opts)
    pools = [OPT_DEFAULT_VOID[:6], OPT_DEFAULT_SPECIAL, OPT_ORDINARY]
    weights = [4, 2, 3]
    if own_void:
        pools.append(own_void)
        weights.append(4)
    if own_special:
        pools.append(own_special)
        weights.append(4)
    special_like = set(OPT_DEFAULT_SPECIAL) | set(own_special)
    budget = [rng.randint(2, max_nodes)]

    def name():
        return rng.choice(rng.choices(pools, weights)[0])

    def attrs(n):
        r = rng.random()
        if n in special_like and r < 0.5:
            return ' type=%s' % rng.choice(['"a"', '"x"', '""', 'ts', '"text/template"', 'b'])
        if r < 0.25:
            return rng.choice([' src="a.png"', ' class=c', ' id="i" hidden', " title='>'", ' rel="x"'])
        return ''

    def text():
        return rng.choice(['', '', 'x', 'text', ' ', 'a > b'])

    def node(depth):
        budget[0] -= 1
        n = name()
        form = rng.random()
        if form < 0.12:
            return '<%s%s/>' % (n, attrs(n))
        if form < 0.30:
            return '<%s%s>' % (n, attrs(n)) + text()
        if form < 0.35:
            return '</%s>' % n
        if n in special_like and rng.random() < 0.6:
            body = ''.join(rng.choice(['<b>', '</b>', '<i>x</i>', 'x', '<br>', '</%s ' % n, '<%s>' % name()]) for _ in range(rng.randint(0, 3)))
        else:
            body = text()
            while budget[0] > 0 and depth < 4 and rng.random() < 0.6:
                body += node(depth + 1) + text()
        return '<%s%s>%s</%s>' % (n, attrs(n), body, n)

    out = text()
    while True:
        out += node(0) + text()
        if budget[0] <= 0 or rng.random() < 0.3:
            return out


# hand-written documents in which xml / empty / special decide the result
OPTION_SEEDS = [
    '<p><br>x</br></p>', '<ul><li><img src="a.png">t</img><hr></li></ul>', '<a><link rel="x">y</link><b></b></a>',
    '<p><input value="1">v</input></p>', '<list><item>one<item>two</list>', '<list><item>one</item><item/></list>',
    '<a><raw><b></raw><c>z</c></a>', '<div><raw></div></raw></div>', '<script><b></script><b></b>', '<style><a></style></a>',
    '<p><script type="x"><b></b></script></p>', '<a><b></a>', '<b><a></a></b>', '<ab><a><b></b></a></ab>', '<b type=a><a></b></a>',
    '<x-foo><p>t</p><x-foo>', '<div><br><br/></br></div>', '<meta><p></meta></p>',
]
