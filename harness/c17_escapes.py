"""C17, HTML half: ESCAPES AND QUOTING LAYERS inside attribute values.

The C09 generator's value alphabet has no backslash and no character reference, so the shapes below never reached the
helpers.  Here every attribute value is a sequence of UNITS and the record (value range, unquoted value range, class
tokens) is taken while writing, exactly as in harness/c17_names.py (same builder, same Doc type, same oracle).

What a quoted value is.  Emmet's scanners read a quoted string with the backslash as escape character (documented at
emmet/scanner_utils.py eat_quoted / create_options: `escape: '\\'`; upstream @emmetio/scanner `eatQuoted`: "the
contents of quoted string", `escape` option): backslash + any character is one unit and never ends the string.  This
module only writes bodies that are whole units -- a body never ends in an unpaired backslash -- so the first own quote
that is not part of a unit is the one written by the builder as the closing quote.  By construction:

  * bodies WITHOUT the own quote character whose backslash runs are all of even length, or odd runs followed by a plain
    character: the plain-HTML reading and the escape reading agree on every range (class `plain`);
  * bodies with an escaped own quote (backslash + own quote) in first / middle / last position (class `escaped-quote`;
    only the escape reading closes the value at the builder's closing quote, this is the library's documented
    convention, guarded by ESCAPED_OWN_QUOTE).

The property is then stated as everywhere in C17: the unquoted value range is the value range without its two quote
characters (without the one outer brace pair for expressions, the whole range for unquoted values), class tokens are the
maximal runs of non-space characters of the unquoted value.
"""
import c17_names
from html_gen import Attr

BS = '\\'
ESCAPED_OWN_QUOTE = True        # bodies with backslash + own quote character (Emmet's escape convention)

# units that contain a backslash; `Q` = own quote, `O` = the other quote
ESC_UNITS = [BS + BS, BS + BS + BS + BS, BS + 'O', BS + 'n', BS + 'a', BS + ' ', BS + '>', BS + '/', BS + '=', BS + BS + BS + 'x',
             BS + '}', BS + '{', BS + 'u0041', BS + '\n']
ESC_OWN = [BS + 'Q', BS + BS + BS + 'Q']
# other quoting layers: character references and percent escapes of the quote characters and of the backslash
REF_UNITS = ['&quot;', '&#34;', '&#x22;', '&apos;', '&#39;', '&#92;', '&bsol;', '&amp;quot;', '%22', '%27', '%5C', '""'.replace('"', 'O'),
             'O', '&', ';', '&#', '&quot']
PLAIN = ['a', 'b', 'c1', ' ', 'x', '-', '.', ':', 'C:', 'dir']
PLACES = ['only', 'first', 'middle', 'last', 'last-twice', 'first-and-last']


def _q(unit, own, other):
    return unit.replace('Q', own).replace('O', other)


def placed_body(rng, unit, place, cls):
    """a value body (list of units) with `unit` in the given place; the rest plain.  For class attributes the plain
    filler contains white space so that the unit is part of the first / a middle / the last token"""
    def fill():
        n = rng.choice([1, 1, 2, 3])
        parts = [rng.choice(PLAIN) for _ in range(n)]
        if cls and rng.random() < 0.7:
            parts.insert(rng.randrange(len(parts) + 1), rng.choice([' ', '  ', '\t', '\n', '\xa0']))
        return parts
    if place == 'only':
        return [unit]
    if place == 'first':
        return [unit] + fill()
    if place == 'middle':
        return fill() + [unit] + fill()
    if place == 'last':
        return fill() + [unit]
    if place == 'last-twice':
        return fill() + [unit, unit]
    return [unit] + fill() + [unit]


def bucket(unit):
    if unit.startswith(BS):
        k = len(unit) - len(unit.lstrip(BS))
        rest = unit[k:]
        if not rest:
            return 'backslash-run-%d' % k
        return 'backslash-run-%d+%s' % (k, {'Q': 'own-quote', 'O': 'other-quote'}.get(rest, 'brace' if rest in '{}' else 'char'))
    if unit.startswith('&') and unit.endswith(';') and len(unit) > 1:
        return 'character-reference'
    if unit.startswith('%'):
        return 'percent-escape'
    if 'O' in unit:
        return 'other-quote'
    return 'reference-fragment'


class _EB(c17_names._B):
    """the names builder with attribute bodies taken from a queue of prepared (form, units) bodies"""

    def __init__(self, rng, xml, bodies):
        super().__init__(rng, xml)
        self.bodies = bodies

    def attribute(self, name, form, extra):
        ns = self.pos
        self.emit(name)
        ne = self.pos
        if form == 'none':
            return Attr(name, ns, ne)
        body = self.bodies.pop(0)
        self.features.add('attr-escape-layer:' + form)
        vs, ve, inner = self.value(form, body)
        return Attr(name, ns, ne, True, vs, ve, inner)

    def finish(self, roots):
        d = super().finish(roots)
        d.features.discard('names-over-the-alphabet')
        d.features.add('escapes-in-values')
        return d


def render(units, form):
    own, other = {'dq': ('"', "'"), 'sq': ("'", '"')}.get(form, ('', ''))
    out = []
    for u in units:
        if form in ('dq', 'sq'):
            out.append(_q(u, own, other))
        elif form == 'expr':
            # no quote characters in expressions (a quote opens a string there); braces only as escaped units
            out.append(u.replace('Q', 'q').replace('O', 'o'))
        else:
            # unquoted: no white space, no quotes, no `>` `/` (they end the value); a backslash is an ordinary character
            s = u.replace('Q', 'q').replace('O', 'o')
            for ch in ' \t\n\xa0>/':
                s = s.replace(ch, '_')
            out.append(s)
    return ''.join(out)


def _document(rng, xml, specs, cover):
    """specs: [(attr name, form, units, unit bucket, place)] spread over a few tags"""
    bodies = []
    tag_specs = []
    cur = []
    for name, form, units, bk, place in specs:
        bodies.append(render(units, form))
        cur.append((name, form))
        cover.append('html:escape-layer:%s:%s:%s:%s' % ('class' if name == 'class' else 'attr', form, bk, place))
        if len(cur) >= 2 or name == 'class' or rng.random() < 0.3:
            tag_specs.append(cur)
            cur = []
    if cur:
        tag_specs.append(cur)
    b = _EB(rng, xml, bodies)
    extra = {'letters': [], 'tokens': [], 'any': [BS + BS, "'", '"', '&quot;']}
    roots = []
    names = ['a', 'p', 'div', 'x-y', 'img', 'span', 'li']
    pending = list(tag_specs)

    def place_tags(parent):
        while pending:
            sp = pending.pop(0)
            # boolean attributes between the valued ones now and then
            if rng.random() < 0.3:
                sp = sp + [('hidden', 'none')]
            tname = rng.choice(names)
            kind = 'self' if tname == 'img' else rng.choice(['pair', 'pair', 'self'])
            nest = kind == 'pair' and pending and rng.random() < 0.4
            e = b.element(tname, sp, kind, parent, extra, inner=place_tags if nest else None)
            if parent is None:
                roots.append(e)
            if parent is not None and rng.random() < 0.5:
                return
    place_tags(None)
    return b.finish(roots)


def escape_documents(rng, n_random, full=True):
    """[(label, Doc, [coverage buckets])]: SYSTEMATIC part = every escape unit x every value form it can be written in
    x every place (only / first / middle / last / last twice / first and last), once in an ordinary attribute and once
    in a class attribute (when not `full`, i.e. in the quick tier: both for the places that touch the closing delimiter,
    one of the two drawn at random for the places first / middle / first and last; character references and percent
    escapes only in the places only / first / last); RANDOM part = bodies of random units"""
    out = []
    forms = ['dq', 'sq', 'expr', 'unq']
    units = [(u, 'esc') for u in ESC_UNITS] + ([(u, 'own') for u in ESC_OWN] if ESCAPED_OWN_QUOTE else []) \
        + [(u, 'ref') for u in REF_UNITS]
    specs = []
    for unit, kind in units:
        for form in forms:
            if kind == 'own' and form not in ('dq', 'sq'):
                continue
            for place in PLACES:
                if not full and kind == 'ref' and place in ('middle', 'last-twice', 'first-and-last'):
                    continue        # quick tier: character references only where they touch a delimiter
                both = ('title', 'class')
                for name in (both if full or place in ('only', 'last', 'last-twice') else (rng.choice(both),)):
                    if name == 'class' and form == 'unq' and place not in ('only', 'last'):
                        continue
                    specs.append((name, form, placed_body(rng, unit, place, name == 'class' and form != 'unq'), bucket(unit), place))
    rng.shuffle(specs)
    k = 0
    i = 0
    while k < len(specs):
        n = rng.choice([3, 4, 5, 6])
        cover = []
        d = _document(rng, i % 4 == 3, specs[k:k + n], cover)
        out.append(('escapes:systematic:%d' % i, d, cover))
        k += n
        i += 1
    pool = [u for u, kind in units]
    for j in range(n_random):
        sp = []
        for _ in range(rng.choice([2, 3, 4])):
            form = rng.choice(['dq', 'sq', 'dq', 'sq', 'expr', 'unq'])
            name = rng.choice(['class', 'title', 'href', 'data-p', 'class'])
            us = []
            for _ in range(rng.choice([1, 2, 3, 5])):
                u = rng.choice(pool) if rng.random() < 0.6 else rng.choice(PLAIN)
                if form not in ('dq', 'sq') and 'Q' in u:
                    u = BS + BS
                us.append(u)
            sp.append((name, form, us, 'random-units', 'random'))
        cover = []
        out.append(('escapes:random:%d' % j, _document(rng, j % 4 == 3, sp, cover), cover))
    return out
