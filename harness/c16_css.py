"""C16, CSS half -- css_matcher.scan / match / balanced_outward / balanced_inward /
split_value are total and report only well-formed ranges.

Library module: harness/props/c16.py (owned by the HTML half) calls run_css(ctx) and
replay_css(ctx, obj).

Obligations: coq/props/C16Css.v.  Tie: every string goes through the implementation (all
positions -1..len+1) and through the extracted model (coq/run/CssRun.v); events and all
results are compared (the action helpers get_css_section / select_item_css too, they share
the scanner).  Search: the oracle states the property directly on the implementation's
results: no exception, 0 <= start <= end <= len(source) for every reported range."""
import hashlib
import json
import os
import sys

import c16_gen
import c16_space
import common
import css_util as U

USER_RECURSION_LIMIT = 1000      # CPython's default: what a user of the library gets (./check raises its own to 10000)
SPACE = True                     # white space of every kind (c16_space) in every place of a stylesheet
SCALE = True                     # stylesheets / values with depth, counts and token lengths in the thousands


class user_limit:
    def __enter__(self):
        self.old = sys.getrecursionlimit()
        sys.setrecursionlimit(USER_RECURSION_LIMIT)

    def __exit__(self, *a):
        sys.setrecursionlimit(self.old)
        return False

CHECKED = ('match', 'outward', 'inward')         # functions the property names
KEY = 'c16css'


def oracle_string(s, im, sp):
    """first failure, or None.  im: impl_doc(s), sp: impl_split(s)"""
    bad = U.c16_events_oracle(s, im['events'])
    if bad:
        return (None, 'scan', bad)
    bad = U.c16_ranges_oracle(s, 'split', sp)
    if bad:
        return (None, 'split_value', 'split_value: ' + bad)
    for f in CHECKED:
        for i, res in enumerate(im[f]):
            bad = U.c16_ranges_oracle(s, f, res)
            if bad:
                return (i - 1, f, '%s at pos %d: %s' % (f, i - 1, bad))
    return None


def _worker(s):
    return U.impl_doc(s, U.FUNCS), U.impl_split(s)


def _impl(strings, procs):
    with user_limit():           # forked workers inherit the limit
        if procs <= 1 or len(strings) < 64:
            return [_worker(s) for s in strings]
        import multiprocessing
        with multiprocessing.get_context('fork').Pool(procs) as pool:
            return pool.map(_worker, strings, chunksize=max(1, min(2000, len(strings) // (procs * 4))))


# ---- scale: sampled positions, oracle only for the sheets (the extracted model needs minutes on them)
def _scale_worker(arg):
    s, ps = arg
    return U.impl_events(s), {f: [U.IMPL[f](s, p) for p in ps] for f in CHECKED}, U.impl_split(s)


def oracle_scale(s, ps, ev, res, sp):
    bad = U.c16_events_oracle(s, ev)
    if bad:
        return (None, 'scan', bad)
    bad = U.c16_ranges_oracle(s, 'split', sp)
    if bad:
        return (None, 'split_value', 'split_value: ' + bad)
    for f in CHECKED:
        for p, r in zip(ps, res[f]):
            bad = U.c16_ranges_oracle(s, f, r)
            if bad:
                return (p, f, '%s at pos %d: %s' % (f, p, bad))
    return None


def run_scale(args, procs):
    with user_limit():
        if procs <= 1:
            return [_scale_worker(a) for a in args]
        import multiprocessing
        with multiprocessing.get_context('fork').Pool(min(procs, len(args))) as pool:
            return pool.map(_scale_worker, args, chunksize=1)


def check_scale(ctx, model, procs, state):
    rng = ctx.rng
    quick = ctx.tier == 'quick'
    sheets = c16_gen.css_scale_sheets(rng, quick)
    args = [(s, c16_gen.sample_positions(rng, s)) for _, s in sheets]
    res = run_scale(args, procs)
    for (label, s), (_, ps), (ev, r, sp) in zip(sheets, args, res):
        ctx.count_eval(len(ps))
        ctx.cover('stream:scale:' + label)
        if ev[0] == 'ok' and ev[1]:
            ctx.nontrivial(s)
            if len(ev[1]) >= 1000:
                ctx.cover('css:1000-or-more-events')
        if any(x[0] == 'ok' and len(x[1]) >= 1000 for f in ('outward', 'inward') for x in r[f] if isinstance(x, tuple)):
            ctx.cover('css:balanced-chain-1000-or-more')
        bad = oracle_scale(s, ps, ev, r, sp)
        if bad:
            ev, r, sp = run_scale([(s, ps)], 1)[0]          # must repeat (see c16_html.run_html)
            bad = oracle_scale(s, ps, ev, r, sp)
        if bad:
            state['failures'].append((len(s), s, bad, ps))
    state['strings'] += len(sheets)
    # values: split_value only, oracle and model
    vals = c16_gen.css_scale_values(rng, quick)
    with user_limit():
        sps = [U.impl_split(v) for v in vals]
    msp = U.model_split(model, vals) if model is not None else None
    for k, (v, sp) in enumerate(zip(vals, sps)):
        ctx.count_eval()
        ctx.cover('stream:scale:value')
        bad = U.c16_ranges_oracle(v, 'split', sp)
        if bad:
            state['failures'].append((len(v), v, (None, 'split_value', 'split_value: ' + bad), []))
        if msp is not None and sp != msp[k]:
            state['dis'] += 1
            ctx.say('DISAGREE css split on %s\n  impl  %r\n  model %r' % (U.short(v), repr(sp)[:300], repr(msp[k])[:300]))
            if not bad:
                ctx.broken.append({'kind': 'correspondence', 'file': 'css-c16:split', 'input': v[:400], 'pos': None,
                                   'impl': repr(sp)[:300], 'model': repr(msp[k])[:300]})
    state['strings'] += len(vals)


def short_key(s):
    return s if len(s) <= 400 else '%s...[%d chars, sha1 %s]' % (s[:60], len(s), hashlib.sha1(s.encode('utf-8', 'replace')).hexdigest()[:12])


def check_strings(ctx, model, strings, stream, procs, state):
    """oracle + correspondence for one chunk of strings"""
    res = _impl(strings, procs)
    models = U.model_docs(model, strings) if model is not None else None
    msplit = U.model_split(model, strings) if model is not None else None
    for k, (s, (im, sp)) in enumerate(zip(strings, res)):
        npos = len(s) + 3
        ctx.count_eval(npos)
        ctx.cover('stream:' + stream)
        evs = im['events']
        if evs[0] == 'ok' and evs[1]:
            ctx.nontrivial(s)
            for t, _, _, _ in evs[1]:
                ctx.cover('event:' + (U.TYN[t] if 0 <= t < 4 else '?'))
        if any(m is not None for m in im['match']):
            ctx.cover('some-match')
        bad = oracle_string(s, im, sp)
        if bad:
            state['failures'].append((len(s), s, bad, None))
        if models is not None:
            mo = models[k]
            d = U.compare(im, mo, U.FUNCS)
            if sp != msplit[k]:
                d.append(('split', None))
            if d:
                state['dis'] += 1
                if state['dis'] <= 5:
                    f, idx = d[0]
                    a = im['events'] if f == 'events' else sp if f == 'split' else im[f][idx]
                    b = mo['events'] if f == 'events' else msplit[k] if f == 'split' else mo[f][idx]
                    ctx.say('DISAGREE css %s on %s pos %s\n  impl  %r\n  model %r' % (
                        f, U.short(s), None if idx is None else idx - 1, a, b))
                    if not bad:
                        ctx.broken.append({'kind': 'correspondence', 'file': 'css-c16:' + f, 'input': s,
                                           'pos': None if idx is None else idx - 1,
                                           'impl': repr(a)[:300], 'model': repr(b)[:300]})
        if len(ctx.cov['samples']) < 6 and stream in ('mutated', 'random') and len(s) < 80:
            ctx.sample({'css_input': s, 'events': repr(evs)[:200]})
    state['strings'] += len(strings)


def load_corpus():
    d = os.path.join(common.VERIF, 'corpus', 'C16')
    out = []
    if os.path.isdir(d):
        for fn in sorted(os.listdir(d)):
            if fn.endswith('.json'):
                with open(os.path.join(d, fn)) as f:
                    o = json.load(f)
                if o.get('component') == 'css':
                    out.append(o['text'])
    return out


def run_css(ctx):
    ok = ctx.build(['props/C16Css.vo', 'run/CssRun.vo'])
    if ok:
        ctx.obligations('props/C16Css.v')
    model = ctx.model('css') if ok else None
    quick = ctx.tier == 'quick'
    procs = 8 if quick else common.NPROC
    n_ex = 4 if quick else 5
    rule = ('CSS: corpus of past failures; ALL strings of length <= %d over the 13-character stylesheet punctuation '
            'alphabet `a : ; { } ( ) space " \\ / * -` (exhaustive); random strings over a 26-character alphabet; '
            'mutations (delete/insert/replace/truncate) of valid generated stylesheets; every position -1..len+1. '
            'An evaluation is one (string, position); a string is non-trivial when the scanner reports at least one '
            'event; distinct by string. SCALE (%s): 12 stylesheet families (rules nested deeper than 1000 with and without '
            'declarations, unclosed nesting, stray block ends, thousands of declarations / rules / value items, parentheses '
            'nested deeper than 1000 balanced and unbalanced, comment / string / word tokens of thousands of characters, '
            'unclosed comment, unclosed string ending in backslashes) with size drawn from 1100/1500/2100%s, positions sampled '
            '(-1..2, the middle, len-2..len+1, 3 random), judged by the oracle only (the extracted model needs minutes '
            'there); 7 value families of sizes 1100/2100 (thorough also 5000) for split_value through oracle and model. The implementation runs '
            'under CPython\'s default recursion limit %d. WHITE SPACE OF EVERY KIND (%s): the %d characters of the Unicode '
            'White_Space property, of Python\'s str.isspace() and the invisible format characters U+200B U+2060 U+FEFF '
            '(written out in c16_space.SPACES; NO-BREAK SPACE, FORM FEED, EM SPACE, LINE SEPARATOR ... besides blank, tab, CR, '
            'LF) -- ALL strings of length <= %d over the 7-character alphabet `a { } : ; U+00A0 U+000C` that hold one '
            'of the two; %d stylesheet shapes (block body, property value with and without `;`, before / after every '
            'delimiter, inside parentheses, strings and nested blocks, unclosed block / value, sheet start / end) with every '
            'slot filled by every one of the characters (8 representatives alone, doubled, next to ASCII blanks and around a line '
            'break, the others in one of these forms each; so also '
            'bodies and values that are such white space ONLY); generated valid stylesheets in which runs of blanks are '
            'replaced, runs inserted next to delimiters, whole bodies / values / parentheses replaced by a drawn run (three '
            'tenths mutated further); every position -1..len+1, oracle and model.' % (
                n_ex, 'on' if SCALE else 'OFF', '' if quick else '/5000', USER_RECURSION_LIMIT,
                'on' if SPACE else 'OFF', len(c16_space.SPACES), n_ex, len(c16_space.CSS_SHAPES)))
    ctx.cov['rule'] = (ctx.cov['rule'] + ' || ' if ctx.cov.get('rule') else '') + rule
    state = {'failures': [], 'dis': 0, 'strings': 0}
    check_strings(ctx, model, load_corpus(), 'corpus', 1, state)
    ex = list(U.exhaustive(n_ex))
    for i in range(0, len(ex), 60000):
        check_strings(ctx, model, ex[i:i + 60000], 'exhaustive', procs, state)
    ctx.cov['css_exhaustive'] = {'alphabet': ''.join(U.C16_ALPHABET), 'max_len': n_ex, 'strings': len(ex)}
    rng = ctx.rng
    rnd = [U.random_string(rng, rng.randint(5, 14 if quick else 40)) for _ in range(3000 if quick else 60000)]
    check_strings(ctx, model, rnd, 'random', procs, state)
    mut = []
    for _ in range(250 if quick else 4000):
        r = rng.random()
        text, _ = U.gen_sheet(rng, lambda k: None, semis=rng.random() < 0.5,
                              max_depth=2 if r < 0.6 else 3, n_max=2 if r < 0.6 else 3)
        if not quick and r > 0.97:
            text, _ = U.gen_sheet(rng, lambda k: None, semis=False, max_depth=4, n_max=4)
        mut.append(U.mutate(rng, text)[:400])
    check_strings(ctx, model, mut, 'mutated', procs, state)
    if SPACE:
        sx = list(c16_space.css_space_exhaustive(n_ex))
        check_strings(ctx, model, sx, 'space-exhaustive', procs, state)
        check_strings(ctx, model, list(c16_space.css_space_shapes()), 'space-shapes', procs, state)
        sm = []
        for _ in range(400 if quick else 6000):
            text, _ = U.gen_sheet(rng, lambda k: None, semis=rng.random() < 0.5, max_depth=2, n_max=2)
            text = c16_space.space_mutate(rng, text)
            sm.append((U.mutate(rng, text) if rng.random() < 0.3 else text)[:400])
        check_strings(ctx, model, sm, 'space-mutated', procs, state)
        ctx.cov['css_space_exhaustive'] = {'alphabet': ''.join(c16_space.CSS_SPACE_ALPHABET), 'max_len': n_ex, 'strings': len(sx)}
    if SCALE:
        check_scale(ctx, model, procs, state)
    state['failures'].sort(key=lambda t: t[:2])
    seen = {}
    for ln, s, (pos, f, why), ps in state['failures']:
        if seen.get(f, 0) >= 3:
            continue
        seen[f] = seen.get(f, 0) + 1
        rp = {'component': 'css', 'check': 'c16', 'text': s, 'pos': pos, 'func': f, 'why': why}
        if ps is not None:
            rp['positions'] = ps
        ctx.property_failure('%s:%s:%s' % (KEY, f, short_key(s)), 'css %s on %s: %s' % (f, U.short(s), why), rp)
    ctx.cov['correspondence']['css_c16'] = {'strings': state['strings'], 'disagreements': state['dis'],
                                            'oracle_failures': len(state['failures'])}


def replay_css(ctx, obj):
    rp = obj.get('replay', {})
    s = rp.get('text')
    if s is None:
        print('replay names a broken obligation, no input: %s' % json.dumps(rp)[:500])
        return 1
    if rp.get('positions') is not None:
        ps = rp['positions']
        ev, r, sp = run_scale([(s, ps)], 1)[0]
        bad = oracle_scale(s, ps, ev, r, sp) if ps else None
        if not ps:
            b = U.c16_ranges_oracle(s, 'split', sp)
            bad = (None, 'split_value', 'split_value: ' + b) if b else None
        print('css input %s (%d characters): %s' % (U.short(s), len(s), bad[2] if bad else 'property holds at the recorded positions'))
        return 1 if bad else 0
    im, sp = _impl([s], 1)[0]
    bad = oracle_string(s, im, sp)
    print('css input %r: %s' % (s, bad[2] if bad else 'property holds at every position'))
    return 1 if bad else 0
