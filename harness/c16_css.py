"""C16, CSS half -- css_matcher.scan / match / balanced_outward / balanced_inward /
split_value are total and report only well-formed ranges.

Library module: harness/props/c16.py (owned by the HTML half) calls run_css(ctx) and
replay_css(ctx, obj).

Obligations: coq/props/C16Css.v.  Tie: every string goes through the implementation (all
positions -1..len+1) and through the extracted model (coq/run/CssRun.v); events and all
results are compared (the action helpers get_css_section / select_item_css too, they share
the scanner).  Search: the oracle states the property directly on the implementation's
results: no exception, 0 <= start <= end <= len(source) for every reported range."""
import json
import os

import common
import css_util as U

CHECKED = ('match', 'outward', 'inward')         # functions the property names
KEY = 'c16css'


def oracle_string(s, im, sp):
    """first failure, or None.  im: impl_doc(s), sp: impl_split(s)"""
    bad = U.c16_events_oracle(s, im['events'])
    if bad:
        return (None, 'scan', bad)
    bad = U.c16_ranges_oracle(s, 'split', sp)
    if bad:
        return (None, 'split_value', 'split_value: ' + bad)
    for f in CHECKED:
        for i, res in enumerate(im[f]):
            bad = U.c16_ranges_oracle(s, f, res)
            if bad:
                return (i - 1, f, '%s at pos %d: %s' % (f, i - 1, bad))
    return None


def _worker(s):
    return U.impl_doc(s, U.FUNCS), U.impl_split(s)


def _impl(strings, procs):
    if procs <= 1 or len(strings) < 64:
        return [_worker(s) for s in strings]
    import multiprocessing
    with multiprocessing.get_context('fork').Pool(procs) as pool:
        return pool.map(_worker, strings, chunksize=max(1, min(2000, len(strings) // (procs * 4))))


def check_strings(ctx, model, strings, stream, procs, state):
    """oracle + correspondence for one chunk of strings"""
    res = _impl(strings, procs)
    models = U.model_docs(model, strings) if model is not None else None
    msplit = U.model_split(model, strings) if model is not None else None
    for k, (s, (im, sp)) in enumerate(zip(strings, res)):
        npos = len(s) + 3
        ctx.count_eval(npos)
        ctx.cover('stream:' + stream)
        evs = im['events']
        if evs[0] == 'ok' and evs[1]:
            ctx.nontrivial(s)
            for t, _, _, _ in evs[1]:
                ctx.cover('event:' + (U.TYN[t] if 0 <= t < 4 else '?'))
        if any(m is not None for m in im['match']):
            ctx.cover('some-match')
        bad = oracle_string(s, im, sp)
        if bad:
            state['failures'].append((len(s), s, bad))
        if models is not None:
            mo = models[k]
            d = U.compare(im, mo, U.FUNCS)
            if sp != msplit[k]:
                d.append(('split', None))
            if d:
                state['dis'] += 1
                if state['dis'] <= 5:
                    f, idx = d[0]
                    a = im['events'] if f == 'events' else sp if f == 'split' else im[f][idx]
                    b = mo['events'] if f == 'events' else msplit[k] if f == 'split' else mo[f][idx]
                    ctx.say('DISAGREE css %s on %s pos %s\n  impl  %r\n  model %r' % (
                        f, U.short(s), None if idx is None else idx - 1, a, b))
                    if not bad:
                        ctx.broken.append({'kind': 'correspondence', 'file': 'css-c16:' + f, 'input': s,
                                           'pos': None if idx is None else idx - 1,
                                           'impl': repr(a)[:300], 'model': repr(b)[:300]})
        if len(ctx.cov['samples']) < 6 and stream in ('mutated', 'random') and len(s) < 80:
            ctx.sample({'css_input': s, 'events': repr(evs)[:200]})
    state['strings'] += len(strings)


def load_corpus():
    d = os.path.join(common.VERIF, 'corpus', 'C16')
    out = []
    if os.path.isdir(d):
        for fn in sorted(os.listdir(d)):
            if fn.endswith('.json'):
                with open(os.path.join(d, fn)) as f:
                    o = json.load(f)
                if o.get('component') == 'css':
                    out.append(o['text'])
    return out


def run_css(ctx):
    ok = ctx.build(['props/C16Css.vo', 'run/CssRun.vo'])
    if ok:
        ctx.obligations('props/C16Css.v')
    model = ctx.model('css') if ok else None
    quick = ctx.tier == 'quick'
    procs = 8 if quick else common.NPROC
    n_ex = 4 if quick else 5
    rule = ('CSS: corpus of past failures; ALL strings of length <= %d over the 13-character stylesheet punctuation '
            'alphabet `a : ; { } ( ) space " \\ / * -` (exhaustive); random strings over a 26-character alphabet; '
            'mutations (delete/insert/replace/truncate) of valid generated stylesheets; every position -1..len+1. '
            'An evaluation is one (string, position); a string is non-trivial when the scanner reports at least one '
            'event; distinct by string.' % n_ex)
    ctx.cov['rule'] = (ctx.cov['rule'] + ' || ' if ctx.cov.get('rule') else '') + rule
    state = {'failures': [], 'dis': 0, 'strings': 0}
    check_strings(ctx, model, load_corpus(), 'corpus', 1, state)
    ex = list(U.exhaustive(n_ex))
    for i in range(0, len(ex), 60000):
        check_strings(ctx, model, ex[i:i + 60000], 'exhaustive', procs, state)
    ctx.cov['css_exhaustive'] = {'alphabet': ''.join(U.C16_ALPHABET), 'max_len': n_ex, 'strings': len(ex)}
    rng = ctx.rng
    rnd = [U.random_string(rng, rng.randint(5, 14 if quick else 40)) for _ in range(3000 if quick else 60000)]
    check_strings(ctx, model, rnd, 'random', procs, state)
    mut = []
    for _ in range(250 if quick else 4000):
        r = rng.random()
        text, _ = U.gen_sheet(rng, lambda k: None, semis=rng.random() < 0.5,
                              max_depth=2 if r < 0.6 else 3, n_max=2 if r < 0.6 else 3)
        if not quick and r > 0.97:
            text, _ = U.gen_sheet(rng, lambda k: None, semis=False, max_depth=4, n_max=4)
        mut.append(U.mutate(rng, text)[:400])
    check_strings(ctx, model, mut, 'mutated', procs, state)
    state['failures'].sort()
    seen = {}
    for ln, s, (pos, f, why) in state['failures']:
        if seen.get(f, 0) >= 3:
            continue
        seen[f] = seen.get(f, 0) + 1
        ctx.property_failure('%s:%s:%s' % (KEY, f, s), 'css %s on %s: %s' % (f, U.short(s), why),
                             {'component': 'css', 'check': 'c16', 'text': s, 'pos': pos, 'func': f, 'why': why})
    ctx.cov['correspondence']['css_c16'] = {'strings': state['strings'], 'disagreements': state['dis'],
                                            'oracle_failures': len(state['failures'])}


def replay_css(ctx, obj):
    rp = obj.get('replay', {})
    s = rp.get('text')
    if s is None:
        print('replay names a broken obligation, no input: %s' % json.dumps(rp)[:500])
        return 1
    im, sp = _worker(s)
    bad = oracle_string(s, im, sp)
    print('css input %r: %s' % (s, bad[2] if bad else 'property holds at every position'))
    return 1 if bad else 0
