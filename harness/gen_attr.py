"""Generated data for C14: the resolved default configuration of the html / xsl / pug syntaxes in the
wire encoding of the extracted markup model (decoded in Coq by run.MarkupRun.dec_config), so that the
built-in alias sweep of props/C14.v runs against what emmet.config.Config resolves NOW."""
from gen_tables import HEADER, write_if_changed, coq_str, coq_list


def gen_attr():
    from markup_util import enc_config
    out = HEADER % 'emmet.config.Config (resolved defaults of syntaxes html, xsl, pug; wire encoding of harness/markup_util.enc_config)'
    out = out.replace('Local Open Scope N_scope.', 'Local Open Scope Z_scope.')
    for name, cfg in (('html', {}), ('xsl', {'syntax': 'xsl'}), ('pug', {'syntax': 'pug'}),
                      ('html_rev', {'options': {'output.reverseAttributes': True}})):
        w = enc_config(cfg)
        out += 'Definition cfg_wire_%s : list Z :=\n  [%s]%%Z.\n\n' % (name, '; '.join(str(x) for x in w))
    # (abbreviation using a built-in alias, the same abbreviation with the definition written in its place)
    # for EVERY key of the three tables; the decorated definitions are written by harness/snippet_util.py
    from emmet.snippets import markup_snippets, xsl_snippets, pug_snippets
    from snippet_util import alias_pairs
    tables = (('html', dict(markup_snippets), False), ('xsl', {**markup_snippets, **xsl_snippets}, False),
              ('pug', {**markup_snippets, **pug_snippets}, False), ('html_rev', dict(markup_snippets), True))
    for name, tbl, rev in tables:
        items = []
        for k, d in tbl.items():
            for kind, a, b in alias_pairs(k, d, rev):
                if rev and kind != 'attributes':
                    continue           # reverseAttributes only matters where attributes are added
                items.append('(%s, %s)' % (coq_str(a), coq_str(b)))
        out += 'Definition alias_pairs_%s : list (list N * list N) :=\n  %s.\n\n' % (name, coq_list(items))
    return write_if_changed('GenAttr.v', out)


GENERATORS = [gen_attr]
