"""markup.href (emmet/abbreviation/convert.py: convert() -> insert_href): tie between the Coq model
(coq/model/MarkupHref.v matchers, insert_href / insert_wrap in coq/model/MarkupConvert.v) and the implementation.

Three layers, 0 disagreements required on each:
  * MATCHERS (extracted model `href`, command 1): url_match / email_match / proto_match / href_value of the model
    against re_url.match, re_email.match, the inline re.match pattern of insert_href and the value the REAL insert_href
    writes into a bare node -- on every sequence of URL fragments / e-mail fragments up to a length bound, every
    boundary code point of every generated class, the re.I code points, and random strings.
  * insert_href (command 2): attributes of a node before/after the real insert_href against the model, for every
    list of up to three attributes drawn from (href | title | nameless) x (None | [] | ['x'] | [field]) x flags.
  * PIPELINE (extracted markup model, commands 2 = output string and 3 = output.text / output.field callback
    events): the FULL expand() result of model and implementation for wrap texts that look like URLs / e-mails /
    near misses on `a`, `a[href]`, `a[href=x]`, `a:link`, `ul>li*>a`, ... under output options, syntaxes,
    comments, BEM, user snippets, markup.href on and off.

Property oracles on the implementation (independent of the model), used by the checks that call this module:
  * C07 (`oracle_c07`): expand returns a string or one of its two parse errors;
  * C04 (`c04_cases`): every case carries the pieces the statement predicts (the whole text once, verbatim, inside
    the deepest last element -- whatever happens to the href attribute); harness/props/c04.py runs them through its
    own oracle and model comparison.
"""
import copy
import itertools
import re

from common import enc_str, enc_opt, enc_list, enc_bool, Reader
from markup_util import run_cases, canon_cfg

# ---------------------------------------------------------------- texts
URL_FRAGS = ['http', 'https', 'ftp', 'file', 'www', ':', '/', '//', '.', 'x', ' ', 's', 'HTTP', '\n', 'w', 'é', '_', '1']
MAIL_FRAGS = ['a', 'Z', '1', '.', '-', '_', '%', '+', '@', '\n', ' ', 'ſ', 'K', 'é', 'cc', 'ccccc', 'cccccc', 'ı', '!', ':']

# wrap texts named in the task + neighbours; (text, looks like)
TEXTS = [
    'www.x', 'ftp.x.y', '//x', 'http:/x', 'http://x', 'https://e.com/p?q=1#f', 'ftp://h', 'file:///etc', 'file:/x', 'httpx://a',
    'HTTP://x', 'WWW.x', 'www', 'www.', 'ftp.', 'ww.x', 'wwww.x', ' www.x ', '\twww.x\n', 'x www.y', 'www.x y', 'www.x\ny', '//a\nb',
    '//a\r\nb', '//a\rb', '//', '/', '/x', ':', '://x', 'mailto:a@b.cc',
    'a@b.c', 'a@b.cc', 'a@b.ccccc', 'a@b.cccccc', 'A@B.CC\n', 'A@B.CC\n\n', 'a@b.cc\nx', 'x y@z.cc', 'x\ny@z.cc', 'a@b', 'a@.cc', '@b.cc',
    'a@b..cc', 'a.b-c_d%e+f@g-h.i.jk', 'a@b.c1', 'a@b.12', 'a@@b.cc', 'a@b@c.dd', 'a@b.cc ', 'é@b.cc', 'a@é.cc', 'a@b.éé',
    'ſ@ſ.ſſ', 'K@K.KK', 'İ@ı.İı', 'a@b.cſ', 'www.ſ', 'a@b.cc\r', 'a@b.cc\x0b', 'a@b.cc\x1c', 'a@b.cc\x85', 'a@b.cc ',
    'www.${1:x}', 'www.$#', 'www.$', 'www."q"', "www.'q'", 'www.<b>', 'www.a$$b', '//x\\y', 'www.{x}', 'www.[x]', 'www.x*3', 'www.x>y+z',
    'ftp.x@y.zz', 'www.a@b.cc', 'http://a@b.cc', '١@b.cc', 'a@b.cc ', ' www.x', 'plain text', '', ' ', 'x',
]
LISTS = [['www.x'], ['a@b.cc'], ['www.x', 'a@b.cc'], ['', ' www.x ', ''], ['//a', 'b'], ['a@b.cc', ''], ['a@b', '.cc'], ['http:', '//x'],
         ['  ', '\t'], [], ['www.x', '', 'y']]

ABBRS = [
    'a', 'a[href]', 'a[href=x]', 'a[href=""]', "a[href='']", 'a[href.]', 'a[!href]', 'a[href={}]', 'a[href={x}]', 'a[title=t]',
    'a[title=t href]', 'a[href title=t]', 'a[href href=y]', 'a[href=y href]', 'a[href=${1}]', 'a[href=${1:u}]', 'a[href=$#]', 'a[HREF]',
    'a["q"]', 'a[{e}]', 'a.c#i', 'a:link', 'a:mail', 'a:tel', 'A', 'a1', 'b', 'b>a', 'a>b', 'ul>li*>a', 'ul>li>a', 'a*2', '(a)*2', 'a*',
    'a{t}', 'a{${1}}', 'a{${1:p}}', 'a{$#}', 'a+a', 'p>a+b', 'p>b+a', 'a/', 'a[href]/', '(p>a)+(q>a)', 'a^a', '{t}+a', 'a>{t}', '{t}>a',
    'a[href]>{t}', 'a*3', 'li*2>a', 'a[href]*', 'a$', 'a[href=www.$]*2', 'div>a[href]{t }', 'a[class=k]', 'a.b_m', '[href]', 'span>[href]',
    'x', 'y', 'a[title="$#"]', 'p{$#}+a', 'a[href=x]*', 'ul>li*>a[href]',
]
# a few snippet tables: `a` resolved to something else, something else resolved to `a`
SNIPPETS = [None, {'a': 'a[href title]'}, {'a': 'b'}, {'x': 'a', 'y': 'a[href]'}, {'a': 'a[href=z]'}, {'a': 'p>a'}, {'a': ''}]

PLAIN = {'output.format': False, 'output.indent': '', 'output.baseIndent': '', 'output.newline': '\n'}
OPTION_SETS = [
    {}, dict(PLAIN), {'markup.href': False}, dict(PLAIN, **{'markup.href': False}), {'output.attributeQuotes': 'single'},
    {'output.reverseAttributes': True}, {'output.indent': '  ', 'output.baseIndent': '>>', 'output.newline': '\r\n'},
    {'output.attributeCase': 'upper', 'output.tagCase': 'upper'}, {'output.compactBoolean': True, 'output.booleanAttributes': ['href']},
    {'comment.enabled': True, 'comment.trigger': ['href'], 'comment.before': '<!-- [HREF] -->\n', 'comment.after': '\n<!-- /[HREF|x] -->'},
    {'bem.enabled': True}, {'markup.attributes': {'href': 'to'}, 'markup.valuePrefix': {'href': 'links'}}, {'jsx.enabled': True},
    {'markup.valuePrefix': {'href': 'r'}, 'jsx.enabled': True}, {'output.selfClosingStyle': 'xhtml'}, {'output.formatLeafNode': True},
    {'inlineElements': []}, {'output.inlineBreak': 1},
]
SYNTAXES = [None, 'xml', 'xsl', 'jsx', 'pug', 'haml', 'slim', 'vue']


def mkcfg(text, opts=None, syntax=None, snippets=None, **extra):
    cfg = {'text': copy.deepcopy(text)}
    if opts:
        cfg['options'] = copy.deepcopy(opts)
    if syntax:
        cfg['syntax'] = syntax
    if snippets:
        cfg['snippets'] = dict(snippets)
    cfg.update(extra)
    return cfg


def frag_strings(frags, n):
    for k in range(0, n + 1):
        for tup in itertools.product(frags, repeat=k):
            yield ''.join(tup)


# ---------------------------------------------------------------- matcher level
def _bare_node(attrs=None):
    from emmet.abbreviation.convert import AbbreviationNode
    n = AbbreviationNode.__new__(AbbreviationNode)
    n.type = 'AbbreviationNode'
    n.name = 'a'
    n.value = None
    n.attributes = attrs
    n.children = []
    n.repeat = None
    n.self_closing = False
    return n


def impl_matchers(pat, s):
    """(re_url.match, re_email.match, inline pattern, the value the real insert_href writes into a bare node)."""
    import importlib
    C = importlib.import_module('emmet.abbreviation.convert')
    n = _bare_node()
    C.insert_href(n, s)
    if n.attributes is None:
        href = None
    else:
        assert len(n.attributes) == 1 and n.attributes[0].name == 'href'
        href = n.attributes[0].value
        if not isinstance(href, str):
            href = ''.join(href)      # a repaired implementation may store a one-string list
    return (bool(C.re_url.match(s)), bool(C.re_email.match(s)), bool(re.match(pat, s)), href)


def matcher_strings(ctx, tabs):
    quick = ctx.tier == 'quick'
    rng = ctx.rng
    out = list(TEXTS)
    out += list(frag_strings(URL_FRAGS, 3 if quick else 4))
    out += list(frag_strings(MAIL_FRAGS, 3 if quick else 4))
    em = tabs['email']
    A, D = chr(em['at']), chr(em['dot'])
    # structured e-mail addresses: local @ domain . tld tail, each part from members / non-members of its class
    locs = ['a', 'Z9', 'a.b', '._%+-', 'ſ', 'K', 'İı', 'é', 'a b', '', 'a' + A, 'a!']
    doms = ['b', 'B-1', 'b.c', '.', '-', 'ſ', 'K', 'b_', 'é', '', 'b' + A + 'c', 'b c']
    tlds = ['c', 'cc', 'CcC', 'cccc', 'ccccc', 'cccccc', 'c1', 'cſ', 'KK', 'ıİ', 'cé', '', 'c-c', 'cc.dd', 'cc.d']
    tails = ['', '\n', '\n\n', ' ', 'x', '\r', '\x85', '\u2028', '\nx', D]
    for lo in locs:
        for do in doms:
            for tl in (tlds if not quick else tlds[::2] + ['cc']):
                for ta in (tails if not quick else tails[:4]):
                    out.append(lo + A + do + D + tl + ta)
    # boundary code points of every class, at the position of that class (members, neighbours of members)
    edge = set()
    for tbl in (em['L'], em['D'], em['T'], em['E']):
        for c in tbl:
            edge.update((c - 1, c, c + 1))
    for a, b in tabs['W'][:: (7 if quick else 1)]:
        edge.update((a - 1, a, b, b + 1))
    edge.update(range(0, 0x250))
    edge.update([0x2028, 0x2029, 0x85, 0x1c, 0x1d, 0x1e, 0xa0, 0x3000, 0xfeff, 0xd800, 0xdfff, 0x10ffff, 0x1d7ce, 0xff21, 0xff41, 0x1e9e, 0xdf])
    for c in sorted(x for x in edge if 0 <= x < 0x110000):
        ch = chr(c)
        out += [ch + A + 'b' + D + 'cc', 'a' + A + ch + D + 'cc', 'a' + A + 'b' + D + 'c' + ch, 'a' + A + 'b' + D + 'cc' + ch,
                'a' + ch + 'b' + D + 'cc', 'a' + A + 'b' + ch + 'cc', ch + ':', 'a' + ch + ':', 'www' + ch + 'x', 'ww' + ch + '.x',
                'http' + ch + '//x', '/' + ch + 'x', 'www.' + ch, ch + '//x']
    wide = URL_FRAGS + MAIL_FRAGS + ['://', 'www.', 'mailto:', '\r', '\t', '٣', 'ǅ', 'ß', '²', 'Ⅻ', '\x1c', ' ']
    for _ in range(4000 if quick else 60000):
        out.append(''.join(rng.choice(wide) for _ in range(rng.randint(1, 9))))
    seen = set()
    res = []
    for s in out:
        if s not in seen:
            seen.add(s)
            res.append(s)
    return res


def run_matchers(ctx, hmodel):
    import gen_href
    tabs = gen_href.tables()
    pat = tabs['pat']
    strings = matcher_strings(ctx, tabs)
    outs = hmodel.run([[1] + enc_str(s) for s in strings])
    dis = 0
    hits = {'url': 0, 'email': 0, 'proto': 0, 'href': 0}
    for s, w in zip(strings, outs):
        r = Reader(w)
        mo = (r.bool(), r.bool(), r.bool(), r.opt(r.str))
        try:
            im = impl_matchers(pat, s)
        except Exception as e:  # noqa
            im = ('exception', type(e).__name__)
        ctx.count_eval()
        if mo != im:
            dis += 1
            if dis <= 5:
                ctx.say('DISAGREE href matchers on %r\n  impl  (url, email, proto, href) = %r\n  model %r' % (s, im, mo))
                ctx.broken.append({'kind': 'correspondence', 'file': 'href-matchers', 'input': s, 'impl': repr(im), 'model': repr(mo)})
        else:
            for k, v in zip(('url', 'email', 'proto', 'href'), mo):
                if v:
                    hits[k] += 1
            if mo[3] is not None:
                ctx.nontrivial(('href-m', s))
    ctx.cov['correspondence']['href_matchers(url, email, proto, href value of the real insert_href)'] = {
        'cases': len(strings), 'disagreements': dis, 'matching': hits}


# insert_href on a node with attributes
ATTR_NAMES = ['href', 'title', None, 'HREF']
VALUE_KINDS = [0, 1, 2, 3]       # None | [] | ['x'] | [Field(1)]


def _attr_spec_space(quick):
    one = [(nm, vk, vt, b, i) for nm in ATTR_NAMES for vk in VALUE_KINDS for vt, b, i in ((0, False, False), (3, True, False), (1, False, True))]
    specs = [None, []]
    specs += [[a] for a in one]
    small = [(nm, vk, 0, False, False) for nm in ATTR_NAMES[:3] for vk in VALUE_KINDS]
    specs += [[a, b] for a in small for b in small]
    if not quick:
        tiny = [(nm, vk, 0, False, False) for nm in ATTR_NAMES[:2] for vk in (0, 2)]
        specs += [[a, b, c] for a in small for b in tiny for c in small]
    return specs


def _enc_spec(spec):
    def one(a):
        nm, vk, vt, b, i = a
        return enc_opt(enc_str, nm) + ([vk] + (enc_str('x') if vk == 2 else [])) + [vt] + enc_bool(b) + enc_bool(i)
    return enc_opt(lambda l: enc_list(one, l), spec)


def _impl_insert(spec, text):
    import importlib
    C = importlib.import_module('emmet.abbreviation.convert')
    from emmet.abbreviation.tokenizer.tokens import Field
    attrs = None
    if spec is not None:
        attrs = []
        for nm, vk, vt, b, i in spec:
            val = [None, [], ['x'], [Field('', 1)]][vk]
            attrs.append(C.AbbreviationAttribute(nm, copy.copy(val), ['raw', 'singleQuote', 'doubleQuote', 'expression'][vt], b, i, False))
    n = _bare_node(attrs)
    try:
        C.insert_href(n, text)
    except Exception as e:  # noqa
        return ('exception', type(e).__name__)
    if n.attributes is None:
        return None
    out = []
    for a in n.attributes:
        v = a.value
        if v is not None:
            v = [('s', t) if isinstance(t, str) else ('f', t.index, t.name) for t in v]     # a str yields its characters
        out.append((a.name, v, a.value_type, bool(a.boolean), bool(a.implied), bool(a.multiple)))
    return out


def _dec_attrs(w):
    r = Reader(w)

    def vtok():
        if r.int() == 0:
            return ('s', r.str())
        return ('f', r.int(), r.str())

    def attr():
        nm = r.opt(r.str)
        v = r.opt(lambda: r.list(vtok))
        vt = ['raw', 'singleQuote', 'doubleQuote', 'expression'][r.int()]
        return (nm, v, vt, r.bool(), r.bool(), r.bool())
    return r.opt(lambda: r.list(attr))


def run_insert(ctx, hmodel):
    specs = _attr_spec_space(ctx.tier == 'quick')
    texts = ['www.x', 'a@b.cc', '//x', 'http://y', 'nope', '']
    cases = [(sp, t) for sp in specs for t in texts]
    outs = hmodel.run([[2] + _enc_spec(sp) + enc_str(t) for sp, t in cases])
    dis = 0
    changed = 0
    for (sp, t), w in zip(cases, outs):
        mo = _dec_attrs(w)
        im = _impl_insert(sp, t)
        ctx.count_eval()
        if sp == [] and im is not None and mo is not None and im == mo:
            pass
        if mo != im:
            dis += 1
            if dis <= 5:
                ctx.say('DISAGREE insert_href attrs=%r text=%r\n  impl  %r\n  model %r' % (sp, t, im, mo))
                ctx.broken.append({'kind': 'correspondence', 'file': 'href-insert', 'input': repr((sp, t)), 'impl': repr(im)[:300], 'model': repr(mo)[:300]})
        elif im != _impl_insert(sp, 'nope'):
            changed += 1
    ctx.cov['correspondence']['href_insert_href(attributes of a node after the real insert_href)'] = {
        'cases': len(cases), 'disagreements': dis, 'cases_where_the_attributes_change': changed}


# ---------------------------------------------------------------- pipeline level
def oracle_c07(abbr, cfg, meta, r):
    if r[0] == 'ok' or r[0] == 'err':
        return None
    return 'expand did not return a string or a parse error: %r' % (r,)


# abbreviations with a WRITTEN href value and what the opening tag must then hold (C03: values appear as written)
WRITTEN = {'a[href=x]': ' href="x"', 'a[href={x}]': ' href={x}', 'a[href href=y]': ' href="y"', 'a[href=x]*': ' href="x"'}


def simple_cfg(cfg):
    """Only the PLAIN output options and markup.href: nothing that renames, re-quotes or reformats attributes."""
    return set(cfg) <= {'text', 'options'} and set(cfg.get('options') or {}) <= set(PLAIN) | {'markup.href'}


def plain_cfg(cfg):
    o = cfg.get('options') or {}
    return simple_cfg(cfg) and all(o.get(k) == v for k, v in PLAIN.items())


def secondary_oracles(abbr, cfg, r):
    """What the property statements next to markup.href say about an implementation result: C03 (a written value
    appears as written), C04 (the whole text once, verbatim, in the deepest last element), and the option itself
    (off = the text is not copied anywhere else).  None or a description."""
    if r[0] != 'ok':
        return None
    out = r[1]
    text = cfg.get('text')
    if abbr in WRITTEN and simple_cfg(cfg) and WRITTEN[abbr] not in out:
        return 'C03: the written href value is not in the output as written (%r expected in %r)' % (WRITTEN[abbr], out[:200])
    if isinstance(text, str) and plain_cfg(cfg):
        whole = text.strip()
        if whole and not re.search(r'[\r\n]', whole):
            if abbr in C04_SHAPES:
                bad = oracle_c04(abbr, cfg, None, r)
                if bad:
                    return 'C04: ' + bad
            if abbr in ('a', 'a[href]') and cfg['options'].get('markup.href') is False and out != '<a href="">%s</a>' % whole:
                return 'markup.href is off but the output is %r, not <a href="">TEXT</a>' % out[:200]
    return None


def pipeline_cases(ctx):
    """-> list of (abbr, cfg, meta)"""
    quick = ctx.tier == 'quick'
    rng = ctx.rng
    cases = []
    main_abbrs = ABBRS[:12] + ['a:link', 'ul>li*>a', 'ul>li>a', 'b>a', 'a>b', 'a*2', 'a{$#}', 'A']
    # (1) every text on the main abbreviations, default options and PLAIN
    for t in TEXTS:
        for a in (main_abbrs if not quick else main_abbrs[:8] + [rng.choice(main_abbrs[8:])]):
            cases.append((a, mkcfg(t), {'tag': 'text x abbr'}))
        cases.append((rng.choice(ABBRS), mkcfg(t, PLAIN), {'tag': 'text x abbr'}))
    for l in LISTS:
        for a in ['a', 'a[href]', 'a[href=x]', 'ul>li*>a', 'ul>li>a', 'a*', 'a:link', 'li*>a[href]']:
            cases.append((a, mkcfg(l), {'tag': 'list x abbr'}))
    # (2) every abbreviation with a URL, an e-mail address and a near miss
    for a in ABBRS:
        for t in ['www.x', 'a@b.cc', 'http://x y', 'http:/x', ['//a', 'b']]:
            cases.append((a, mkcfg(t), {'tag': 'abbr x text'}))
    # (3) option sets, syntaxes, snippet tables
    some_texts = ['www.x', 'a@b.cc', '//a\nb', 'www.x"y\'z', 'A@B.CC\n', 'http:/x', ['www.x', 'a@b.cc']]
    for o in OPTION_SETS:
        for a in ['a', 'a[href]', 'a[href=x]', 'a[title=t]', 'a[href title=t href]', 'p>a.c', 'ul>li*>a']:
            for t in (some_texts if not quick else [rng.choice(some_texts), rng.choice(some_texts)]):
                cases.append((a, mkcfg(t, o), {'tag': 'options'}))
    for syn in SYNTAXES:
        for a in ['a', 'a[href]', 'a[href=x]', 'a.c[title=t]', 'div>a', 'a:link']:
            for t in ['www.x y', 'a@b.cc', '//a\nb']:
                cases.append((a, mkcfg(t, None, syn), {'tag': 'syntax'}))
    for sn in SNIPPETS:
        for a in ['a', 'x', 'y', 'a[href]', 'b>a', 'a[title=t]']:
            for t in ['www.x', 'a@b.cc']:
                cases.append((a, mkcfg(t, None, None, sn), {'tag': 'snippets'}))
                cases.append((a, mkcfg(t, {'output.reverseAttributes': True}, None, sn), {'tag': 'snippets'}))
    # text that is falsy but not None reaches the snippet parser as well
    for t in ['', [], ' ', ['']]:
        for a in ['a', 'a[href]', 'x']:
            cases.append((a, mkcfg(t, None, None, {'x': 'a'}), {'tag': 'falsy text'}))
    # (4) random mixes
    wide = URL_FRAGS + MAIL_FRAGS + ['://', 'www.', 'cc']
    for _ in range(600 if quick else 8000):
        if rng.random() < 0.5:
            t = rng.choice(TEXTS)
        else:
            t = ''.join(rng.choice(wide) for _ in range(rng.randint(1, 7)))
        if rng.random() < 0.2:
            t = [t] + [rng.choice(TEXTS) for _ in range(rng.randint(0, 2))]
        o = dict(rng.choice(OPTION_SETS))
        if rng.random() < 0.3:
            o.update(rng.choice(OPTION_SETS))
        cfg = mkcfg(t, o, rng.choice(SYNTAXES + [None, None]), rng.choice(SNIPPETS + [None, None, None]))
        if rng.random() < 0.1:
            cfg['maxRepeat'] = rng.choice([1, 2])
        if rng.random() < 0.1:
            cfg['context'] = {'name': rng.choice(['a', 'ul', 'p'])}
        a = rng.choice(ABBRS)
        if rng.random() < 0.15:
            a = rng.choice(['ul>li>', 'p+', '(b>', 'div*2>', '']) + a
            if a.startswith('('):
                a += ')'
        cases.append((a, cfg, {'tag': 'random'}))
    return cases


def run_pipeline(ctx, model):
    from markup_util import impl_expand, enc_config, decode_expand, NotModelled
    cases = pipeline_cases(ctx)
    n_href = 0
    impl = []
    wires, idx = [], []
    for k, (abbr, cfg, meta) in enumerate(cases):
        ctx.cover('href:' + meta['tag'])
        r = impl_expand(abbr, cfg)
        impl.append(r)
        ctx.count_eval()
        ctx.cover('href:%s' % (r[0] if r[0] != 'err' else 'err%d' % r[1]))
        bad = oracle_c07(abbr, cfg, meta, r)
        if bad:
            ctx.property_failure('href:%s|%s' % (abbr, canon_cfg(cfg)), 'href expand(%r, %s): %s' % (abbr, canon_cfg(cfg), bad),
                                 {'component': 'href', 'abbr': abbr, 'config': cfg, 'impl': repr(r)[:500], 'why': bad})
        if r[0] == 'ok':
            off = copy.deepcopy(cfg)
            off.setdefault('options', {})['markup.href'] = False
            if impl_expand(abbr, off) != r:
                n_href += 1
                ctx.nontrivial(('href-p', abbr, canon_cfg(cfg)))
        try:
            wires.append([2] + enc_config(cfg) + enc_str(abbr))
            idx.append(k)
        except NotModelled:
            ctx.cover('href:not-modelled')
    dis = 0
    for k, w in zip(idx, model.run(wires)):
        abbr, cfg, meta = cases[k]
        mo = decode_expand(w)
        im = impl[k]
        if im[0] == 'recursion' or mo == im:
            continue
        dis += 1
        # a disagreement: look for a statement the implementation's result breaks, to report a concrete failing input
        bad = secondary_oracles(abbr, cfg, im)
        if dis <= 5:
            ctx.say('DISAGREE href %r cfg=%s\n  impl  %r\n  model %r%s' % (abbr, canon_cfg(cfg), str(im)[:400], str(mo)[:400],
                                                                      '\n  ' + bad if bad else ''))
        if bad:
            ctx.property_failure('href:%s|%s' % (abbr, canon_cfg(cfg)), 'href expand(%r, %s): %s' % (abbr, canon_cfg(cfg), bad),
                                 {'component': 'href', 'abbr': abbr, 'config': cfg, 'impl': repr(im)[:500], 'why': bad})
        elif dis <= 5:
            ctx.broken.append({'kind': 'correspondence', 'file': 'markup-href', 'input': abbr, 'config': canon_cfg(cfg),
                               'impl': repr(im)[:300], 'model': repr(mo)[:300]})
    ctx.cov['correspondence']['markup_href(full expand output)'] = {
        'cases': len(wires), 'disagreements': dis, 'cases_where_markup.href_changes_the_output': n_href}
    # callback events (text chunks with offset/line/column): the href value is a str and is pushed character by character
    ev = [c for k, c in enumerate(cases) if k % (5 if ctx.tier == 'quick' else 2) == 0]
    run_cases(ctx, model, ev, 'href-events', oracle=None, mode='events')


def replay_href(rp):
    from markup_util import impl_expand
    abbr, cfg = rp['abbr'], rp.get('config') or {}
    r = impl_expand(abbr, cfg)
    bad = oracle_c07(abbr, cfg, None, r) or secondary_oracles(abbr, cfg, r)
    print('href expand(%r, %s) -> %s : %s' % (abbr, canon_cfg(cfg), repr(r)[:300], bad or 'holds'))
    return 1 if bad else 0


def run_href(ctx, model):
    """Called by harness/c07_markup.py with the extracted markup model."""
    ok = ctx.build(['props/Href.vo', 'run/HrefRun.vo'])
    if ok:
        ctx.obligations('props/Href.v')
    hmodel = ctx.model('href') if ok else None
    if hmodel is not None:
        run_matchers(ctx, hmodel)
        run_insert(ctx, hmodel)
    if model is not None:
        run_pipeline(ctx, model)
    ctx.cov['rule'] = ctx.cov.get('rule', '') + (
        ' markup.href (coq/model/MarkupHref.v): matchers of the model against the compiled regex objects and the real insert_href on '
        'every sequence of <= %d URL / e-mail fragments, the boundary code points of every generated class and random mixes; '
        'insert_href on nodes with every list of <= %d attributes (href/title/nameless x None/[]/[str]/[field]); FULL expand() output '
        'and callback events, model = implementation, for %d URL / e-mail / near-miss wrap texts and text lists on `a`, `a[href]`, '
        '`a[href=x]`, `a:link`, `ul>li*>a`, ... under output options, syntaxes, comments, BEM, user snippets, markup.href on/off '
        '(harness/href_util.py).' % (3 if ctx.tier == 'quick' else 4, 2 if ctx.tier == 'quick' else 3, len(TEXTS)))


# ---------------------------------------------------------------- C04: the whole text goes once, verbatim, into the deepest last element
C04_SHELLS = [('%s', '', ''), ('p>%s', '<p>', '</p>'), ('ul>li>%s', '<ul><li>', '</li></ul>'), ('b+%s', '<b></b>', ''), ('(i>%s)', '<i>', '</i>'),
              ('(p>q)+%s', '<p><q></q></p>', '')]
C04_ATTRS = ['', '[href]', '[href=x]', '[title=t]', "[href='']", '.c']
C04_SHAPES = {sh % ('a' + at): (pre, post) for sh, pre, post in C04_SHELLS for at in C04_ATTRS}
RE_ATTRS = re.compile(r'^( [\w:-]+="[^"]*")*$')


def oracle_c04(abbr, cfg, meta, r):
    """The statement of C04 on one result: without an implicit repeater and without `$#` the whole text is inserted
    once into the deepest last element, verbatim.  (abbr, cfg) determine the expectation: the output is
    <opening tags><a ATTRS>TEXT</a><closing tags>; what ATTRS holds is not the statement's business."""
    pre, post = C04_SHAPES[abbr]
    whole = cfg['text'].strip()
    if r[0] != 'ok':
        return 'expand did not return a string: %r' % (r[:2],)
    out = r[1]
    head, tail = pre + '<a', '>' + whole + '</a>' + post
    if not (out.startswith(head) and out.endswith(tail) and len(out) >= len(head) + len(tail)):
        return 'output %r is not %r ... %r: the text is not the content of the deepest last element, verbatim' % (out[:300], head, tail)
    attrs = out[len(head):len(out) - len(tail)]
    if '"' not in whole and '>' not in whole and not RE_ATTRS.match(attrs):
        return 'output %r: between %r and %r there is more than a list of attributes: %r' % (out[:300], head, tail, attrs[:100])
    return None


def c04_cases(ctx):
    """URL / e-mail / near-miss texts (single line after stripping) on an `a` that is the deepest last element."""
    import text_gen as g
    out = []
    texts = [t for t in TEXTS if isinstance(t, str) and t.strip() and not g.RE_BREAK.search(t.strip())]
    abbrs = sorted(C04_SHAPES)
    rng = ctx.rng
    wide = URL_FRAGS + MAIL_FRAGS + ['://', 'www.', 'cc']
    extra = [''.join(rng.choice(wide) for _ in range(rng.randint(1, 7))) for _ in range(150 if ctx.tier == 'quick' else 3000)]
    texts += [t for t in extra if t.strip() and not g.RE_BREAK.search(t.strip())]
    for k, t in enumerate(texts):
        for j in range(4 if ctx.tier == 'quick' else 12):
            abbr = abbrs[(k * 7 + j * 5) % len(abbrs)]
            href = (k + j) % 3 != 0
            cfg = {'text': t, 'options': dict(g.PLAIN['options'], **{'markup.href': href})}
            out.append((abbr, cfg, {'kind': 'wrap:plain-href'}))
    return out


def run_c04(ctx, model):
    """Called by harness/props/c04.py: oracle of the C04 statement + model comparison on every callback event."""
    cases = c04_cases(ctx)
    ctx.cover('kind:wrap:plain-href(url/e-mail like text on `a`)', len(cases))
    for abbr, cfg, _ in cases:
        ctx.nontrivial(('href-c04', abbr, cfg['text'], cfg['options']['markup.href']))
    run_cases(ctx, model, cases, 'C04href', oracle_c04, mode='events')
    ctx.cov['rule'] = ctx.cov.get('rule', '') + (
        ' markup.href stream (harness/href_util.py): wrap texts that look like URLs / e-mail addresses / near misses on an `a` element '
        '(bare, with empty / non-empty href, other attributes) that is the deepest last element, markup.href on and off: the output '
        'must be <a ATTRS>TEXT</a> with TEXT verbatim; model = implementation on every callback event.')


def replay_c04(rp):
    from markup_util import impl_expand
    r = impl_expand(rp['abbr'], rp['config'])
    bad = oracle_c04(rp['abbr'], rp['config'], None, r)
    print('expand(%r, %s) -> %r' % (rp['abbr'], canon_cfg(rp['config']), r))
    print('property %s' % ('FAILS: ' + bad if bad else 'holds on this input'))
    return 1 if bad else 0
